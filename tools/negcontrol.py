#!/usr/bin/env python3
"""negcontrol.py <name> [checks...]: apply a named behaviour-preserving edit to a scratch copy of /repo and run the checks.
Every one of these must leave all checks silent (exit 0): a rule that fires here is brittle, not strong."""
import sys, os, re, subprocess, shutil
name=sys.argv[1]
import tempfile
S=tempfile.mkdtemp(prefix='xcm-neg-%s-' % name)
if not os.environ.get("NEG_KEEP"): shutil.rmtree(S, ignore_errors=True)
else: print("kept", S)
subprocess.run(["rsync","-a","--exclude",".git","--exclude","*.o","--exclude","*.lo","--exclude","*.la","--exclude",".libs","--exclude","test","--exclude","python","--exclude","doc","--exclude","autom4te.cache","/repo/",S+"/"],check=True)
def edit(path, fn):
    p=os.path.join(S,path); s=open(p).read(); t=fn(s); assert t!=s, ("no change", path); open(p,'w').write(t)
def body_rename(s, func, old, new):
    i=s.index(func); j=s.index("\n}\n", i)
    return s[:i]+re.sub(r'\b%s\b'%old, new, s[i:j])+s[j:]
E={
 'rename_rc': lambda: edit('libxcm/tp/tcp/xcm_tp_btcp.c', lambda s: body_rename(s, "static int btcp_send(struct xcm_socket *__restrict s,", "rc", "res")),
 'swap_ctl_update': lambda: edit('libxcm/tp/common/xcm_tp.c', lambda s: s.replace('''    consider_ctl(s, rc < 0 && errno != EAGAIN, rc < 0 && errno == EAGAIN);

    consider_auto_update(s);

    return rc;
}
int xcm_tp_socket_receive''','''    consider_auto_update(s);

    consider_ctl(s, rc < 0 && errno != EAGAIN, rc < 0 && errno == EAGAIN);

    return rc;
}
int xcm_tp_socket_receive''') if 'int xcm_tp_socket_receive' in s else s) ,
 'rename_conn_update': lambda: [edit(f, lambda s: re.sub(r'\bconn_update\b','update_conn',s)) for f in ('libxcm/tp/tcp/xcm_tp_btcp.c','libxcm/tp/tls/xcm_tp_btls.c')],
 'rename_deinit': lambda: edit('libxcm/tp/tcp/xcm_tp_btcp.c', lambda s: re.sub(r'\bdeinit\b','release_all',s)),
 'invert_guard': lambda: edit('libxcm/ctl/ctl.c', lambda s: s.replace('''    if (is_sensitive(attr_name))
	return;
''','''    bool hidden = is_sensitive(attr_name);
    if (hidden)
	return;
''')),
 'extract_bind': lambda: edit('libxcm/tp/tcp/tconnect.c', lambda s: s.replace('''static void track_abort_connect(struct track *track);

static void track_connect_next(struct track *track)''','''static void track_abort_connect(struct track *track);

static int bind_local(struct track *track, int fd)
{
    struct sockaddr_storage laddr;
    int64_t scope = track_get_current_scope(track);

    tp_ip_to_sockaddr(track->local_ip, track->local_port, scope,
		      (struct sockaddr *)&laddr);

    return bind(fd, (struct sockaddr *)&laddr, sizeof(laddr));
}

static void track_connect_next(struct track *track)''').replace('''	struct sockaddr_storage laddr;
	int64_t scope = track_get_current_scope(track);

	tp_ip_to_sockaddr(track->local_ip, track->local_port, scope,
			  (struct sockaddr *)&laddr);

	UT_SAVE_ERRNO;
	int rc = bind(fd, (struct sockaddr *)&laddr, sizeof(laddr));
	UT_RESTORE_ERRNO(bind_errno);''','''	UT_SAVE_ERRNO;
	int rc = bind_local(track, fd);
	UT_RESTORE_ERRNO(bind_errno);''')),
 'rename_static_helpers': lambda: [edit('libxcm/tp/tls/xcm_tp_btls.c', lambda s: re.sub(r'\b(verify_peer_cert|enable_hostname_validation|inherit_tls_conf|process_ssl_event|process_ssl_close)\b', r'x_\1', s)),
                                     edit('libxcm/tp/tcp/tconnect.c', lambda s: re.sub(r'\b(track_connect_next|track_create|track_process_connecting)\b', r'x_\1', s)),
                                     edit('libxcm/core/xcm.c', lambda s: re.sub(r'\b(bytestream_bsend|msg_bsend|socket_wait|set_attrs|socket_create)\b', r'x_\1', s)),
                                     edit('libxcm/ctl/ctl.c', lambda s: re.sub(r'\b(client_receive|process_client|remove_client)\b', r'x_\1', s)),
                                     edit('libxcm/tp/tls/ctx_store.c', lambda s: re.sub(r'\b(cache_entry_create|cache_get|cache_put|get_credentials_hash|hash_item|load_ssl_ctx)\b', r'x_\1', s))],
 'rename_relay_helpers': lambda: edit('tools/xcmrelay/xrelay.c', lambda s: re.sub(r'\b(add_condition|del_condition|set_condition|xrelay_fwd_term|xfwd_handle_term|xfwd_receive|xfwd_send|xfwd_stop|xfwd_active)\b', r'x_\1', s)),
 'bsend_restructure': lambda: edit('libxcm/core/xcm.c', lambda s: s.replace("""	if (rc < 0) {
	    if (errno != EAGAIN)
		return -1;
	    if (socket_wait(conn_s, XCM_SO_SENDABLE) < 0)
		return -1;
	} else
	    sent += rc;
    } while (sent < len);""", """	if (rc >= 0) {
	    sent += rc;
	    continue;
	}
	if (errno != EAGAIN || socket_wait(conn_s, XCM_SO_SENDABLE) < 0)
	    return -1;
    } while (sent < len);""")),
 'msg_bsend_while': lambda: edit('libxcm/core/xcm.c', lambda s: s.replace("""    for (;;) {
	int s_rc = xcm_tp_socket_send(conn_s, buf, len);

	if (s_rc < 0) {
	    if (errno != EAGAIN)
		return -1;
	    if (socket_wait(conn_s, XCM_SO_SENDABLE) < 0)
		return -1;
	} else
	    return 0;
    }""", """    while (xcm_tp_socket_send(conn_s, buf, len) < 0) {
	if (errno != EAGAIN)
	    return -1;
	if (socket_wait(conn_s, XCM_SO_SENDABLE) < 0)
	    return -1;
    }
    return 0;""")),
 'xcm_send_early': lambda: edit('libxcm/core/xcm.c', lambda s: s.replace("""    if (conn_s->is_blocking) {
	int rc;
	if (xcm_tp_socket_is_bytestream(conn_s))
	    rc = bytestream_bsend(conn_s, buf, len);
	else
	    rc = msg_bsend(conn_s, buf, len);

	if (rc >= 0 && socket_finish(conn_s) < 0)
	    return -1;

	return rc;
    } else
	return xcm_tp_socket_send(conn_s, buf, len);""", """    if (!conn_s->is_blocking)
	return xcm_tp_socket_send(conn_s, buf, len);

    int rc = xcm_tp_socket_is_bytestream(conn_s) ?
	bytestream_bsend(conn_s, buf, len) : msg_bsend(conn_s, buf, len);

    if (rc < 0)
	return rc;

    if (socket_finish(conn_s) < 0)
	return -1;

    return rc;""")),
 'tcp_send_expand_macro': lambda: edit('libxcm/tp/tcp/xcm_tp_tcp.c', lambda s: s.replace("""    TP_GOTO_ON_INVALID_MSG_SIZE(len, MBUF_MSG_MAX, err);

    TP_RET_ERR_IF(ts->conn.bad, ts->conn.badness_reason);

    if (try_finish_send(s) < 0)
	goto err;
""", """    TP_GOTO_ON_INVALID_MSG_SIZE(len, MBUF_MSG_MAX, err);

    if (ts->conn.bad) {
	LOG_OP_FAILED(ts->conn.badness_reason);
	errno = ts->conn.badness_reason;
	goto err;
    }

    int flush_rc = try_finish_send(s);
    if (flush_rc < 0)
	goto err;
""")),
 'receive_loop_form': lambda: edit('libxcm/core/xcm.c', lambda s: s.replace("""	for (;;) {
	    if (socket_wait(conn_s, XCM_SO_RECEIVABLE) < 0)
		return -1;
	    int s_rc = xcm_tp_socket_receive(conn_s, buf, capacity);

	    if (s_rc >= 0 || errno != EAGAIN)
		return s_rc;
	}""", """	int s_rc;
	do {
	    if (socket_wait(conn_s, XCM_SO_RECEIVABLE) < 0)
		return -1;
	    s_rc = xcm_tp_socket_receive(conn_s, buf, capacity);
	} while (s_rc < 0 && errno == EAGAIN);
	return s_rc;""")),
 'rename_set_verify': lambda: edit('libxcm/tp/tls/xcm_tp_btls.c', lambda s: re.sub(r'\bset_verify\b','apply_verify_policy',s)),
 'rename_finalize': lambda: edit('libxcm/tp/tls/xcm_tp_btls.c', lambda s: re.sub(r'\bfinalize_tls_conf\b','complete_tls_conf',s)),
}
E[name]()
r=subprocess.run(["gcc","-fsyntax-only","-I",S+"/include","-I",S+"/common","-I",S+"/libxcm/core","-I",S+"/libxcm/tp/common","-I",S+"/libxcm/tp/tcp","-I",S+"/libxcm/tp/dns","-I",S+"/libxcm/tp/tls","-I",S+"/libxcm/ctl","-I",S+"/lttng","-DXCM_TLS","-DXCM_CTL","-DXCM_CARES","-DXCM_LTTNG", "-std=gnu99"]+[], capture_output=True)
env=dict(os.environ, XCM_REPO=S, VERIF_NO_EVIDENCE="1")
r=subprocess.run(["/verif/check"]+(sys.argv[2:] or ["all"]),env=env,capture_output=True,text=True,cwd="/verif")
print(name,"rc=%d"%r.returncode)
if r.returncode == 2: print(r.stderr[-3000:])
for l in r.stdout.splitlines():
    if l.startswith(("VIOLATION","ANALYSIS-BROKEN","  violation")): print("   ",l[:230])
if not os.environ.get("NEG_KEEP"): shutil.rmtree(S, ignore_errors=True)
else: print("kept", S)
