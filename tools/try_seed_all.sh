#!/bin/bash
# usage: try_seed_all.sh <patch.diff>: every check against a scratch copy with the change applied; prints the rules that report it
P=$(realpath "$1")
S=$(mktemp -d /tmp/vfscratch-seedall-XXXXXX)
rsync -a --exclude .git --exclude '*.o' --exclude '*.lo' --exclude '*.la' --exclude .libs --exclude xcmtest --exclude autom4te.cache --exclude test --exclude python --exclude doc /repo/ $S/
if ! ( cd $S && patch -p1 -s -F3 --no-backup-if-mismatch < "$P" ) > /dev/null 2>&1; then echo "$1: PATCH DOES NOT APPLY"; rm -rf $S; exit 3; fi
cd /verif
XCM_REPO=$S VERIF_NO_EVIDENCE=1 ./check all > $S.log 2>&1
echo "$1: $(grep -E '^  violation' $S.log | sed 's/^  violation \([^|]*\)|.*/\1/' | sort -u | tr '\n' ' ') $(grep -c BROKEN $S.log | sed 's/^0$//;s/^\([1-9].*\)$/[BROKEN x\1]/')"
grep -E "BROKEN" $S.log | head -3
rm -rf $S $S.log
