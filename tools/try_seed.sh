#!/bin/bash
# usage: try_seed.sh <patch.diff> <check ids...>   -- applies a seeded change to /repo, runs checks, undoes it
P=$1; shift
cd /repo || exit 3
if ! git apply --check "$P" 2>/dev/null; then echo "PATCH DOES NOT APPLY (3-way try)"; git apply -3 "$P" || { git checkout -- . ; exit 3; }; else git apply "$P"; fi
cd /verif
for c in "$@"; do ./check $c > /tmp/try_seed.$c.log 2>&1; rc=$?; echo "== $c rc=$rc"; grep -E "violation|VIOLATION|BROKEN" /tmp/try_seed.$c.log | cut -c1-260 | head -8; done
git -C /repo checkout -- . ; git -C /repo status --short | grep -v "^??" | head -3
