#!/bin/bash
# usage: try_seed.sh <patch.diff> <check ids...>
# Runs checks against a scratch copy of /repo's working tree with the seeded change applied
# (XCM_REPO points the checks at the copy; /repo itself is not touched).
P=$(realpath "$1"); shift
S=/tmp/seedscratch.$$
rm -rf $S; mkdir -p $S
rsync -a --exclude .git --exclude '*.o' --exclude '*.lo' --exclude '*.la' --exclude .libs --exclude xcmtest --exclude autom4te.cache --exclude test --exclude python --exclude doc /repo/ $S/
cd $S
if ! patch -p1 -s -F3 --no-backup-if-mismatch < "$P" > /tmp/try_seed.patch.log 2>&1; then echo "PATCH DOES NOT APPLY:"; cat /tmp/try_seed.patch.log | head -5; rm -rf $S; exit 3; fi
cd /verif
for c in "$@"; do XCM_REPO=$S ./check $c > /tmp/try_seed.$c.log 2>&1; rc=$?; echo "== $c rc=$rc"; grep -E "^  violation|^VIOLATION|BROKEN|KNOWN" /tmp/try_seed.$c.log | cut -c1-320 | head -8; done
rm -rf $S
