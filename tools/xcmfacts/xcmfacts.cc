// xcmfacts: dump the resolved program (AST facts + clang::CFG with every
// sub-expression as an element, in evaluation order) of one C translation
// unit as JSON.  Usage:
//   xcmfacts -o out.json --root /repo file.c -- clang <flags>
//
// Only declarations located under --root are dumped (system headers are
// skipped); function bodies of static inline functions in repository headers
// are dumped in every unit that includes them (the loader de-duplicates).

#include "clang/AST/ASTConsumer.h"
#include "clang/AST/ASTContext.h"
#include "clang/AST/Attr.h"
#include "clang/AST/Decl.h"
#include "clang/AST/Expr.h"
#include "clang/AST/RecordLayout.h"
#include "clang/AST/RecursiveASTVisitor.h"
#include "clang/AST/Stmt.h"
#include "clang/Analysis/CFG.h"
#include "clang/Frontend/CompilerInstance.h"
#include "clang/Frontend/FrontendAction.h"
#include "clang/Lex/Lexer.h"
#include "clang/Tooling/CommonOptionsParser.h"
#include "clang/Tooling/Tooling.h"
#include "llvm/Support/CommandLine.h"
#include "llvm/Support/JSON.h"
#include "llvm/Support/raw_ostream.h"

#include <map>
#include <string>

using namespace clang;
using namespace clang::tooling;
namespace json = llvm::json;

static llvm::cl::OptionCategory Cat("xcmfacts options");
static llvm::cl::opt<std::string> OutPath("o", llvm::cl::desc("output file"),
                                          llvm::cl::Required,
                                          llvm::cl::cat(Cat));
static llvm::cl::opt<std::string> Root("root", llvm::cl::desc("source root"),
                                       llvm::cl::Required, llvm::cl::cat(Cat));

namespace {

class Dumper {
public:
  Dumper(ASTContext &Ctx) : Ctx(Ctx), SM(Ctx.getSourceManager()) {}

  ASTContext &Ctx;
  SourceManager &SM;
  std::map<const Decl *, int> DeclIds;
  std::map<std::string, int> FileIds;
  json::Array Files;

  int declId(const Decl *D) {
    D = D->getCanonicalDecl();
    auto It = DeclIds.find(D);
    if (It != DeclIds.end())
      return It->second;
    int Id = DeclIds.size() + 1;
    DeclIds[D] = Id;
    return Id;
  }

  int fileId(llvm::StringRef Name) {
    std::string S = Name.str();
    // normalise "./x" and root prefix
    if (S.rfind(Root + "/", 0) == 0)
      S = S.substr(Root.size() + 1);
    while (S.rfind("./", 0) == 0)
      S = S.substr(2);
    auto It = FileIds.find(S);
    if (It != FileIds.end())
      return It->second;
    int Id = Files.size();
    FileIds[S] = Id;
    Files.push_back(S);
    return Id;
  }

  bool inRoot(SourceLocation L) {
    if (L.isInvalid())
      return false;
    SourceLocation E = SM.getExpansionLoc(L);
    if (SM.isInSystemHeader(E))
      return false;
    llvm::StringRef F = SM.getFilename(E);
    if (F.empty())
      return false;
    if (F.startswith("/") && !F.startswith(Root))
      return false;
    return true;
  }

  json::Value loc(SourceLocation L) {
    if (L.isInvalid())
      return nullptr;
    SourceLocation E = SM.getExpansionLoc(L);
    PresumedLoc P = SM.getPresumedLoc(E);
    if (P.isInvalid())
      return nullptr;
    json::Array A;
    A.push_back(fileId(P.getFilename()));
    A.push_back((int64_t)P.getLine());
    A.push_back((int64_t)P.getColumn());
    return std::move(A);
  }

  // outermost and innermost macro names of a location
  void macros(SourceLocation L, json::Object &O) {
    if (!L.isMacroID())
      return;
    std::string Inner =
        Lexer::getImmediateMacroName(L, SM, Ctx.getLangOpts()).str();
    SourceLocation Cur = L;
    std::string Outer = Inner;
    int Guard = 0;
    while (Cur.isMacroID() && Guard++ < 64) {
      Outer = Lexer::getImmediateMacroName(Cur, SM, Ctx.getLangOpts()).str();
      SourceLocation Next = SM.getImmediateMacroCallerLoc(Cur);
      if (Next == Cur)
        break;
      Cur = Next;
    }
    O["mac"] = Outer;
    if (Inner != Outer)
      O["imac"] = Inner;
    // was the token spelled in a macro argument (i.e. written by the user at
    // the expansion site)?
    if (SM.isMacroArgExpansion(L))
      O["marg"] = true;
  }

  std::string typeStr(QualType T) { return T.getAsString(); }

  void putType(json::Object &O, QualType T) {
    if (T.isNull())
      return;
    std::string S = typeStr(T);
    O["t"] = S;
    std::string C = typeStr(T.getCanonicalType());
    if (C != S)
      O["ct"] = C;
  }

  // ---- per function node table ---------------------------------------
  std::map<const Stmt *, int> *NodeIds = nullptr;
  json::Object *Nodes = nullptr;

  int nodeId(const Stmt *S) {
    if (!S)
      return 0;
    auto It = NodeIds->find(S);
    if (It != NodeIds->end())
      return It->second;
    int Id = NodeIds->size() + 1;
    (*NodeIds)[S] = Id;
    emitNode(S, Id);
    return Id;
  }

  static const char *declKind(const ValueDecl *D) {
    if (isa<ParmVarDecl>(D))
      return "param";
    if (isa<EnumConstantDecl>(D))
      return "enumconst";
    if (isa<FunctionDecl>(D))
      return "function";
    if (auto *V = dyn_cast<VarDecl>(D)) {
      if (V->isStaticLocal())
        return "static_local";
      if (V->hasGlobalStorage())
        return "global";
      return "local";
    }
    return "other";
  }

  void emitNode(const Stmt *S, int Id) {
    json::Object O;
    O["loc"] = loc(S->getBeginLoc());
    macros(S->getBeginLoc(), O);
    if (auto *E = dyn_cast<Expr>(S)) {
      putType(O, E->getType());
      {
        QualType QT = E->getType();
        if (!QT.isNull() && !QT->isPlaceholderType() && QT->isObjectType() && !QT->isIncompleteType() && !QT->isFunctionType() &&
            !QT->isVariablyModifiedType() && !QT->isDependentType() && !QT->isVoidType())
          O["sz"] = (int64_t)Ctx.getTypeSizeInChars(QT).getQuantity();
        if (!QT.isNull() && QT->isPointerType()) {
          QualType PT = QT->getPointeeType();
          if (!PT->isPlaceholderType() && PT->isObjectType() && !PT->isIncompleteType() && !PT->isFunctionType() && !PT->isVoidType() &&
              !PT->isVariablyModifiedType())
            O["psz"] = (int64_t)Ctx.getTypeSizeInChars(PT).getQuantity();
        }
        if (!QT.isNull() && QT->isUnsignedIntegerOrEnumerationType() && !QT->isEnumeralType())
          O["uns"] = true;
      }
      if (!E->isValueDependent() && E->getType()->isIntegralOrEnumerationType() &&
          E->isPRValue()) {
        Expr::EvalResult R;
        if (E->EvaluateAsInt(R, Ctx, Expr::SE_NoSideEffects))
          O["cv"] = (int64_t)R.Val.getInt().getExtValue();
      }
    }
    if (auto *CE = dyn_cast<CallExpr>(S)) {
      O["k"] = "call";
      if (const FunctionDecl *FD = CE->getDirectCallee()) {
        O["callee"] = FD->getNameAsString();
        O["cdid"] = declId(FD);
        if (FD->isNoReturn())
          O["noreturn"] = true;
        if (unsigned B = FD->getBuiltinID())
          O["builtin"] = (int64_t)B;
      }
      O["fn"] = nodeId(CE->getCallee());
      json::Array A;
      for (const Expr *Arg : CE->arguments())
        A.push_back(nodeId(Arg));
      O["args"] = std::move(A);
    } else if (auto *ME = dyn_cast<MemberExpr>(S)) {
      O["k"] = "member";
      O["base"] = nodeId(ME->getBase());
      O["field"] = ME->getMemberDecl()->getNameAsString();
      O["arrow"] = ME->isArrow();
      if (auto *FD = dyn_cast<FieldDecl>(ME->getMemberDecl()))
        O["record"] = FD->getParent()->getNameAsString();
    } else if (auto *DR = dyn_cast<DeclRefExpr>(S)) {
      O["k"] = "ref";
      O["name"] = DR->getDecl()->getNameAsString();
      O["dk"] = declKind(DR->getDecl());
      O["did"] = declId(DR->getDecl());
    } else if (auto *BO = dyn_cast<BinaryOperator>(S)) {
      O["k"] = "bin";
      O["op"] = BO->getOpcodeStr().str();
      O["l"] = nodeId(BO->getLHS());
      O["r"] = nodeId(BO->getRHS());
    } else if (auto *UO = dyn_cast<UnaryOperator>(S)) {
      O["k"] = "un";
      std::string Op = UnaryOperator::getOpcodeStr(UO->getOpcode()).str();
      if (UO->isPostfix())
        Op = "post" + Op;
      O["op"] = Op;
      O["sub"] = nodeId(UO->getSubExpr());
    } else if (auto *CA = dyn_cast<CastExpr>(S)) {
      O["k"] = "cast";
      O["ck"] = CA->getCastKindName();
      O["implicit"] = isa<ImplicitCastExpr>(CA);
      O["sub"] = nodeId(CA->getSubExpr());
    } else if (auto *PE = dyn_cast<ParenExpr>(S)) {
      O["k"] = "paren";
      O["sub"] = nodeId(PE->getSubExpr());
    } else if (auto *AS = dyn_cast<ArraySubscriptExpr>(S)) {
      O["k"] = "index";
      O["base"] = nodeId(AS->getBase());
      O["idx"] = nodeId(AS->getIdx());
    } else if (auto *IL = dyn_cast<IntegerLiteral>(S)) {
      O["k"] = "int";
      O["v"] = (int64_t)IL->getValue().getLimitedValue();
    } else if (auto *CL = dyn_cast<CharacterLiteral>(S)) {
      O["k"] = "char";
      O["v"] = (int64_t)CL->getValue();
    } else if (auto *SL = dyn_cast<StringLiteral>(S)) {
      O["k"] = "str";
      if (SL->getCharByteWidth() == 1)
        O["v"] = SL->getString().str();
      O["len"] = (int64_t)SL->getLength();
    } else if (isa<FloatingLiteral>(S)) {
      O["k"] = "float";
    } else if (auto *UE = dyn_cast<UnaryExprOrTypeTraitExpr>(S)) {
      O["k"] = "sizeof";
      if (UE->isArgumentType())
        O["argt"] = typeStr(UE->getArgumentType());
      else
        O["arg"] = nodeId(UE->getArgumentExpr());
    } else if (auto *CO = dyn_cast<ConditionalOperator>(S)) {
      O["k"] = "cond";
      O["c"] = nodeId(CO->getCond());
      O["tv"] = nodeId(CO->getTrueExpr());
      O["fv"] = nodeId(CO->getFalseExpr());
    } else if (auto *BC = dyn_cast<BinaryConditionalOperator>(S)) {
      O["k"] = "bincond";
      O["c"] = nodeId(BC->getCommon());
      O["fv"] = nodeId(BC->getFalseExpr());
    } else if (auto *OV = dyn_cast<OpaqueValueExpr>(S)) {
      O["k"] = "opaque";
      O["sub"] = nodeId(OV->getSourceExpr());
    } else if (auto *ILE = dyn_cast<InitListExpr>(S)) {
      O["k"] = "init";
      const InitListExpr *Sem = ILE->isSemanticForm() ? ILE : ILE->getSemanticForm();
      if (!Sem)
        Sem = ILE;
      json::Array A;
      for (const Expr *E : Sem->inits())
        A.push_back(nodeId(E));
      O["elems"] = std::move(A);
      // field names for record initialisers
      if (const RecordType *RT = Sem->getType()->getAs<RecordType>()) {
        json::Array F;
        if (RT->getDecl()->isUnion()) {
          if (const FieldDecl *UF = Sem->getInitializedFieldInUnion())
            F.push_back(UF->getNameAsString());
        } else
          for (const FieldDecl *FD : RT->getDecl()->fields())
            F.push_back(FD->getNameAsString());
        O["fields"] = std::move(F);
        O["record"] = RT->getDecl()->getNameAsString();
      }
    } else if (isa<ImplicitValueInitExpr>(S)) {
      O["k"] = "zeroinit";
    } else if (auto *CLE = dyn_cast<CompoundLiteralExpr>(S)) {
      O["k"] = "compound";
      O["sub"] = nodeId(CLE->getInitializer());
    } else if (auto *SE = dyn_cast<StmtExpr>(S)) {
      O["k"] = "stmtexpr";
      const CompoundStmt *CS = SE->getSubStmt();
      if (CS && !CS->body_empty())
        if (auto *Last = dyn_cast<Expr>(CS->body_back()))
          O["sub"] = nodeId(Last);
    } else if (auto *DS = dyn_cast<DeclStmt>(S)) {
      O["k"] = "decl";
      json::Array A;
      for (const Decl *D : DS->decls()) {
        if (auto *VD = dyn_cast<VarDecl>(D)) {
          json::Object V;
          V["name"] = VD->getNameAsString();
          V["did"] = declId(VD);
          putType(V, VD->getType());
          V["static"] = VD->isStaticLocal();
          if (VD->hasInit())
            V["init"] = nodeId(VD->getInit());
          if (auto *CAT = Ctx.getAsConstantArrayType(VD->getType()))
            V["alen"] = (int64_t)CAT->getSize().getLimitedValue();
          if (auto *VAT = Ctx.getAsVariableArrayType(VD->getType()))
            if (VAT->getSizeExpr())
              V["vla"] = nodeId(VAT->getSizeExpr());
          A.push_back(std::move(V));
        }
      }
      O["vars"] = std::move(A);
    } else if (auto *RS = dyn_cast<ReturnStmt>(S)) {
      O["k"] = "return";
      if (RS->getRetValue())
        O["sub"] = nodeId(RS->getRetValue());
    } else if (auto *CE2 = dyn_cast<ConstantExpr>(S)) {
      O["k"] = "paren";
      O["sub"] = nodeId(CE2->getSubExpr());
    } else if (auto *PD = dyn_cast<PredefinedExpr>(S)) {
      O["k"] = "str";
      O["v"] = PD->getFunctionName() ? PD->getFunctionName()->getString().str()
                                     : std::string();
    } else if (auto *AE = dyn_cast<AtomicExpr>(S)) {
      O["k"] = "atomic";
      json::Array A;
      for (const Stmt *C : AE->children())
        A.push_back(nodeId(C));
      O["args"] = std::move(A);
      O["aop"] = (int64_t)AE->getOp();
    } else if (auto *VA = dyn_cast<VAArgExpr>(S)) {
      O["k"] = "vaarg";
      O["sub"] = nodeId(VA->getSubExpr());
    } else {
      O["k"] = std::string("S:") + S->getStmtClassName();
      json::Array A;
      for (const Stmt *C : S->children())
        if (C)
          A.push_back(nodeId(C));
      O["ch"] = std::move(A);
    }
    (*Nodes)[std::to_string(Id)] = std::move(O);
  }

  // ---- functions -----------------------------------------------------
  json::Value dumpFunction(const FunctionDecl *FD) {
    json::Object F;
    F["name"] = FD->getNameAsString();
    F["did"] = declId(FD);
    F["static"] = FD->getStorageClass() == SC_Static;
    F["inline"] = FD->isInlineSpecified();
    F["loc"] = loc(FD->getLocation());
    F["begin"] = loc(FD->getBeginLoc());
    F["end"] = loc(FD->getEndLoc());
    macros(FD->getLocation(), F);
    F["ret"] = typeStr(FD->getReturnType());
    json::Array Attrs;
    if (FD->hasAttr<ConstructorAttr>())
      Attrs.push_back("constructor");
    if (FD->hasAttr<DestructorAttr>())
      Attrs.push_back("destructor");
    if (FD->isNoReturn())
      Attrs.push_back("noreturn");
    F["attrs"] = std::move(Attrs);
    json::Array Params;
    for (const ParmVarDecl *P : FD->parameters()) {
      json::Object PO;
      PO["name"] = P->getNameAsString();
      PO["did"] = declId(P);
      putType(PO, P->getType());
      Params.push_back(std::move(PO));
    }
    F["params"] = std::move(Params);
    F["variadic"] = FD->isVariadic();

    std::map<const Stmt *, int> Ids;
    json::Object NodeTab;
    NodeIds = &Ids;
    Nodes = &NodeTab;

    CFG::BuildOptions BO;
    BO.setAllAlwaysAdd();
    BO.AddEHEdges = false;
    BO.AddInitializers = false;
    BO.AddImplicitDtors = false;
    BO.PruneTriviallyFalseEdges = true;
    std::unique_ptr<CFG> G =
        CFG::buildCFG(FD, FD->getBody(), &Ctx, BO);
    if (!G) {
      F["cfg_failed"] = true;
      NodeIds = nullptr;
      Nodes = nullptr;
      return std::move(F);
    }
    json::Array Blocks;
    for (const CFGBlock *B : *G) {
      json::Object BJ;
      BJ["id"] = (int64_t)B->getBlockID();
      json::Array Elems;
      for (const CFGElement &E : *B) {
        if (auto CS = E.getAs<CFGStmt>())
          Elems.push_back(nodeId(CS->getStmt()));
      }
      BJ["elems"] = std::move(Elems);
      if (B->hasNoReturnElement())
        BJ["noreturn"] = true;
      if (const Stmt *L = B->getLabel()) {
        json::Object LJ;
        if (auto *CS = dyn_cast<CaseStmt>(L)) {
          LJ["kind"] = "case";
          Expr::EvalResult R;
          if (CS->getLHS()->EvaluateAsInt(R, Ctx))
            LJ["value"] = (int64_t)R.Val.getInt().getExtValue();
          // name of enum constant if spelled as one
          const Expr *LE = CS->getLHS()->IgnoreParenImpCasts();
          if (auto *CE = dyn_cast<ConstantExpr>(LE))
            LE = CE->getSubExpr()->IgnoreParenImpCasts();
          if (auto *DR = dyn_cast<DeclRefExpr>(LE))
            LJ["name"] = DR->getDecl()->getNameAsString();
          else {
            // macro spelled constant
            json::Object Tmp;
            macros(CS->getLHS()->getBeginLoc(), Tmp);
            if (auto M = Tmp.getString("imac"))
              LJ["name"] = M->str();
            else if (auto M2 = Tmp.getString("mac"))
              LJ["name"] = M2->str();
          }
          if (CS->getRHS()) {
            Expr::EvalResult R2;
            if (CS->getRHS()->EvaluateAsInt(R2, Ctx))
              LJ["value_hi"] = (int64_t)R2.Val.getInt().getExtValue();
          }
        } else if (isa<DefaultStmt>(L)) {
          LJ["kind"] = "default";
        } else if (auto *LS = dyn_cast<LabelStmt>(L)) {
          LJ["kind"] = "label";
          LJ["name"] = LS->getName();
        }
        LJ["loc"] = loc(L->getBeginLoc());
        BJ["label"] = std::move(LJ);
      }
      if (const Stmt *T = B->getTerminatorStmt()) {
        json::Object TJ;
        std::string K = T->getStmtClassName();
        if (auto *BOp = dyn_cast<BinaryOperator>(T))
          K = BOp->getOpcodeStr().str();
        TJ["k"] = K;
        TJ["loc"] = loc(T->getBeginLoc());
        macros(T->getBeginLoc(), TJ);
        // the value the branch tests: last element of the block when it is an
        // expression (this is what clang's own analyses use)
        if (const Expr *LC = B->getLastCondition())
          TJ["cond"] = nodeId(LC);
        else if (const Stmt *TC = B->getTerminatorCondition())
          TJ["cond"] = nodeId(TC);
        if (auto *GS = dyn_cast<GotoStmt>(T))
          TJ["label"] = GS->getLabel()->getNameAsString();
        BJ["term"] = std::move(TJ);
      }
      json::Array Succs;
      for (auto I = B->succ_begin(); I != B->succ_end(); ++I) {
        if (const CFGBlock *SB = I->getReachableBlock())
          Succs.push_back((int64_t)SB->getBlockID());
        else if (const CFGBlock *UB = I->getPossiblyUnreachableBlock()) {
          json::Object U;
          U["unreachable"] = (int64_t)UB->getBlockID();
          Succs.push_back(std::move(U));
        } else
          Succs.push_back(nullptr);
      }
      BJ["succs"] = std::move(Succs);
      Blocks.push_back(std::move(BJ));
    }
    F["blocks"] = std::move(Blocks);
    F["entry"] = (int64_t)G->getEntry().getBlockID();
    F["exit"] = (int64_t)G->getExit().getBlockID();
    F["nodes"] = std::move(NodeTab);
    NodeIds = nullptr;
    Nodes = nullptr;
    return std::move(F);
  }

  json::Value dumpRecord(const RecordDecl *RD) {
    json::Object R;
    R["name"] = RD->getNameAsString();
    R["union"] = RD->isUnion();
    R["loc"] = loc(RD->getLocation());
    json::Array Fs;
    const ASTRecordLayout *Layout = nullptr;
    if (!RD->isInvalidDecl() && RD->isCompleteDefinition())
      Layout = &Ctx.getASTRecordLayout(RD);
    unsigned Idx = 0;
    for (const FieldDecl *FD : RD->fields()) {
      json::Object FO;
      FO["name"] = FD->getNameAsString();
      putType(FO, FD->getType());
      if (auto *CAT = Ctx.getAsConstantArrayType(FD->getType())) {
        FO["alen"] = (int64_t)CAT->getSize().getLimitedValue();
        FO["elt"] = typeStr(CAT->getElementType());
      }
      if (!FD->getType()->isIncompleteType() && !FD->isBitField())
        FO["size"] = (int64_t)Ctx.getTypeSizeInChars(FD->getType()).getQuantity();
      if (Layout)
        FO["off"] = (int64_t)(Layout->getFieldOffset(Idx) / 8);
      QualType FT = FD->getType();
      while (FT->isPointerType() || FT->isArrayType())
        FT = FT->isPointerType() ? FT->getPointeeType()
                                 : QualType(FT->getArrayElementTypeNoTypeQual(), 0);
      if (const RecordType *RT = FT->getAs<RecordType>())
        FO["rec"] = RT->getDecl()->getNameAsString();
      Fs.push_back(std::move(FO));
      Idx++;
    }
    R["fields"] = std::move(Fs);
    if (Layout)
      R["size"] = (int64_t)Layout->getSize().getQuantity();
    return std::move(R);
  }

  json::Value dumpEnum(const EnumDecl *ED) {
    json::Object E;
    E["name"] = ED->getNameAsString();
    E["loc"] = loc(ED->getLocation());
    json::Array Cs;
    for (const EnumConstantDecl *C : ED->enumerators()) {
      json::Object CO;
      CO["name"] = C->getNameAsString();
      CO["value"] = (int64_t)C->getInitVal().getExtValue();
      Cs.push_back(std::move(CO));
    }
    E["constants"] = std::move(Cs);
    return std::move(E);
  }

  json::Value dumpGlobal(const VarDecl *VD, const FunctionDecl *InFn) {
    json::Object G;
    G["name"] = VD->getNameAsString();
    G["did"] = declId(VD);
    G["loc"] = loc(VD->getLocation());
    macros(VD->getLocation(), G);
    putType(G, VD->getType());
    G["static"] = VD->getStorageClass() == SC_Static;
    G["extern"] = VD->hasExternalStorage();
    G["const"] = VD->getType().isConstQualified() ||
                 (VD->getType()->isArrayType() &&
                  Ctx.getBaseElementType(VD->getType()).isConstQualified());
    G["tls"] = VD->getTLSKind() != VarDecl::TLS_None;
    // spelled in a system header: the name itself, or (for names pasted
    // together by a library's macro) the first token of the declaration
    G["sysspelled"] =
        SM.isInSystemHeader(SM.getSpellingLoc(VD->getLocation())) ||
        SM.isInSystemHeader(SM.getSpellingLoc(VD->getBeginLoc()));
    if (InFn)
      G["function"] = InFn->getNameAsString();
    if (auto *CAT = Ctx.getAsConstantArrayType(VD->getType()))
      G["alen"] = (int64_t)CAT->getSize().getLimitedValue();
    if (VD->hasInit()) {
      std::map<const Stmt *, int> Ids;
      json::Object NodeTab;
      NodeIds = &Ids;
      Nodes = &NodeTab;
      G["init"] = nodeId(VD->getInit());
      G["nodes"] = std::move(NodeTab);
      NodeIds = nullptr;
      Nodes = nullptr;
    }
    return std::move(G);
  }
};

class Visitor : public RecursiveASTVisitor<Visitor> {
public:
  Visitor(Dumper &D) : D(D) {}
  Dumper &D;
  json::Array Functions, Records, Enums, Globals, FunDecls, Typedefs;
  const FunctionDecl *CurFn = nullptr;

  bool TraverseFunctionDecl(FunctionDecl *FD) {
    const FunctionDecl *Saved = CurFn;
    CurFn = FD;
    bool R = RecursiveASTVisitor<Visitor>::TraverseFunctionDecl(FD);
    CurFn = Saved;
    return R;
  }

  bool VisitFunctionDecl(FunctionDecl *FD) {
    if (!D.inRoot(FD->getLocation()))
      return true;
    if (FD->doesThisDeclarationHaveABody())
      Functions.push_back(D.dumpFunction(FD));
    else {
      json::Object O;
      O["name"] = FD->getNameAsString();
      O["did"] = D.declId(FD);
      O["loc"] = D.loc(FD->getLocation());
      O["static"] = FD->getStorageClass() == SC_Static;
      FunDecls.push_back(std::move(O));
    }
    return true;
  }
  bool VisitRecordDecl(RecordDecl *RD) {
    if (!RD->isCompleteDefinition() || !D.inRoot(RD->getLocation()))
      return true;
    Records.push_back(D.dumpRecord(RD));
    return true;
  }
  bool VisitEnumDecl(EnumDecl *ED) {
    if (!ED->isCompleteDefinition() || !D.inRoot(ED->getLocation()))
      return true;
    Enums.push_back(D.dumpEnum(ED));
    return true;
  }
  bool VisitVarDecl(VarDecl *VD) {
    if (isa<ParmVarDecl>(VD))
      return true;
    if (!VD->hasGlobalStorage())
      return true;
    if (!D.inRoot(VD->getLocation()))
      return true;
    Globals.push_back(D.dumpGlobal(VD, VD->isStaticLocal() ? CurFn : nullptr));
    return true;
  }
  bool VisitTypedefNameDecl(TypedefNameDecl *TD) {
    if (!D.inRoot(TD->getLocation()))
      return true;
    json::Object O;
    O["name"] = TD->getNameAsString();
    O["t"] = D.typeStr(TD->getUnderlyingType());
    Typedefs.push_back(std::move(O));
    return true;
  }
};

class Consumer : public ASTConsumer {
public:
  std::string File;
  Consumer(llvm::StringRef F) : File(F.str()) {}
  void HandleTranslationUnit(ASTContext &Ctx) override {
    Dumper D(Ctx);
    Visitor V(D);
    V.TraverseDecl(Ctx.getTranslationUnitDecl());
    json::Object Out;
    Out["unit"] = File;
    Out["functions"] = std::move(V.Functions);
    Out["fundecls"] = std::move(V.FunDecls);
    Out["records"] = std::move(V.Records);
    Out["enums"] = std::move(V.Enums);
    Out["globals"] = std::move(V.Globals);
    Out["typedefs"] = std::move(V.Typedefs);
    Out["files"] = std::move(D.Files);
    Out["errors"] = (int64_t)Ctx.getDiagnostics().getClient()->getNumErrors();
    std::error_code EC;
    llvm::raw_fd_ostream OS(OutPath, EC);
    if (EC) {
      llvm::errs() << "cannot write " << OutPath << ": " << EC.message() << "\n";
      exit(3);
    }
    OS << json::Value(std::move(Out));
    OS << "\n";
  }
};

class Action : public ASTFrontendAction {
public:
  std::unique_ptr<ASTConsumer> CreateASTConsumer(CompilerInstance &CI,
                                                 llvm::StringRef File) override {
    return std::make_unique<Consumer>(File);
  }
};

} // namespace

int main(int argc, const char **argv) {
  auto Opts = CommonOptionsParser::create(argc, argv, Cat);
  if (!Opts) {
    llvm::errs() << llvm::toString(Opts.takeError()) << "\n";
    return 2;
  }
  ClangTool Tool(Opts->getCompilations(), Opts->getSourcePathList());
  return Tool.run(newFrontendActionFactory<Action>().get());
}
