#!/bin/bash
# usage: confirm_seed.sh <prop-id> <mutant-dir>   (mutant-dir holds patch.diff, run.sh, demo files)
# Confirms in a scratch worktree of /repo's HEAD: patch applies, tree builds, suite passes as on the reference,
# demo fails with the change and passes without it.  Prints a summary and removes the worktree.
ID=$1; M=$2; TAG=$(basename $M)
W=/tmp/wt/confirm-$ID-$TAG-$$
OUT=/tmp/wt/confirm; mkdir -p $OUT
R=$OUT/$ID-$TAG.txt
: > $R
git -C /repo worktree add -q --detach $W HEAD || { echo "worktree failed" >> $R; exit 2; }
cd $W
( autoreconf -i && ./configure 'CFLAGS= -Wno-error' ) >/dev/null 2>&1
if ! git apply $M/patch.diff 2>>$R; then echo "RESULT $ID/$TAG: PATCH-DOES-NOT-APPLY" >> $R; cd /; git -C /repo worktree remove --force $W; exit 3; fi
if ! ( make -j8 && make -j8 xcmtest ) >/dev/null 2>$OUT/$ID-$TAG.build.log; then echo "RESULT $ID/$TAG: BUILD-FAILS" >> $R; cd /; git -C /repo worktree remove --force $W; exit 3; fi
./xcmtest -c -v -p 6 > $OUT/$ID-$TAG.suite.log 2>&1
BAD=$(grep -E "FAILED|TIMED OUT" $OUT/$ID-$TAG.suite.log | sed 's/\x1b\[[0-9;]*m//g' | awk -F: '{print $1":"$2}' | grep -v -E "xcm:dns$|xcm:dns_multiple_address_probing|xcm:tcp_connect_timeout|xcm:net_ns_switch|_dns_timeout|dns_algorithm_smoke_test|tls_invalid_credential_values" | tr '\n' ' ')
# tests that fail only because other suites run concurrently in this sandbox (shared network namespaces, load): re-run alone
STILL=""
for t in $BAD; do
  okrun=0
  for i in 1 2 3 4 5; do sleep $((i*7)); if ./xcmtest -c -v $t > $OUT/$ID-$TAG.rerun.log 2>&1 && ! grep -q -E "FAILED|TIMED OUT" $OUT/$ID-$TAG.rerun.log; then okrun=1; break; fi; done
  [ $okrun -eq 1 ] || STILL="$STILL $t"
done
[ -n "$BAD" ] && echo "re-run alone: [$BAD] -> still failing: [$STILL]" >> $R
BAD=$STILL
echo "suite: $(tail -1 $OUT/$ID-$TAG.suite.log | sed 's/\x1b\[[0-9;]*m//g')" >> $R
echo "suite unexpected failures: [$BAD]" >> $R
( cd $M && timeout 300 bash ./run.sh $W ) > $OUT/$ID-$TAG.demo-mut.log 2>&1; RM=$?
git checkout -q -- . ; ( make -j8 ) >/dev/null 2>&1
( cd $M && timeout 300 bash ./run.sh $W ) > $OUT/$ID-$TAG.demo-ref.log 2>&1; RR=$?
echo "demo with change: exit $RM ; demo on reference: exit $RR" >> $R
if [ -z "$BAD" ] && [ $RM -ne 0 ] && [ $RR -eq 0 ]; then echo "RESULT $ID/$TAG: CONFIRMED" >> $R; else echo "RESULT $ID/$TAG: NOT-CONFIRMED" >> $R; fi
cd /; git -C /repo worktree remove --force $W
cat $R
