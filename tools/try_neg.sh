#!/bin/bash
# usage: try_neg.sh <patch.diff> [checks...]: a behaviour-preserving patch is applied to a scratch copy of /repo;
# every check must stay silent (exit 0).  Prints one summary line plus any alarm.
P=$(realpath "$1"); shift
S=$(mktemp -d /tmp/vfscratch-neg-XXXXXX)
rsync -a --exclude .git --exclude '*.o' --exclude '*.lo' --exclude '*.la' --exclude .libs --exclude xcmtest --exclude autom4te.cache --exclude test --exclude python --exclude doc /repo/ $S/
if ! ( cd $S && patch -p1 -s -F3 --no-backup-if-mismatch < "$P" ) > $S.patch.log 2>&1; then echo "$P: PATCH DOES NOT APPLY"; rm -rf $S $S.patch.log; exit 3; fi
cd /verif
rc=0; : > $S.log
for c in ${@:-all}; do XCM_REPO=$S VERIF_NO_EVIDENCE=1 ./check $c >> $S.log 2>&1; r=$?; [ $r -gt $rc ] && rc=$r; done
echo "$P rc=$rc"
grep -E "^  violation|^VIOLATION|BROKEN|^NOTE" $S.log | cut -c1-400
[ $rc -eq 2 ] && grep -A12 Traceback $S.log | tail -14
rm -rf $S $S.log $S.patch.log
exit $rc
