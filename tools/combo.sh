#!/bin/bash
# combo.sh: every kept seed is applied ON TOP of a tree that already carries all (compatible) behaviour-preserving refactorings
# of negcontrols/; the rule recorded for the seed must still report it.  Prints one line per seed.
BASE=$(mktemp -d /tmp/vfscratch-combo-base-XXXX)
rsync -a --exclude .git --exclude '*.o' --exclude '*.lo' --exclude '*.la' --exclude .libs --exclude test --exclude python --exclude doc /repo/ $BASE/
n=0
for p in /verif/negcontrols/*.diff; do
  if (cd $BASE && patch -p1 -s -F3 --dry-run < $p) >/dev/null 2>&1; then
    (cd $BASE && patch -p1 -s -F3 --no-backup-if-mismatch < $p) >/dev/null 2>&1
    # two refactorings of the same lines can apply (with fuzz) and still not compile together: such a patch is taken out again
    if python3 /verif/tools/syntax_ok.py $BASE >/dev/null 2>&1; then n=$((n+1)); else (cd $BASE && patch -p1 -s -R -F3 --no-backup-if-mismatch < $p) >/dev/null 2>&1; fi
  fi
done
echo "base tree carries $n refactorings"
one() {
  d=$1; name=$(basename $d)
  pid=$(python3 -c "import json;print(json.load(open('$d/meta.json'))['property'])")
  rules=$(python3 -c "import json;print(' '.join(json.load(open('$d/meta.json'))['caught_by']))")
  # little fuzz only: a hunk that needs more lands on other lines of the refactored function and is a different change
  if ! (cd $BASE && patch -p1 -s -F1 --dry-run < $d/patch.diff) >/dev/null 2>&1; then echo "$name: skipped (does not apply on the refactored tree)"; return; fi
  S=$(mktemp -d /tmp/vfscratch-combo-XXXX); rsync -a $BASE/ $S/; (cd $S && patch -p1 -s -F1 --no-backup-if-mismatch < $d/patch.diff) >/dev/null 2>&1
  if ! python3 /verif/tools/syntax_ok.py $S >/dev/null 2>&1; then echo "$name: skipped (does not compile together with the refactorings)"; rm -rf $S; return; fi
  res=""
  for r in $rules; do
    c=${r%%.*}
    out=$(cd /verif && XCM_REPO=$S VERIF_NO_EVIDENCE=1 ./check $c 2>&1)
    if echo "$out" | grep -q "violation $r|"; then res="$res $r:reported"; else res="$res $r:MISSED"; fi
  done
  echo "$name:$res"
  rm -rf $S
}
export -f one; export BASE
ls -d /verif/seeded/*/ | xargs -P 5 -I{} bash -c 'one {}'
rm -rf $BASE
