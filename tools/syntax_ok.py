#!/usr/bin/env python3
"""syntax_ok.py <tree>: exit 0 when every unit of the tree's build still parses (clang -fsyntax-only with the build's own flags)."""
import os, subprocess, sys
from concurrent.futures import ThreadPoolExecutor
tree = os.path.abspath(sys.argv[1])
os.environ["XCM_REPO"] = tree
sys.path.insert(0, os.path.join(os.path.dirname(os.path.abspath(__file__)), ".."))
from sa import extract as X
units = [u for u in X.compile_db() if u["product"] in ("libxcm", "xcmrelay", "libxcmctl")]


def one(u):
    p = subprocess.run(["clang", "-fsyntax-only", "-w"] + u["args"] + [u["file"]], cwd=tree, capture_output=True, text=True)
    return u["file"], p.returncode, p.stderr[-300:]
bad = [(f, e) for f, rc, e in ThreadPoolExecutor(8).map(one, units) if rc != 0]
for f, e in bad:
    print("does not parse: %s\n%s" % (f, e))
sys.exit(1 if bad else 0)
