#!/usr/bin/env python3
"""Regenerate /verif/anchors.json (structural fingerprints of the reference tree's functions) from /repo.
Run only when the reference tree changes on purpose (a fix: commit); the checks never write this file."""
import json, os, sys
sys.setrecursionlimit(100000)
sys.path.insert(0, os.path.dirname(os.path.dirname(os.path.abspath(__file__))))
from sa import anchors as A
from sa import extract as X
from sa.model import Unit
d, metas, wall = X.extract()
out = {}
for m in metas:
    facts = json.load(open(os.path.join(d, m["facts"])))
    u = Unit(m, facts)
    for f in u.functions:
        if f.file.endswith(".c") and getattr(f, "alias_of", None) is None:
            out.setdefault(f.file, {}).setdefault(f.name, A.fingerprint(f))
recs = {}
for m in metas:
    facts = json.load(open(os.path.join(d, m["facts"])))
    for r in facts["records"]:
        if r.get("name") and r["name"] not in recs and any("/repo/" not in (f.get("t") or "") for f in r["fields"]):
            loc = r.get("loc")
            fl = facts["files"][loc[0]] if loc else ""
            if fl.startswith("/") and not fl.startswith("/repo"):
                continue            # system and OpenSSL records are not the repository's to rename
            recs[r["name"]] = [[f["name"], f.get("t")] for f in r["fields"]]
out["//records"] = recs
json.dump(out, open(A.PATH, "w"), indent=0, sort_keys=True)
print("anchors:", sum(len(v) for k, v in out.items() if not k.startswith("//")), "functions in", len(out) - 1, "files;", len(recs), "records")
