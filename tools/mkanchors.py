#!/usr/bin/env python3
"""Regenerate /verif/anchors.json (structural fingerprints of the reference tree's functions) from /repo.
Run only when the reference tree changes on purpose (a fix: commit); the checks never write this file."""
import json, os, sys
sys.setrecursionlimit(100000)
sys.path.insert(0, os.path.dirname(os.path.dirname(os.path.abspath(__file__))))
from sa import anchors as A
from sa import extract as X
from sa.model import Unit
d, metas, wall = X.extract()
out = {}
for m in metas:
    facts = json.load(open(os.path.join(d, m["facts"])))
    u = Unit(m, facts)
    for f in u.functions:
        if f.file.endswith(".c") and getattr(f, "alias_of", None) is None:
            out.setdefault(f.file, {}).setdefault(f.name, A.fingerprint(f))
json.dump(out, open(A.PATH, "w"), indent=0, sort_keys=True)
print("anchors:", sum(len(v) for v in out.values()), "functions in", len(out), "files")
