#!/usr/bin/env python3
"""Generate /verif/MANIFEST.json from the per-property table below and
validate it against the schema (when jsonschema is importable)."""
import json
import os
import sys

HERE = os.path.dirname(os.path.dirname(os.path.abspath(__file__)))

TRUSTED = ("Trusted base: clang 14's parser, constant evaluator and CFG builder; the effect tables for libc/OpenSSL/c-ares "
           "functions in sa/ (each confirmed from the man page); the rule tables confirmed by reading. The verdict is on the "
           "named structural clauses (necessary conditions), not on the run-time behaviour as a whole.")

CHECKS = {
    "C05": dict(
        text="Decides the property as stated, up to the trusted library model: in the resolved call graph of libxcm (direct calls, "
             "ops-table and attribute callbacks by function-pointer propagation, OpenSSL/c-ares callbacks by a model table) no blocking "
             "primitive (poll/epoll_wait/select with a non-zero timeout, sleep family, synchronous resolver calls, ...) is reachable "
             "from any non-blocking API entry when every test of the socket's blocking flag is folded to false; and every descriptor "
             "is created with its *_NONBLOCK flag and never switched back. All paths, all states, all transports - which no test run can enumerate. (R3) no attribute setter can answer a positive status: the attribute-map walk stops on any non-zero status but fails only on a negative one, so xcm.blocking=false from the map is applied or the call fails. (R4) xcm_set_blocking leaves the stored mode unchanged on every failing exit. (R5) every counted loop of the library (33) stores to an operand of its condition on each way round, or sleeps in the kernel: no user-space busy-wait inside a call that must not wait.",
        note=TRUSTED + " A libc/OpenSSL/c-ares function that is not in the blocking table is assumed not to wait for an external event.",
        technique="call-graph reachability with guard folding (static analysis over clang AST/CFG)",
        design="3/C05"),
}

CHECKS["C10"] = dict(
    text="Decides the memory-safety and gate clauses of the property on all paths: (R1) every write into the caller's buffer by any of the "
         "47 functions in the attribute-getter slot, and along the chain from the public xcm_attr_get* entry points through the attribute "
         "tree to the indirect call, is bounded by `capacity` (bounded-write analysis with difference constraints, requirements abduced to "
         "parameters and discharged at call sites); (R2) the success return equals the bytes written; (R3) the set gate is exhaustive over "
         "the attribute types and tests length, syntax, existence, node kind, writability and type, each with its documented errno, before the "
         "setter runs; (R4) fixed-size setters read at most sizeof(type); (R5) a setter that rejects has not modified the socket; (R6) every "
         "array access of the name parser is in bounds (record invariant num_comps <= 64 checked at every store). Not decided: attribute "
         "values, behaviour of getters in every connection state (nullness of OpenSSL objects). (R1 also) internal buffers on the transports' getter paths are armed (defect F20 repaired); (R10) the log formatter that records a rejected attribute name is bounded for any name length, sizes computed as unsigned differences proved not to wrap. (R12) every write of the attribute setters into their own buffers is bounded. (R13) on the query paths of the attribute tree the path-component accessor is called within the range it asserts, and an index computed as an unsigned difference cannot wrap (decided with the facts in front of the subtraction).",
    note=TRUSTED + " Pointer parameters of different names are assumed not to alias; the sizes written by libc sinks are taken from their man pages.",
    technique="bounded-write dataflow (difference constraints) + guard-ordering/dominance checks + path exploration",
    design="3/C10")

CHECKS["C12"] = dict(
    text="Decides, on all paths of the address makers, parsers and converters: (R1) a snprintf truncation can never be reported as success "
         "(rc < capacity is a fact on every success return); (R2) the port is range-checked in strtol's own width and must start with a digit; "
         "(R3) every write is within its buffer and the only thing a public entry demands from its caller is the documented (buffer, capacity) "
         "contract (bounded-write analysis; the DNS-name length lemma is derived from xcm_dns_is_valid_name's body); (R4) each of the eight "
         "transport names is validated by the parser for that name; (R5) UX/UXF makers reject over-long names first. Not decided: that make and "
         "parse are inverses for all inputs (a relation between two computations), inet_pton/inet_ntop. (R3 also) index stores through the (buffer, capacity) parameters; (R7) the white-space predicate in front of every parser covers all six C white-space characters. (R8) the UX/UXF parser enforces the maker's name limit itself (not only the caller's capacity) and the DNS name predicate's limit equals the one the public header documents and sizes struct xcm_addr_host.name for. (R9) every integer conversion of the makers' format strings holds every value of its argument's type (a narrowing %hd of the port breaks make/parse for half the range).",
    note=TRUSTED + " A parse cursor s+k is assumed to stay inside its string when string lengths are compared (strlen(s+k) <= strlen(s)).",
    technique="bounded-write/value-range dataflow + idiom checks decided from path facts + table agreement",
    design="3/C12")
CHECKS["C19"] = dict(
    text="Decides structural necessary conditions only (three clauses of the design plus the replace/copy ordering): entries hold private copies "
         "with the copied length; lookups return an entry only on the equal edge of the name (and type) comparison and each typed getter asks "
         "for its own type; add deletes the same name and copies before it releases, clone/add_all go through add, equal compares count, "
         "name+type, length and bytes, del unlinks before destroying; the path component array is bounded. Not decided: equivalence with a "
         "finite map over all operation sequences, canonical print/parse round trip. (R5) the index component parser range-tests the number it converts (strto* saturation value or ERANGE, or a bounded digit loop).",
    note=TRUSTED,
    technique="who-may-write/value-origin queries + dominance checks + bounded-write dataflow",
    design="3/C19")

CHECKS["C03"] = dict(
    text="Decides structural necessary conditions on every path of every messaging send op (tcp, tls, ux/uxf; helpers inlined): a send that "
         "fails before the message is accepted has touched neither counters nor socket state; success is returned only after acceptance; "
         "after acceptance -1 is returned only with errno known not to be EAGAIN; from_app counters move only after acceptance; every errno "
         "test sees the errno of the failing call (logging is derived errno-transparent from its save/restore bracket on every run); the "
         "length validated is the length sent (no unguarded narrowing); UX send is one send(2) with MSG_NOSIGNAL|MSG_EOR; and blocking "
         "xcm_send does not report failure for an accepted message because its wait failed (known finding K3). and never offers the caller's buffer to the transport again after it was accepted; Not decided: exactly-once "
         "delivery (needs both endpoints and the schedule). (R8) every failing path of btcp_send/btls_send with errno possibly other than EAGAIN has put the connection into a terminal state (the framing layer keeps the buffered frame on such a failure). (R9) a receive op of a framing transport that reads from the layer below has attempted the flush of the accepted frame on that path (xcm.h: buffered data is re-attempted by finish, send and receive). (R3 also) every successful exit of the blocking path has called the socket's finish after the acceptance.",
    note=TRUSTED + " send(2) on SOCK_SEQPACKET is all-or-nothing; mbuf_set copies into XCM-owned storage.",
    technique="path-sensitive typestate exploration with inlining, errno-source tracking, value-range dataflow",
    design="3/C03")

CHECKS["C17"] = dict(
    text="Decides structural necessary conditions on all paths: every one of the counter stores is `+=` of a value proved non-negative on "
         "its path (or of unsigned origin) or `++` - never an assignment or a decrease; the to_app byte increment equals the value the "
         "receive op returns on that path (all five receive ops); the lower-layer message counters of the framing transports move only on "
         "the frame-completion edge; each xcm.<counter> attribute is served from the slot of the same name and get_cnt returns the slot "
         "requested; from_app only after acceptance is decided by C03. Not decided: agreement of the two endpoints' counters when idle, "
         "and the run-time inequalities from_app >= to_lower, from_lower >= to_app (they follow from these rules plus the one-frame "
         "discipline of C01 - argued, not checked).",
    note=TRUSTED,
    technique="who-may-write queries + value-range dataflow + dominance checks + table agreement",
    design="3/C17")

CHECKS["C07"] = dict(
    text="Decides the memory-safety and framing clauses on all paths of the tcp/tls receive chains (helpers inlined): the announced length "
         "is used only after the header was validated in the same call, and the invalid edge marks the connection bad(EPROTO) and returns "
         "-1/EPROTO; the set of announced lengths the receiver accepts is decided exactly (the predicate's AST folded over every critical "
         "point with 32-bit wrap-around) and must equal [1, max_msg], which is what the sender's guard establishes at acceptance; every "
         "lower-layer read goes to the mbuf's write cursor with exactly the spare capacity ensured before and asks for exactly the missing "
         "part of the header/payload; the sticky flag is only ever set and is tested before the sub-socket is used; a TLS protocol error drains OpenSSL's per-thread error queue on every "
         "path. Not decided: crashes inside OpenSSL/c-ares, pointer arithmetic outside the modelled sinks. (R7) the peer certificate's fields are formatted within their buffers: hash_description call sites proved for 3n+1 bytes, log_tls.c and cert.c analysed with the bounded-write engine. (R3 also) the accepted set is folded through the real length decoder, conversions on its return path included.",
    note=TRUSTED + " The final implication from these premises to 'no out-of-bounds write for any byte stream' (payload_len + 4 <= MBUF_WIRE_MAX, "
         "buffered <= announced) is argued in DESIGN.md section 3/C07, not mechanised.",
    technique="path-sensitive typestate exploration with inlining + exact predicate folding + bounded-write dataflow",
    design="3/C07")

CHECKS["C01"] = dict(
    text="Decides the framing invariants that make the delivery property possible, on all paths of the tcp/tls/ux messaging ops (helpers "
         "inlined): at most one outbound frame (mbuf_set only on a buffer known empty, assertions not counted as knowledge); the resume "
         "pointer/length are recomputed from the progress counter after every update; a delivered message is removed from the receive "
         "buffer on every path, reads ask for exactly the missing part and a short read is never success; nothing larger than capacity is "
         "returned; the header codec of writer and readers agrees; the blocking message loop hands a message over exactly once and the "
         "byte-stream loop adds only non-negative results; UTLS uses its single active leg; UX is SEQPACKET with MSG_EOR/MSG_TRUNC. "
         "Not decided: equality of the two endpoints' message sequences under all schedules (a relation between run-time histories). Also (R11) send/receive/finish of the framework are followed by the socket's update on every path, so a partly written frame is flushed when xcm_fd() fires; (R12) a byte-stream send failure other than EAGAIN leaves the connection terminal, so a message whose send was reported as failed is never delivered later. (R13) a receive is not held back by the socket's own refused output (the flush in front of a read gives way on EAGAIN). (R14) = C03.R9.",
    note=TRUSTED + " Kernel SEQPACKET semantics and OpenSSL below btls are trusted.",
    technique="path-sensitive typestate exploration with inlining + reaching-definition and value-range dataflow + structural agreement",
    design="3/C01")

CHECKS["C06"] = dict(
    text="Decides structural necessary conditions on all paths of all ops of btcp/btls (helpers inlined, set of possible connection "
         "states tracked) and of tcp/tls: terminal states are never left; whenever an op exits with the state known bad/closed/in-progress "
         "its result is the documented one (-1 with errno from badness_reason; EPIPE resp. 0; EAGAIN) - this includes the call that "
         "discovers the condition; every store of a sticky errno is a constant or an errno captured right after the call observed failing "
         "(errno-source tracking, logging derived transparent); a connect attempt is retried only after its failure reason was recorded; "
         "the closed state is stored only under the documented conditions; end-of-stream concluded from a failed write is reported "
         "(known finding K5, four sites). A read's 0 counts as end-of-stream only if bytes were asked for (zero-capacity receive answered before recv/SSL_read; defect F18 repaired). Not decided: which call observes a failure first under real timing; the errno the kernel produces. (R8) the framing transports' finish goes through the sub-socket's finish before the connection state is reported. (R3 also) a helper that stores its parameter as the sticky reason is judged at its call sites; an errno the function assigned itself is not a failing call's errno.",
    note=TRUSTED,
    technique="state-set abstract interpretation with inlining + errno-source tracking + condition classification",
    design="3/C06")


CHECKS["C13"] = dict(
    text="Decides structural necessary conditions only; the outcome of the algorithms over resolver answers and peer reactions is a relation "
         "on run-time histories and is not decided. Decided on all paths: (R1) no address of an automatic object is handed to a parameter "
         "that escapes into heap or global storage (whole library; the connect tracker's local address is the instance the property names); "
         "(R2) in every loop around a blocking wait the failure of each status call has a feasible way out of the loop in the same iteration "
         "(an ordered comparison of a pointer with 0 is a dead edge) - xcm_server on an unresolvable name cannot hang; (R3) each failed "
         "attempt's errno is captured fresh and recorded before the next address is tried; (R4) `single` hands exactly one address to the "
         "tracker, `sequential`/`happy_eyeballs` all, unknown algorithms are refused, list/count/timeout arguments reach every track unchanged, "
         "happy eyeballs makes one track per family; (R5) resolution failure/overall-timer expiry => ENOENT, attempt-timer expiry => ETIMEDOUT + "
         "abort + next address, EAGAIN only while a track is in progress; (R6) timers are armed with the configured timeouts; (R7) with a local "
         "address every attempt binds before connect() and a failed bind never reaches connect(), and the configured address is handed unchanged, call site by call site, to every attempt track; (R8) the resolver's result count is bounded by the caller's capacity. (R9) no floating-point value is implicitly converted into a stored integer field of the repository's records (dns.timeout, tcp.connect_timeout stay doubles); (R10) on every path through the abort helper the attempt in progress is dissolved (connect to AF_UNSPEC) before the next address is tried, with out-parameter constants (timer_mgr_ack leaves the id at -1) tracked across the call. (R10 also) the helper is recognised by the dissolving connect() or, when that is gone, as the attempt function's own clean-up helper; (R11) every function that changes the timer manager's list of pending timers re-evaluates the timer descriptor on every path before it returns (creation of an empty list and teardown after the descriptor was closed excepted).",
    note=TRUSTED + " Library functions outside escape.RETAINING_EXT are assumed not to keep pointer arguments.",
    technique="escape analysis + feasible-path search in loop SCCs + errno-source tracking + argument-flow/control-dependence checks",
    design="3/C13")


CHECKS["C11"] = dict(
    text="Decides structural necessary conditions on all paths: (R1) the TCP option struct's equality compares every field with == (a change of one "
         "option during a pending connect is noticed); (R2) tcp_opts_effectuate hands every option field to a wrapper that passes a value derived "
         "from it to setsockopt on the given descriptor, options pairwise distinct, failures reported; (R3) each tcp_set_<f> reports success only if "
         "the value was already stored, or it stored it and (no descriptor yet or the matching wrapper succeeded); attribute tcp.<f> is registered "
         "with the setter that stores <f> and the getter that reads <f> on the socket's own options/descriptor; (R4) accept applies the new "
         "connection's options to the descriptor it keeps before `ready`; connect completion reaches `ready` only with options equal to the snapshot "
         "the tracker applied or re-applied successfully; the tracker applies its snapshot before connect(); (R5) for every attribute whose row in "
         "xcm.h says `Writable only ...` (20 attributes, parsed from the header on every run) each modification made by its setter (helpers and the "
         "xcm.local_addr dispatch inlined) lies behind the initial-state guard and the setter has an EACCES exit; accept tests the three connect-only "
         "attributes before accept4(); (R6) set_attrs after init and before connect/server/accept, defaults before the user's map; (R7) xcm.service "
         "succeeds only on an equal edge of a comparison with `any` or the actual service, else EINVAL; xcm.blocking is xcm_set_blocking; (R8) scope "
         "inheritance at init. (R9) accepted TLS sockets inherit every TLS policy attribute unconditionally. Not decided: that the kernel honours setsockopt, the actual source address, behaviour in every life-cycle state at run time. (R1) equality decided by exact folding, one run per field; (R2 also) a failed setsockopt wrapper makes tcp_opts_effectuate fail whatever later wrappers answer; (R10) setters answer 0, -1 or another setter's status; (R11) a socket's context is built from its own items.",
    note=TRUSTED,
    technique="field-coverage agreement + path exploration with guard facts and inlining + argument-flow checks",
    design="3/C11")


CHECKS["C15"] = dict(
    text="Decides data-race freedom of the library's own process-wide state, for all interleavings, up to the trusted model (OpenSSL/c-ares/glibc "
         "thread-safe for distinct objects; constructors run before other threads): every non-const, non-thread-local object with static storage in "
         "libxcm/libxcmctl (20 today, discovered from the program, not listed) is classified from the complete set of its access sites - direct, "
         "through pointer parameters bound to it, or through callees that only use the pointer as an __atomic operand - as constructor-only written, "
         "atomic-only (a plain access to an atomically accessed object is a violation), never written, a mutex, or lock-protected (one mutex in the "
         "must-lockset at every access; locksets flow into static helpers as the intersection over their call sites; lock wrappers recognised by their "
         "net effect). A new global without a class, or an access outside the lock, is a violation. Also: every lock acquired is released on every "
         "non-aborting exit (dataflow + path exploration), no blocking primitive inside a critical section, and no pointer into locked storage is "
         "dereferenced after the unlock unless the record is reference-counted. A positive control (the socket-id allocator with its lock calls "
         "hidden must be reported) runs on every check. Not decided: that each thread's connections keep the delivery guarantees beyond the absence "
         "of shared mutable state; races inside OpenSSL/c-ares/lttng-ust.",
    note=TRUSTED + " Objects whose declaration is spelled in a system header (lttng-ust tracepoint expansions) belong to that library.",
    technique="must-lockset dataflow with parameter binding and wrapper summaries + access-site classification of every static-storage object",
    design="3/C15")


CHECKS["C14"] = dict(
    text="Decides the memory-safety, protocol-agreement, confidentiality and passivity clauses on all paths of the control interface: (R1) a char[] field of a "
         "request taken from the wire reaches a C-string consumer only after a terminator was stored or found by a bounded search; (R2) every write of the "
         "server side (ctl.c, common_ctl.c) and of the client library is within its buffer - bounded-write analysis with the session-table and "
         "attribute-count invariants checked at every store, and requirements followed through the attribute enumeration callbacks to the roots of the "
         "program; (R3) no assertion in the request path depends on quantities a client or the attribute set controls unless the guards imply it; "
         "(R4) every request handler stores the reply type on every path with enumerators of its own request and the client function for that request "
         "accepts exactly those - whichever request comes first on a session; (R5) both functions that copy attribute values into replies consult "
         "is_sensitive() and leave no value on the sensitive edge, and the filter names every attribute whose setter stores its value as sensitive; "
         "(R6) nothing reachable from ctl_process (function pointers resolved) is an attribute setter, a transport data/lifecycle op or a store to "
         "connection state, and ctl_process is errno-transparent (derived), with a positive control; (R7) close passes owner=true which reaches "
         "unlink. (R3 also) the attribute name is client data: every tag-asserting accessor of the attribute tree reachable from ctl_process is called only under the matching tag test. Not decided: equality of replies with in-process values (the 512-byte value field makes large attributes unrepresentable by "
         "design - they are left out), concurrency of sessions at run time. (R9) ut_is_readable, folded exactly over poll()'s result and all event-bit combinations, is true iff one descriptor is ready with POLLIN: a reset or hung-up session is read and thereby removed. (R10) the buffer given to unlink() at close is filled by nothing that reads getpid()/getenv() (direct calls).",
    note=TRUSTED + " Two table entries of R2 rest on premises re-checked on every run (element copy into the session table; no writer of num_clients reachable from process_client).",
    technique="typestate exploration + bounded-write dataflow with record invariants + enum/table agreement + call-graph reachability",
    design="3/C14")


CHECKS["C08"] = dict(
    text="Decides structural necessary conditions on all paths, which no fault-injection run enumerates: (R1) the sub-socket typestate of the xcm_tp.h contract "
         "(create/init/open/close-or-cleanup/destroy; a failed connect/server/accept leaves the socket cleaned up; nothing live is destroyed; nothing cleaned is "
         "closed again) on every path of every transport's init/connect/server/accept/close/cleanup op and of the xcm_*_a entry points, same-unit helpers inlined "
         "with parameter bindings, dead failure ladders pruned by a never-fails lemma derived on every run with protocol-resolved init dispatch; (R2) every "
         "descriptor obtained from socket/accept4/eventfd/timerfd_create/epoll_create1 (and wrappers) is on every path closed, stored in an owning field, "
         "returned or handed to a function that takes it over, and a descriptor stored in the socket during a failing server/accept is closed before the "
         "failure is reported; (R3) every descriptor-owning field is closed by a function reachable from xcm_close and xcm_cleanup; (R4) a descriptor handed out "
         "of a record resets the source slot; (R6) context-sensitive reachability from the cleanup ops with the owner flag propagated reaches no epoll_ctl, "
         "unlink, shutdown or write; (R7) the result of a resource-creating call never decides an assertion and a possibly failed descriptor is never handed "
         "unchecked to a function that asserts it valid (known findings K2: two sites); (R8) the UXF path is recorded only after a successful bind and unlinked "
         "by the owner's close; (R9) every object a function obtains from a creator in a 48-entry creator/releaser table is released, stored, returned or handed "
         "over on every path; (R10) no data-path op is reachable on a socket between init and connect/server/accept (known finding K6). (R11) teardown loops over a counted collection run until it is empty (no index advancing against a count the body decrements). Not decided: equality of "
         "the heap and descriptor table before/after (R3/R9 are coverage and per-function ownership, not a leak proof); behaviour of a forked child at run time. (R12) the always-readable descriptor is shared by at most 100 epoll instances (kernel path limit for nested epoll; beyond it EPOLL_CTL_ADD fails and K2's assertion aborts). (R8 also) the UXF path is on record on every failure exit after bind; (R13) EPOLL_CTL_DEL tolerates exactly EBADF/ENOENT/EPERM. (R14) a function that frees a record it was building has released every field that already owns something on that path (field-ownership typestate, creators from the ownership table, ares_init_options as a field out-creator); (R9 also) out-parameter creators are derived through helpers that pass their own out-parameters on. (R15) a function that releases what an out-parameter points to stores into the out-parameter again on every path before it returns.",
    note=TRUSTED + " The kernel drops a descriptor's epoll registrations when it is closed; registration tables (xpoll) keep descriptor numbers without owning them.",
    technique="typestate abstract interpretation with inlining and parameter binding + ownership dataflow + context-sensitive call-graph reachability",
    design="3/C08")


CHECKS["C09"] = dict(
    text="Decides, with OpenSSL trusted to enforce what its flags say, that XCM always says it: (R1) on every path of btls connect/accept that enters the "
         "handshaking state an SSL object was created and set_verify was called with the socket's own tls_client/tls_auth/check_crl/check_time fields in the "
         "callee's parameter order, and with tls.verify_peer_name on hostname validation was enabled successfully; no other function starts a handshake or "
         "creates an SSL object; (R2) set_verify itself is folded exactly (its AST evaluated with recording stubs) over all 16 policy combinations and the "
         "mode/flags handed to OpenSSL must equal the documented table (PEER, FAIL_IF_NO_PEER_CERT on the server role, CRL_CHECK|CRL_CHECK_ALL, "
         "NO_CHECK_TIME only with check_time off); (R3) `ready` is stored only on the success edge of the handshake and under tls.auth every path then "
         "passes verify_peer_cert, every path of which either saw (certificate, X509_V_OK) or stores bad/EPROTO; (R4) SSL_read/SSL_write are reached only "
         "with the state known ready after the last possible state change, and only in the data ops; (R5) every policy field of the socket record (derived "
         "from what the policy functions read) is copied by the inheritance function, which init calls; (R6) no success path of finalize_tls_conf / "
         "enable_hostname_validation is consistent with one of the six documented invalid combinations, refusals say EINVAL, and finalize precedes the "
         "context lookup in connect, server and accept; (R7) load_ssl_ctx installs trusted CAs/CRLs iff given and allows partial chains only without CRLs; "
         "hostname flags NO_WILDCARDS|ALWAYS_CHECK_SUBJECT. (R5) every policy field is inherited unconditionally (a copy may depend on tests of the same field only); (R8) names are appended to the socket's peer-name list only where the list was absent: explicit tls.peer_names are the whole set. Not decided: the outcome matrix against generated certificates (that is the behaviour), "
         "OpenSSL's chain building, extended key usage checks (inside OpenSSL). (R9) every context lookup passes the four credential items of the socket whose ssl_ctx receives the result; (R10) each default credential file has its own default and per-namespace template. (R8 also) a configured set of peer names is never empty. (R11) every element store of the string-list container is followed by a store of its count (tls.peer_names is inherited as a clone); (R12) = C18.R12. (R13) the by-file and the by-value setter of tls.tc and of tls.crl both record the explicit-configuration mark that finalize_tls_conf reads.",
    note=TRUSTED + " Numeric values of the OpenSSL flag macros are taken from its stable ABI.",
    technique="path exploration + exact folding of the policy function over all inputs + control dependence / must-pass + field coverage + path-fact analysis",
    design="3/C09")


CHECKS["C18"] = dict(
    text="Decides structural necessary conditions: (R1) a TLS op that obtained a context from the store puts it back on every failing exit after the get, and "
         "close and cleanup reach the put; the cache creates entries with count 1, increments on a hit, decrements on put and frees exactly at zero; (R3) the "
         "credential digest is fed each of the four items exactly once, a file contributes its path, st_dev, st_ino, st_size, st_mtim.tv_sec and tv_nsec and one "
         "symlink level, every item type is handled; (R4) on every path to the context creation all four loads lie between a first and a second digest into "
         "different buffers, the loop repeats while they differ and the entry is installed under the second; (R5) the functions that read XCM_TLS_CERT and the "
         "network namespace keep nothing in static storage; (R6) the by-file and by-value setter of each credential write the same slot through a helper that "
         "releases the previous content; (R7) every edge of ctx_store_get_ctx that gives up assigns EPROTO on all its paths to the exit or fails through a "
         "callee all of whose failing exits carry EPROTO (errno facts), else every caller must set it. Not decided: that later connections see replaced files "
         "(kernel and timing), that established connections are unaffected (OpenSSL object lifetime); thread-safety of the cache is C15's. (R8) the namespace-name lookup keeps no state between calls; (R9) context items and result belong to one socket; (R10) default/per-namespace file templates agree; (R11) failed loads and handshakes leave the OpenSSL error queue empty. (R12) the file loader ends its loop on fread's short count or on read(2) returning 0 only. (R13) a PEM bundle loader (reader in a loop) succeeds after the reader's NULL only on paths that compared the error's reason with PEM_R_NO_START_LINE or its library with ERR_LIB_PEM.",
    note=TRUSTED,
    technique="path exploration (get/put typestate, ordering typestate) + argument coverage + control dependence / must-pass + errno facts",
    design="3/C18")


CHECKS["C02"] = dict(
    text="Decides structural necessary conditions only; the prefix relation between the two ends' byte strings over all schedules is a relation on run-time "
         "histories and is not decided. Decided on all paths of the btcp/btls data ops: (R1) exactly one lower-layer call per op, given the caller's buffer and "
         "length/capacity unchanged, and a positive return value is that call's count (so 1..len resp. <= capacity follow from the kernel/OpenSSL contract); "
         "(R2) every SSL object is switched to PARTIAL_WRITE|ACCEPT_MOVING_WRITE_BUFFER between SSL_new and the handshake; (R3) no send op answers -1/EAGAIN on "
         "a path where a callee that captures its input on failure (effect table: SSL_write) was given the caller's bytes - known finding K4, replayed; (R5) the "
         "custom BIO clears its retry flags before each lower-layer call, maps EAGAIN to the retry flag of its direction and a 0 read to EOF; (R6) the blocking "
         "byte-stream loop recomputes pointer and length from the progress counter. (R7) SSL_write is reached only with a length >= 1 (a zero-sized send is answered before it reaches OpenSSL). Counters are C17's. (R8) a TLS protocol error and the PEM loaders of the context store leave the thread's OpenSSL error queue drained; (R9) contexts are created with session tickets off (a send-only client's graceful close stays graceful; defect F19 repaired).",
    note=TRUSTED + " Effect table: send(2) takes nothing when it fails; SSL_write returning <= 0 with WANT_* keeps the record for the retry.",
    technique="argument-identity checks + path exploration with a capture-effect table and errno facts + typestate + control dependence",
    design="3/C02")


CHECKS["C04"] = dict(
    text="Liveness over schedules is not a static property and is not decided. Decided are the wake-up obligations without which some schedule hangs, each on "
         "all paths: (R1) the xcm_tp.c wrappers update the socket after the transport op on every return path they must (send/receive/finish always; "
         "connect/server/accept on success; accept updates the server always), await() updates after storing the condition, top-level sockets are created "
         "with auto_update on; (R2) the update op of tcp, tls, btls and utls rings its bell or assigns and updates every live sub-socket (utls servers: both "
         "legs) - helpers inlined; (R3) a pending frame in the send buffer adds SENDABLE to what the sub-socket waits for; (R4) conn_update of btcp/btls handles "
         "every live connection state, closed and bad ring the bell on every path, resolving consults xcm_dns_query_completed; (R5) in btls no path clears the "
         "bell while RECEIVABLE may be awaited without having consulted SSL_has_pending; (R6) WANT_READ/WANT_WRITE store RECEIVABLE/SENDABLE as ssl_wants and "
         "the handshaking state hands ssl_wants to the sub-socket; every OpenSSL I/O site passes its result to process_ssl_event; (R7) connect() is issued only "
         "with the descriptor registered for EPOLLOUT, EINPROGRESS and a delayed track arm a timer; (R8) the resolver's entry points end in update_xpoll and a "
         "finished query arms a zero timer; (R9) the blocking forms poll the socket's own descriptor for POLLIN after await(). (R10) the btls connection update helper is folded exactly over its 48 ready-state inputs (awaited condition x direction of the last incomplete OpenSSL call x what it wanted x SSL_has_pending): every row rings the bell or stores and updates the sub-socket's condition, decrypted bytes ring when RECEIVABLE is awaited, an awaited direction OpenSSL was not asked about is watched on the sub-socket; (R11) send/receive/finish of btcp and btls call the state-advancing helper before the first test of the connection state. Not decided: boundedness in "
         "time; what OpenSSL does with a wake-up (trusted). (R3 also) the value handed to the sub-socket is built from the socket's own condition and only or-ed afterwards; (R12) clock_gettime in the timer's time source uses the clock the timerfd was created on. (R13) the function that starts the connect attempts polls their outcome (or fails the connection) on every path before it returns: attempts that fail at once leave no wake-up source. (R14) btcp's connection update in state ready, folded exactly over the awaited conditions 0..3, registers EPOLLIN iff RECEIVABLE and EPOLLOUT iff SENDABLE, both when both are awaited (= C16.R3).",
    note=TRUSTED,
    technique="must-follow / must-pass path rules with inlining + switch-case typestate + control dependence + constant-flag checks",
    design="3/C04")
CHECKS["C16"] = dict(
    text="Decides structural necessary conditions; actual non-readiness at quiescent points is kernel state and is not decided. (R1) the epoll descriptor is "
         "stored only by xpoll_create, a socket's xpoll only at creation, xcm_fd returns exactly it, and every sub-socket is created on its parent's xpoll; "
         "(R2) the always-readable eventfd is registered with no interest, gets EPOLLIN exactly when a bell in use rings, and every change of a bell is followed "
         "by that re-evaluation; (R3) the condition-to-event mappings of the leaf transports are decided exactly - ux's conn_event/server_event folded over all "
         "8 condition values, btcp's flags or-ed only under the matching condition bit - and btls in state ready with nothing awaited neither rings its bell nor "
         "asks the sub-socket for anything, and the same helper folded exactly over its 48 ready-state inputs never hands down more interest than is awaited or OpenSSL wants; (R4) every expired edge of timer_mgr_has_expired is followed on all paths by ack/cancel/reschedule of that timer; "
         "(R5) a successful resolver result and a handed-over connected descriptor are deregistered from the epoll set. (R6) the epoll wrapper skips epoll_ctl only when the stored mask equals the requested one; (R7) the control listener is parked exactly while the session table is full; (R8) descriptors are deregistered before they are closed (one named exception with its reason); (R9) send/receive/finish are followed by the socket's update. (R10) a control client kept after a step (non-negative return) is registered for EPOLLOUT exactly when its response-pending flag was set true on that path. (R11) on every path on which the transport took the connect tracker's / resolver's result successfully, the helper is destroyed before the function returns (same-file helpers followed); (R3 also) btcp's ready-state mask folded exactly; (R5) by path exploration.",
    note=TRUSTED,
    technique="who-may-write queries + control dependence / must-follow + exact folding of mapping functions + path exploration",
    design="3/C16")


CHECKS["C20"] = dict(
    text="Decides structural necessary conditions only; transparency, ordering and exactly-once across the two legs under back-pressure are relations on run-time "
         "histories and are not decided. Decided on all paths of the relay (its own units, extracted with the build's flags): (R1) a direction receives only "
         "when it holds nothing, records exactly the received length and switches to awaiting output; after a send the held length is reduced by the accepted "
         "count (or cleared on a message transport), input is awaited exactly when nothing is left and otherwise the rest is moved to the front; (R2) the shared "
         "condition words are only or-ed / and-not-ed with single flags, each direction uses RECEIVABLE on its source and SENDABLE on its destination, and the "
         "two directions are wired crosswise; (R3) a direction's termination stops and destroys its own relay only and no exit()/loop break is reachable from "
         "the forwarding callback; (R4) a relay is created only on the equal edge of the service comparison and every other exit of the accept path closes what "
         "it opened; (R5) a leg is closed only after its pending output was finished - known finding K7 (two close sites), replayed with a short-write shim. (R8) every handler registered on an xcm_fd() enters the XCM library (send, receive, finish, accept, close) on every path, helpers inlined.",
    note=TRUSTED + " The XCM library's own guarantees (C01-C06) are assumed for the relay's calls into it.",
    technique="path exploration (hold-one-message typestate, ownership) + operator/constant checks + call-graph reachability",
    design="3/C20")

NOT_APPLICABLE = {}


def main():
    props = [json.loads(l) for l in open(os.path.join(HERE, "properties.jsonl"))]
    m = {
        "version": 1,
        "setup_cmd": "make -C /verif -s && python3 -m compileall -q /verif/sa",
        "hooks": {"guard": "XCM_VERIF",
                  "enable": "none needed: the analysis reads the unmodified sources of /repo; the guard name is reserved and unused",
                  "baseline_off_cmd": "cd /repo && make xcmtest && ./xcmtest -c -v -p 8",
                  "source_commits": [], "add_only": True},
        "engines": [
            {"name": "xcmfacts", "path": "tools/xcmfacts/xcmfacts.cc", "serves_properties": sorted(CHECKS),
             "kind_free_text": "libTooling extractor: clang AST + CFG (every sub-expression an element) of every unit of the build as JSON"},
            {"name": "sa", "path": "sa/", "serves_properties": sorted(CHECKS),
             "kind_free_text": "Python engines over the extracted program: function-pointer resolution, call-graph reachability with guards, path-sensitive typestate exploration, bounded-write analysis, agreement checks; per-property rule tables in sa/rules/"},
        ],
        "checks": [],
        "notes": "All checks are static: they re-extract facts from /repo's current working tree (cached by content hash) and never run XCM. Exit 2 = analysis broken (vanished anchor, floor, extractor failure).",
        "not_applicable": [],
    }
    for p in props:
        pid = p["id"]
        if pid in CHECKS:
            c = CHECKS[pid]
            m["checks"].append({
                "property_id": pid,
                "quick_cmd": "./check %s --tier quick" % pid,
                "thorough_cmd": "./check %s --tier thorough" % pid,
                "evidence_file": "evidence/%s.json" % pid,
                "replay_cmd_template": "./check %s --explain {path}" % pid,
                "engine": "sa",
                "level_claimed": {"category": "other", "text": c["text"], "design_ref": "DESIGN.md section " + c["design"]},
                "level_note": c["note"],
                "technique": c["technique"],
            })
        else:
            m["not_applicable"].append({"property_id": pid, "reason": NOT_APPLICABLE.get(pid, "check not built yet (work in progress; planned rules are in DESIGN.md section 3)")})
    out = os.path.join(HERE, "MANIFEST.json")
    json.dump(m, open(out, "w"), indent=1)
    try:
        import jsonschema
        jsonschema.validate(m, json.load(open("/root/.vp/MANIFEST.schema.json")))
        print("MANIFEST.json valid,", len(m["checks"]), "checks")
    except ImportError:
        print("MANIFEST.json written (jsonschema not importable here)")


if __name__ == "__main__":
    sys.exit(main())
