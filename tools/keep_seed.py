#!/usr/bin/env python3
"""keep_seed.py <prop> <k> <caught_by> <needs...>: copy a confirmed seeded change from /tmp/wt/out into /verif/seeded/<prop>-<k>/"""
import json, os, shutil, sys, glob, re
prop, k, caught = sys.argv[1], sys.argv[2], sys.argv[3]
needs = " ".join(sys.argv[4:])
srcid, srck = os.environ.get("SRCID", prop), os.environ.get("SRCK", k)      # round-2 agents wrote to /tmp/wt/out/<prop>r2/{A,B}
src = "/tmp/wt/out/%s/%s" % (srcid, srck)
dst = "/verif/seeded/%s-%s" % (prop, k)
conf = "/tmp/wt/confirm/%s-%s.txt" % (srcid, srck)
txt = open(conf).read() if os.path.exists(conf) else ""
if "CONFIRMED" not in txt or "NOT-CONFIRMED" in txt:
    sys.exit("not confirmed: %s" % conf)
os.makedirs(dst, exist_ok=True)
for f in os.listdir(src):
    if f.endswith(".log") or f.startswith("suite"):
        continue
    p = os.path.join(src, f)
    if os.path.isfile(p) and os.path.getsize(p) < 200000:
        shutil.copy(p, dst)
files = sorted(re.findall(r"^\+\+\+ b/(\S+)", open(os.path.join(src, "patch.diff")).read(), re.M))
meta = {
    "property": prop, "mutant": k, "files_changed": files,
    "needs_to_manifest": needs,
    "origin": "independent sub-agent given only the property text and its own scratch worktree",
    "confirmed": {"how": "tools/confirm_seed.sh: scratch worktree of /repo HEAD, patch applied, make + make xcmtest, ./xcmtest -c -v -p 6 "
                         "(interference-prone tests re-run alone), run.sh against the changed tree and against the reverted tree",
                  "result": [l for l in txt.splitlines() if l.strip()]},
    "caught_by": [c for c in caught.split(",") if c],
    "checked_with": "tools/try_seed.sh seeded/%s-%s/patch.diff %s" % (prop, k, prop),
}
json.dump(meta, open(os.path.join(dst, "meta.json"), "w"), indent=1)
print("kept", dst, files)
