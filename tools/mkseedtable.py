#!/usr/bin/env python3
"""Rewrite the block between <!-- SEEDS-BEGIN --> and <!-- SEEDS-END --> of DESIGN.md from seeded/*/meta.json"""
import glob, json, os, re
HERE = os.path.dirname(os.path.dirname(os.path.abspath(__file__)))
rows = []
for m in sorted(glob.glob(os.path.join(HERE, "seeded/*/meta.json"))):
    d = json.load(open(m))
    name = os.path.basename(os.path.dirname(m))
    rows.append("| %s | %s | %s | %s | %s |" % (name, d["property"], ", ".join("`%s`" % os.path.basename(f) for f in d["files_changed"]),
                                               d["needs_to_manifest"].replace("|", "/"), ", ".join(d["caught_by"]) or "**missed**"))
tab = ["| seed | property | files changed | needs, in order to manifest | caught by |", "|---|---|---|---|---|"] + rows
p = os.path.join(HERE, "DESIGN.md")
s = open(p).read()
s = re.sub(r"<!-- SEEDS-BEGIN -->.*?<!-- SEEDS-END -->", "<!-- SEEDS-BEGIN -->\n" + "\n".join(tab) + "\n<!-- SEEDS-END -->", s, flags=re.S)
open(p, "w").write(s)
print(len(rows), "seeds")
