/* LD_PRELOAD shim: ares_getaddrinfo answers at once with the addresses in SHIM_ADDRS (comma separated) */
#define _GNU_SOURCE
#include <ares.h>
#include <arpa/inet.h>
#include <stdlib.h>
#include <string.h>
#include <stdio.h>

void ares_getaddrinfo(ares_channel channel, const char *name, const char *service,
                      const struct ares_addrinfo_hints *hints, ares_addrinfo_callback cb, void *arg)
{
    const char *spec = getenv("SHIM_ADDRS");
    if (!spec || !*spec) { cb(arg, ARES_ENOTFOUND, 0, NULL); return; }
    struct ares_addrinfo *ai = calloc(1, sizeof *ai);
    struct ares_addrinfo_node **tail = &ai->nodes;
    char *dup = strdup(spec), *save = NULL;
    for (char *t = strtok_r(dup, ",", &save); t; t = strtok_r(NULL, ",", &save)) {
        struct ares_addrinfo_node *n = calloc(1, sizeof *n);
        if (strchr(t, ':')) {
            struct sockaddr_in6 *s = calloc(1, sizeof *s);
            s->sin6_family = AF_INET6; inet_pton(AF_INET6, t, &s->sin6_addr);
            n->ai_family = AF_INET6; n->ai_addr = (struct sockaddr *)s; n->ai_addrlen = sizeof *s;
        } else {
            struct sockaddr_in *s = calloc(1, sizeof *s);
            s->sin_family = AF_INET; inet_pton(AF_INET, t, &s->sin_addr);
            n->ai_family = AF_INET; n->ai_addr = (struct sockaddr *)s; n->ai_addrlen = sizeof *s;
        }
        *tail = n; tail = &n->ai_next;
    }
    free(dup);
    cb(arg, ARES_SUCCESS, 0, ai);
}

void ares_freeaddrinfo(struct ares_addrinfo *ai)
{
    if (!ai) return;
    struct ares_addrinfo_node *n = ai->nodes;
    while (n) { struct ares_addrinfo_node *nx = n->ai_next; free(n->ai_addr); free(n); n = nx; }
    free(ai);
}
