#define _GNU_SOURCE
#include <dlfcn.h>
#include <errno.h>
#include <sys/epoll.h>
int epoll_ctl(int epfd, int op, int fd, struct epoll_event *ev) {
    static int (*real)(int, int, int, struct epoll_event *); static int n;
    if (!real) real = dlsym(RTLD_NEXT, "epoll_ctl");
    if (op == EPOLL_CTL_ADD && ++n == 1) { errno = ENOSPC; return -1; }   /* /proc/sys/fs/epoll/max_user_watches reached */
    return real(epfd, op, fd, ev);
}
