/* F12a: get_attr_req whose attr_name has no terminator anywhere in the message */
#include <sys/socket.h>
#include <sys/un.h>
#include <stdio.h>
#include <string.h>
#include <stdlib.h>
#include <unistd.h>
#include "ctl_proto.h"
int main(int argc, char **argv) {
    int fd = socket(AF_UNIX, SOCK_SEQPACKET, 0);
    struct sockaddr_un a = { .sun_family = AF_UNIX }; snprintf(a.sun_path, sizeof a.sun_path, "%s", argv[1]);
    if (connect(fd, (struct sockaddr *)&a, sizeof a) < 0) { perror("connect"); return 2; }
    struct ctl_proto_msg *m = malloc(sizeof *m); memset(m, 'A', sizeof *m); m->type = ctl_proto_type_get_attr_req;
    if (send(fd, m, sizeof *m, 0) != sizeof *m) { perror("send"); return 2; }
    struct ctl_proto_msg *r = malloc(sizeof *r); ssize_t n = recv(fd, r, sizeof *r, 0); printf("reply: %zd bytes, type %d\n", n, n > 0 ? (int)r->type : -1); return 0; }
