/* F12 replay server: a TLS server socket whose credentials are given by value (> 512 bytes each); services the control interface */
#include <xcm.h>
#include <xcm_attr.h>
#include <xcm_attr_map.h>
#include <stdio.h>
#include <stdlib.h>
#include <string.h>
#include <unistd.h>
#include <errno.h>
static char *slurp(const char *p, size_t *n) { FILE *f = fopen(p, "r"); if (!f) { perror(p); exit(2); } char *b = malloc(16384); *n = fread(b, 1, 16384, f); fclose(f); return b; }
int main(int argc, char **argv)
{
    const char *mode = argc > 1 ? argv[1] : "tls";
    struct xcm_attr_map *a = xcm_attr_map_create();
    xcm_attr_map_add_bool(a, "xcm.blocking", false);
    struct xcm_socket *s;
    if (!strcmp(mode, "tls")) {
        size_t n; char *b;
        b = slurp("cert/cert.pem", &n); xcm_attr_map_add_bin(a, "tls.cert", b, n);
        b = slurp("cert/key.pem", &n); xcm_attr_map_add_bin(a, "tls.key", b, n);
        b = slurp("cert/tc.pem", &n); xcm_attr_map_add_bin(a, "tls.tc", b, n);
        s = xcm_server_a("tls:127.0.0.1:47831", a);
    } else
        s = xcm_server_a("ux:f12-replay", a);
    if (!s) { perror("xcm_server_a"); return 2; }
    int64_t id = -1; xcm_attr_get_int64(s, "xcm.id", &id);
    printf("%d %ld\n", getpid(), (long)id); fflush(stdout);
    for (int i = 0; i < 400; i++) { xcm_finish(s); struct xcm_socket *c = xcm_accept(s); if (c) xcm_close(c); usleep(10000); }
    xcm_close(s);
    return 0;
}
