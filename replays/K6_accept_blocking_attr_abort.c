/* accept with xcm.blocking=true in the attribute map on a non-blocking server with no pending connection */
#include <xcm.h>
#include <xcm_attr_map.h>
#include <stdio.h>
#include <errno.h>
#include <string.h>
int main(int argc, char **argv) {
    const char *addr = argc > 1 ? argv[1] : "tcp:127.0.0.1:47851";
    struct xcm_socket *srv = xcm_server(addr); if (!srv) { perror("server"); return 2; }
    xcm_set_blocking(srv, false);
    struct xcm_attr_map *m = xcm_attr_map_create(); xcm_attr_map_add_bool(m, "xcm.blocking", true);
    struct xcm_socket *c = xcm_accept_a(srv, m);
    printf("xcm_accept_a returned %p errno=%s\n", (void *)c, strerror(errno));
    return 0; }
