/* K4: bytes offered in a btls send that failed with EAGAIN must never appear in the stream */
#include <xcm.h>
#include <xcm_attr_map.h>
#include <stdio.h>
#include <stdlib.h>
#include <string.h>
#include <errno.h>
#include <unistd.h>
#include <sys/wait.h>
#define CHUNK 16384
int main(void) {
    int p[2]; if (pipe(p) < 0) return 2;
    struct xcm_attr_map *sm = xcm_attr_map_create(); xcm_attr_map_add_str(sm, "xcm.service", "bytestream");
    struct xcm_socket *srv = xcm_server_a("btls:127.0.0.1:47881", sm); if (!srv) { perror("server"); return 2; }
    pid_t pid = fork();
    if (pid == 0) {  /* receiver: waits for the go-ahead, then reads everything and counts */
        struct xcm_socket *c = xcm_accept(srv); if (!c) { perror("accept"); _exit(2); }
        char go; if (read(p[0], &go, 1) != 1) _exit(2);
        long na = 0, nb = 0, other = 0; int seen_b = 0, a_after_b = 0; static char buf[65536];
        for (;;) { int rc = xcm_receive(c, buf, sizeof buf); if (rc <= 0) { printf("receiver: xcm_receive ended with %d (%s)\n", rc, rc < 0 ? strerror(errno) : "closed"); break; }
            for (int i = 0; i < rc; i++) { if (buf[i] == 'A') { na++; if (seen_b) a_after_b = 1; } else if (buf[i] == 'B') { nb++; seen_b = 1; } else other++; } }
        printf("receiver: %ld 'A' bytes, %ld 'B' bytes, %ld other%s\n", na, nb, other, a_after_b ? ", A after B" : ""); fflush(stdout);
        FILE *f = fopen("k4.result", "w"); fprintf(f, "%ld %ld\n", na, nb); fclose(f); _exit(0);
    }
    struct xcm_attr_map *m = xcm_attr_map_create(); xcm_attr_map_add_bool(m, "xcm.blocking", false); xcm_attr_map_add_str(m, "xcm.service", "bytestream");
    struct xcm_socket *c = xcm_connect_a("btls:127.0.0.1:47881", m); if (!c) { perror("connect"); return 2; }
    while (xcm_finish(c) < 0 && errno == EAGAIN) usleep(1000);
    { char t[8]; for (int i = 0; i < 50; i++) { xcm_receive(c, t, sizeof t); usleep(2000); } }  /* drain TLS 1.3 session tickets */
    static char a[CHUNK], b[CHUNK]; memset(a, 'A', CHUNK); memset(b, 'B', CHUNK);
    long acc_a = 0, acc_b = 0; int refused = 0;
    for (;;) { int rc = xcm_send(c, a, CHUNK); if (rc > 0) acc_a += rc; else if (errno == EAGAIN) { refused = 1; break; } else { perror("send A"); return 2; } }
    printf("sender: %ld 'A' bytes accepted, then a %d-byte 'A' chunk was refused with EAGAIN\n", acc_a, CHUNK);
    if (write(p[1], "g", 1) != 1) return 2;
    long want_b = 20L * CHUNK;
    while (acc_b < want_b) { long left = want_b - acc_b; int rc = xcm_send(c, b, left < CHUNK ? left : CHUNK); if (rc > 0) acc_b += rc; else if (errno == EAGAIN) usleep(1000); else { perror("send B"); return 2; } }
    { char t[8]; xcm_receive(c, t, sizeof t); }
    xcm_set_blocking(c, true); xcm_close(c);
    int st; waitpid(pid, &st, 0);
    long na, nb; FILE *f = fopen("k4.result", "r"); if (!f || fscanf(f, "%ld %ld", &na, &nb) != 2) return 2;
    printf("sender was told: %ld 'A' and %ld 'B' accepted\n", acc_a, acc_b);
    if (na != acc_a || nb != acc_b) { printf("FAIL: the receiver got %+ld 'A' and %+ld 'B' bytes relative to what was reported as accepted\n", na - acc_a, nb - acc_b); return 1; }
    printf("OK\n"); return 0; }
