#include <xcm.h>
#include <xcm_attr_map.h>
#include <stdio.h>
#include <string.h>
#include <errno.h>
#include <unistd.h>
#include <arpa/inet.h>
#include <sys/socket.h>
int main(void) {
    int lfd = socket(AF_INET, SOCK_STREAM, 0); int one = 1; setsockopt(lfd, SOL_SOCKET, SO_REUSEADDR, &one, sizeof one);
    struct sockaddr_in a = { .sin_family = AF_INET, .sin_port = htons(47816) }; a.sin_addr.s_addr = inet_addr("127.0.0.1");
    bind(lfd, (struct sockaddr*)&a, sizeof a); listen(lfd, 4);
    struct xcm_attr_map *m = xcm_attr_map_create(); xcm_attr_map_add_bool(m, "xcm.blocking", false); xcm_attr_map_add_str(m, "xcm.service", "bytestream"); struct xcm_socket *c = xcm_connect_a("btls:127.0.0.1:47816", m);
    if (!c) { perror("connect"); return 2; }
    int fd = accept(lfd, NULL, NULL);
    /* let the client send its ClientHello */
    for (int i = 0; i < 20; i++) { xcm_finish(c); usleep(10000); }
    char junk[64]; memset(junk, 'x', sizeof junk); write(fd, "HTTP/1.1 400 Bad Request\r\n\r\n", 28); write(fd, junk, sizeof junk);
    usleep(100000);
    /* the first call to see the garbage is a send */
    int rc = xcm_send(c, "hello", 5); int e1 = errno;
    printf("discovering send: rc=%d errno=%d (%s)\n", rc, e1, strerror(e1));
    rc = xcm_send(c, "hello", 5); int e2 = errno;
    printf("next send:        rc=%d errno=%d (%s)\n", rc, e2, strerror(e2));
    return !(e1 == EPROTO);
}
