#include <xcm.h>
#include <stdio.h>
#include <errno.h>
#include <string.h>
int main(void) { struct xcm_socket *s = xcm_server("ux:k2b-replay"); struct xcm_socket *c = xcm_connect("ux:k2b-replay", XCM_NONBLOCK);
  printf("server %p conn %p errno %s\nOK: reported, not aborted\n", (void *)s, (void *)c, strerror(errno)); return 0; }
