#include <xcm.h>
#include <stdio.h>
#include <errno.h>
#include <string.h>
int main(void) { struct xcm_socket *s = xcm_server("ux:k2b-replay"); xcm_set_blocking(s, false);
  int rc = xcm_await(s, XCM_SO_ACCEPTABLE);
  printf("xcm_await returned %d errno %s\nOK: reported, not aborted\n", rc, strerror(errno)); return 0; }
