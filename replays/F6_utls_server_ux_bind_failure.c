/* F6: utls server whose UX leg cannot bind leaks its already listening TLS leg */
#include <xcm.h>
#include <stdio.h>
#include <errno.h>
#include <string.h>
#include <dirent.h>
static int nfds(void) { int n = 0; DIR *d = opendir("/proc/self/fd"); struct dirent *e; while ((e = readdir(d))) n++; closedir(d); return n; }
int main(void)
{
    /* occupy the UX name the utls server will want */
    struct xcm_socket *blocker = xcm_server("ux:127.0.0.1:47841");
    if (!blocker) { perror("blocker"); return 2; }
    int before = nfds();
    for (int i = 0; i < 3; i++) {
        struct xcm_socket *s = xcm_server("utls:127.0.0.1:47841");
        if (s) { printf("inconclusive: utls server created\n"); return 2; }
        printf("attempt %d: xcm_server(utls) failed with %s; open descriptors %d (before %d)\n", i, strerror(errno), nfds(), before);
    }
    int after = nfds();
    xcm_close(blocker);
    struct xcm_socket *t = xcm_server("tls:127.0.0.1:47841");
    printf("tls server on the same port afterwards: %s\n", t ? "ok" : strerror(errno));
    if (after != before || !t) { printf("FAIL: %d descriptors leaked; port %s\n", after - before, t ? "free" : "still bound"); return 1; }
    printf("OK\n"); return 0;
}
