/* F7: ux create_socket leaks the descriptor when enabling SO_PASSCRED fails (fault injected by shim.c) */
#include <xcm.h>
#include <stdio.h>
#include <errno.h>
#include <string.h>
#include <dirent.h>
static int nfds(void) { int n = 0; DIR *d = opendir("/proc/self/fd"); struct dirent *e; while ((e = readdir(d))) n++; closedir(d); return n; }
int main(void) {
    int before = nfds();
    for (int i = 0; i < 5; i++) { struct xcm_socket *s = xcm_connect("ux:f7-nobody", XCM_NONBLOCK); if (s) { printf("inconclusive\n"); return 2; } }
    int after = nfds();
    printf("5 failed ux connects (errno %s): descriptors %d -> %d\n", strerror(errno), before, after);
    if (after != before) { printf("FAIL: %d descriptors leaked\n", after - before); return 1; }
    printf("OK\n"); return 0; }
