/* F15: an unreadable credential file must fail with EPROTO */
#include <xcm.h>
#include <stdio.h>
#include <errno.h>
#include <string.h>
int main(void) { struct xcm_socket *s = xcm_server("tls:127.0.0.1:47871");
  if (s) { printf("inconclusive: server created (key readable?)\n"); return 2; }
  printf("xcm_server(tls) failed with %s\n", strerror(errno));
  if (errno != EPROTO) { printf("FAIL: documented errno is EPROTO\n"); return 1; } printf("OK\n"); return 0; }
