/* F13: xcm_cleanup() in a forked child removes the owner's control-session descriptor from the shared epoll set */
#define _GNU_SOURCE
#include <xcm.h>
#include <stdio.h>
#include <stdlib.h>
#include <string.h>
#include <unistd.h>
#include <errno.h>
#include <dirent.h>
#include <sys/socket.h>
#include <sys/un.h>
#include <sys/wait.h>
static int count_tfds(int epfd) { char p[64], l[256]; snprintf(p, sizeof p, "/proc/self/fdinfo/%d", epfd); FILE *f = fopen(p, "r"); int n = 0; while (fgets(l, sizeof l, f)) if (!strncmp(l, "tfd:", 4)) n++; fclose(f); return n; }
int main(void) {
    char dir[] = "/tmp/f13ctlXXXXXX"; if (!mkdtemp(dir)) return 2; setenv("XCM_CTL", dir, 1);
    struct xcm_socket *s = xcm_server("ux:f13-replay"); if (!s) { perror("server"); return 2; }
    xcm_set_blocking(s, false);
    int epfd = xcm_fd(s);
    /* connect a raw control client and let the library accept the session */
    DIR *d = opendir(dir); struct dirent *e; char path[300] = ""; while ((e = readdir(d))) if (!strncmp(e->d_name, "ctl-", 4)) snprintf(path, sizeof path, "%s/%s", dir, e->d_name); closedir(d);
    int cfd = socket(AF_UNIX, SOCK_SEQPACKET, 0); struct sockaddr_un a = { .sun_family = AF_UNIX }; strcpy(a.sun_path, path);
    if (connect(cfd, (struct sockaddr *)&a, sizeof a) < 0) { perror("ctl connect"); return 2; }
    for (int i = 0; i < 600; i++) { struct xcm_socket *c = xcm_accept(s); if (c) xcm_close(c); }
    int before = count_tfds(epfd);
    pid_t p = fork();
    if (p == 0) { xcm_cleanup(s); _exit(0); }
    waitpid(p, NULL, 0);
    int after = count_tfds(epfd);
    printf("descriptors registered in the owner's epoll set: %d before the child's xcm_cleanup, %d after\n", before, after);
    xcm_close(s); unlink(path); rmdir(dir);
    if (after != before) { printf("FAIL: the child's cleanup changed the owner's epoll set\n"); return 1; }
    printf("OK\n"); return 0; }
