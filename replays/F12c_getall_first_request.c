/* one session: get-all first; then get; then get-all again */
#include <xcmc.h>
#include <stdio.h>
#include <errno.h>
#include <string.h>
#include <stdlib.h>
static int n; static void cb(const char *name, enum xcm_attr_type t, void *v, size_t l, void *d) { n++; }
int main(int argc, char **argv) {
    struct xcmc_session *s = xcmc_open(atoi(argv[1]), atoll(argv[2])); if (!s) { perror("open"); return 2; }
    int rc = xcmc_attr_get_all(s, cb, NULL); printf("get-all #1 (first request of the session): rc=%d errno=%s attrs=%d\n", rc, rc<0?strerror(errno):"-", n);
    char buf[512]; enum xcm_attr_type t; int r2 = xcmc_attr_get(s, "xcm.type", &t, buf, sizeof buf); printf("get xcm.type: rc=%d\n", r2);
    n = 0; int r3 = xcmc_attr_get_all(s, cb, NULL); printf("get-all #2 (after a get): rc=%d attrs=%d\n", r3, n);
    return rc < 0 ? 1 : 0; }
