/* F11: with xcm.local_addr set, an attempt started by a later call reads the tracker's borrowed local_ip from a dead frame */
#include <xcm.h>
#include <xcm_attr.h>
#include <xcm_attr_map.h>
#include <stdio.h>
#include <string.h>
#include <unistd.h>
#include <errno.h>
#include <stdlib.h>

static void __attribute__((noinline)) scribble(void) { volatile char buf[16384]; memset((void *)buf, 0xAB, sizeof buf); }

int main(void)
{
    struct xcm_socket *srv = xcm_server("tcp:127.0.0.1:47813");
    if (!srv) { perror("server"); return 2; }
    xcm_set_blocking(srv, false);
    struct xcm_attr_map *a = xcm_attr_map_create();
    xcm_attr_map_add_bool(a, "xcm.blocking", false);
    xcm_attr_map_add_str(a, "xcm.local_addr", "tcp:127.0.0.9:0");
    xcm_attr_map_add_str(a, "dns.algorithm", "happy_eyeballs");
    struct xcm_socket *c = xcm_connect_a("tcp:some.name:47813", a);
    if (!c) { perror("connect_a"); return 2; }
    struct xcm_socket *acc = NULL;
    for (int i = 0; i < 200; i++) {
        scribble();
        int rc = xcm_finish(c);
        if (rc < 0 && errno != EAGAIN) { printf("FAIL: xcm_finish: %s\n", strerror(errno)); return 1; }
        if (!acc) acc = xcm_accept(srv);
        if (acc && rc == 0) break;
        usleep(10000);
    }
    if (!acc) { printf("FAIL: never connected\n"); return 1; }
    const char *ra = xcm_remote_addr(acc);
    printf("server sees client at %s\n", ra ? ra : "(null)");
    if (!ra || strncmp(ra, "tcp:127.0.0.9:", 14) != 0) { printf("FAIL: source address is not xcm.local_addr\n"); return 1; }
    printf("OK\n");
    return 0;
}
