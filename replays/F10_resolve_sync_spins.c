#include <xcm.h>
#include <stdio.h>
#include <errno.h>
#include <string.h>
int main(void){ struct xcm_socket *s = xcm_server("tcp:nonexistent.invalid:4711"); if (s) { printf("FAIL: server created\n"); return 1; } printf("xcm_server failed with %s\n", strerror(errno)); return errno == ENOENT ? 0 : 1; }
