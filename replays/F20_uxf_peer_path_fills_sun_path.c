/* replay: a UXF server reads xcm.remote_addr of a connection whose (non-XCM) peer is bound to a path that fills sun_path
   completely (108 bytes, no terminator).  exit 0 = an address or a clean failure; the defect is an abort/crash. */
#include <xcm.h>
#include <stdio.h>
#include <string.h>
#include <stdlib.h>
#include <unistd.h>
#include <errno.h>
#include <sys/socket.h>
#include <sys/un.h>
#include <sys/wait.h>
#include <stddef.h>
int main(void)
{
    char dir[] = "/tmp/k10/d";
    mkdir(dir, 0700);
    char srv[128];
    snprintf(srv, sizeof(srv), "uxf:%s/srv", dir);
    unlink(srv + 4);
    struct xcm_socket *s = xcm_server(srv);
    if (!s) { perror("xcm_server"); return 2; }
    pid_t pid = fork();
    if (pid == 0) {
        int fd = socket(AF_UNIX, SOCK_SEQPACKET, 0);
        struct sockaddr_un me = { .sun_family = AF_UNIX };
        memset(me.sun_path, 'p', sizeof(me.sun_path));            /* 108 bytes, no NUL */
        memcpy(me.sun_path, dir, strlen(dir)); me.sun_path[strlen(dir)] = '/';
        char tmp[120]; memcpy(tmp, me.sun_path, 108); tmp[108] = 0; unlink(tmp);
        if (bind(fd, (struct sockaddr *)&me, offsetof(struct sockaddr_un, sun_path) + sizeof(me.sun_path)) < 0) { perror("bind"); _exit(2); }
        struct sockaddr_un to = { .sun_family = AF_UNIX };
        strcpy(to.sun_path, srv + 4);
        if (connect(fd, (struct sockaddr *)&to, sizeof(to)) < 0) { perror("connect"); _exit(2); }
        sleep(3);
        unlink(tmp);
        _exit(0);
    }
    pid_t pid2 = fork();
    if (pid2 == 0) {                     /* the server side runs in a child so that an abort is observable */
        struct xcm_socket *c = xcm_accept(s);
        if (!c) { perror("xcm_accept"); _exit(2); }
        const char *ra = xcm_remote_addr(c);
        printf("xcm_remote_addr -> %s (errno %d)\n", ra ? ra : "NULL", errno);
        _exit(0);
    }
    int st; waitpid(pid2, &st, 0);
    kill(pid, 9); waitpid(pid, NULL, 0);
    if (WIFSIGNALED(st)) { printf("DEFECT: the server process was killed by signal %d while reading the peer's address\n", WTERMSIG(st)); return 1; }
    printf("OK: server exit %d\n", WEXITSTATUS(st));
    return WEXITSTATUS(st) == 0 ? 0 : 2;
}
