#include <xcm.h>
#include <stdio.h>
#include <string.h>
#include <errno.h>
#include <unistd.h>
#include <arpa/inet.h>
#include <sys/socket.h>
int main(void) {
    struct xcm_socket *srv = xcm_server("tcp:127.0.0.1:47817");
    int fd = socket(AF_INET, SOCK_STREAM, 0);
    struct sockaddr_in a = { .sin_family = AF_INET, .sin_port = htons(47817) }; a.sin_addr.s_addr = inet_addr("127.0.0.1");
    connect(fd, (struct sockaddr*)&a, sizeof a);
    struct xcm_socket *c = xcm_accept(srv);
    xcm_set_blocking(c, false);
    /* the peer sends two complete messages and closes */
    unsigned char m1[9] = {0,0,0,5,'f','i','r','s','t'}, m2[10] = {0,0,0,6,'s','e','c','o','n','d'};
    write(fd, m1, 9); write(fd, m2, 10); close(fd);
    usleep(100000);
    /* the local side writes before it reads */
    int rc = xcm_send(c, "a", 1); printf("send 1: rc=%d errno=%d\n", rc, rc < 0 ? errno : 0);
    usleep(100000);
    rc = xcm_send(c, "b", 1); printf("send 2: rc=%d errno=%d\n", rc, rc < 0 ? errno : 0);
    char buf[64]; int delivered = 0;
    for (int i = 0; i < 3; i++) { rc = xcm_receive(c, buf, sizeof buf); printf("receive: rc=%d errno=%d\n", rc, rc < 0 ? errno : 0); if (rc > 0) delivered++; }
    printf("delivered %d of the 2 messages that had arrived\n", delivered);
    return delivered != 2;
}
