/* relay: when the sending side closes, the other side must first receive every message the closing side had sent.
   The far side is a raw TCP reader that drains slowly (back-pressure on the relay's outbound leg). */
#define _GNU_SOURCE
#include <xcm.h>
#include <stdio.h>
#include <stdlib.h>
#include <string.h>
#include <unistd.h>
#include <errno.h>
#include <signal.h>
#include <sys/wait.h>
#include <sys/socket.h>
#include <netinet/in.h>
#include <arpa/inet.h>
#define N 20
#define SZ 60000
int main(int argc, char **argv) {
    const char *relay_bin = argv[1];
    int ls = socket(AF_INET, SOCK_STREAM, 0), one = 1; setsockopt(ls, SOL_SOCKET, SO_REUSEADDR, &one, sizeof one);
    struct sockaddr_in a = { .sin_family = AF_INET, .sin_port = htons(47891) }; inet_pton(AF_INET, "127.0.0.1", &a.sin_addr);
    if (bind(ls, (struct sockaddr *)&a, sizeof a) < 0 || listen(ls, 4) < 0) { perror("listen"); return 2; }
    pid_t rp = fork();
    if (rp == 0) { setenv("LD_PRELOAD", "./shortsend.so", 1); execl(relay_bin, relay_bin, "tcp:127.0.0.1:47892", "tcp:127.0.0.1:47891", NULL); perror("exec"); _exit(2); }
    usleep(300000);
    pid_t sp = fork();
    if (sp == 0) { /* slow raw receiver: 4 KiB every 200 us after an initial pause, counts complete frames */
        int fd = accept(ls, NULL, NULL); if (fd < 0) _exit(2);
        sleep(1);
        long total = 0; static char buf[4096];
        for (;;) { ssize_t rc = recv(fd, buf, sizeof buf, 0); if (rc <= 0) break; total += rc; usleep(200); }
        FILE *f = fopen("k7.result", "w"); fprintf(f, "%ld\n", total); fclose(f); _exit(0);
    }
    struct xcm_socket *c = NULL; for (int i = 0; i < 50 && !c; i++) { c = xcm_connect("tcp:127.0.0.1:47892", 0); if (!c) usleep(100000); }
    if (!c) { perror("connect via relay"); kill(rp, SIGTERM); return 2; }
    static char msg[SZ]; memset(msg, 'm', SZ); int sent = 0;
    for (int i = 0; i < N; i++) { if (xcm_send(c, msg, SZ) < 0) { perror("send"); break; } sent++; }
    xcm_close(c);      /* blocking socket: everything accepted has been handed to the kernel */
    int st; waitpid(sp, &st, 0); kill(rp, SIGTERM); waitpid(rp, &st, 0);
    long got = -1; FILE *f = fopen("k7.result", "r"); if (f) { if (fscanf(f, "%ld", &got) != 1) got = -1; fclose(f); }
    long want = (long)sent * (SZ + 4);
    printf("sent %d messages (%ld wire bytes) through the relay and closed; the far side received %ld bytes (%ld complete messages) before the close\n", sent, want, got, got / (SZ + 4));
    if (got != want) { printf("FAIL: %ld message(s) lost or cut\n", sent - got / (SZ + 4)); return 1; }
    printf("OK\n"); return 0; }
