#define _GNU_SOURCE
#include <xcm.h>
#include <xcm_attr.h>
#include <stdio.h>
#include <stdlib.h>
#include <string.h>
#include <errno.h>
#include <signal.h>
#include <unistd.h>
#include <sys/wait.h>
#include <sys/time.h>
static void on_alarm(int sig) { (void)sig; }
int main(void) {
    const char *addr = "tcp:127.0.0.1:47814";
    int pfd[2]; pipe(pfd);
    pid_t pid = fork();
    if (pid == 0) { /* server: accept, wait for go, then read everything */
        struct xcm_socket *srv = xcm_server(addr);
        struct xcm_socket *c = xcm_accept(srv);
        char go; read(pfd[0], &go, 1);
        int n = 0; char buf[65536]; int dup = 0; int last = -1;
        for (;;) { int rc = xcm_receive(c, buf, sizeof buf); if (rc <= 0) break; int seq; memcpy(&seq, buf, 4); if (seq == last) dup++; last = seq; n++; }
        printf("server received %d messages (dups %d)\n", n, dup);
        exit(n & 0xff);
    }
    sleep(1);
    struct xcm_socket *c = xcm_connect(addr, 0);
    struct sigaction sa; memset(&sa, 0, sizeof sa); sa.sa_handler = on_alarm; sigaction(SIGALRM, &sa, NULL); /* no SA_RESTART */
    static char msg[60000]; int ok = 0, eintr = 0;
    for (int i = 0; i < 200; i++) {
        memcpy(msg, &i, 4);
        struct itimerval it = {{0,0},{0,300000}}; setitimer(ITIMER_REAL, &it, NULL);
        int rc = xcm_send(c, msg, sizeof msg);
        struct itimerval off = {{0,0},{0,0}}; setitimer(ITIMER_REAL, &off, NULL);
        if (rc == 0) ok++; else if (errno == EINTR) { eintr++; break; } else { perror("send"); break; }
    }
    int64_t fa; xcm_attr_get_int64(c, "xcm.from_app_msgs", &fa);
    printf("client: %d sends ok, %d EINTR, from_app_msgs=%ld\n", ok, eintr, (long)fa);
    write(pfd[1], "g", 1);
    xcm_set_blocking(c, true);
    xcm_close(c);
    int st; waitpid(pid, &st, 0);
    int delivered = WEXITSTATUS(st);
    printf("delivered=%d reported-accepted=%d\n", delivered, ok);
    return delivered != ok;
}
