/* K2: descriptor exhaustion at the eventfd of the shared always-readable pool aborts the process */
#include <xcm.h>
#include <stdio.h>
#include <errno.h>
#include <string.h>
#include <dirent.h>
#include <sys/resource.h>
static int nfds(void) { int n = 0; DIR *d = opendir("/proc/self/fd"); struct dirent *e; while ((e = readdir(d))) n++; closedir(d); return n - 3; }
int main(void) {
    int open_now = nfds();
    /* room for exactly one more descriptor: epoll_create1 succeeds, the eventfd does not */
    struct rlimit rl = { .rlim_cur = open_now + 1, .rlim_max = open_now + 1 };
    if (setrlimit(RLIMIT_NOFILE, &rl) < 0) { perror("setrlimit"); return 2; }
    struct xcm_socket *c = xcm_connect("tcp:127.0.0.1:47861", XCM_NONBLOCK);
    printf("xcm_connect returned %p, errno %s\n", (void *)c, strerror(errno));
    printf("OK: reported, not aborted\n");
    return 0; }
