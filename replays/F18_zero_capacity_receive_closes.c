/* replay K8: a zero-capacity xcm_receive() on a byte-stream connection with data available marks the connection closed.
   usage: zero_cap <btcp:|btls: address>   (btls needs XCM_TLS_CERT); exit 0 = data still delivered, 1 = defect */
#include <xcm.h>
#include <xcm_attr_map.h>
#include <stdio.h>
#include <string.h>
#include <unistd.h>
#include <errno.h>
#include <stdlib.h>
#include <sys/wait.h>
#include <signal.h>
int main(int argc, char **argv)
{
    const char *addr = argc > 1 ? argv[1] : "btcp:127.0.0.1:27871";
    alarm(20);
    struct xcm_attr_map *attrs = xcm_attr_map_create();
    xcm_attr_map_add_str(attrs, "xcm.service", "bytestream");
    struct xcm_socket *srv = xcm_server_a(addr, attrs);
    if (!srv) { perror("server"); return 2; }
    pid_t pid = fork();
    if (pid == 0) {                      /* the peer: connects, sends five bytes, stays connected */
        xcm_cleanup(srv);
        struct xcm_socket *cli = xcm_connect_a(addr, attrs);
        if (!cli) { perror("connect"); _exit(2); }
        if (xcm_send(cli, "hello", 5) != 5) { perror("send"); _exit(2); }
        sleep(5);
        _exit(0);
    }
    struct xcm_socket *acc = xcm_accept(srv);
    if (!acc) { perror("accept"); return 2; }
    sleep(1);                            /* the five bytes have arrived */
    xcm_set_blocking(acc, false);
    char buf[16];
    int r0 = xcm_receive(acc, buf, 0);
    int e0 = errno;
    int r1 = xcm_receive(acc, buf, sizeof(buf));
    int e1 = errno;
    printf("receive(capacity 0) = %d (errno %d); receive(capacity 16) = %d (errno %d)\n", r0, e0, r1, e1);
    kill(pid, SIGKILL);
    waitpid(pid, NULL, 0);
    if (r1 == 5 && memcmp(buf, "hello", 5) == 0) { printf("OK: the 5 bytes are still delivered\n"); return 0; }
    printf("DEFECT: the connection was taken for closed by the zero-capacity receive; 5 bytes sent by the peer (still connected) are never delivered\n");
    return 1;
}
