/* replay: a send-only client that closes right after its last send; does the server get every byte?
   usage: sendonly <addr> <bytestream 0|1>  (tls/btls need XCM_TLS_CERT) */
#include <xcm.h>
#include <xcm_attr_map.h>
#include <stdio.h>
#include <string.h>
#include <unistd.h>
#include <errno.h>
#include <stdlib.h>
#include <sys/wait.h>
#include <signal.h>
#define TOTAL (4*1024*1024)
int main(int argc, char **argv)
{
    const char *addr = argv[1];
    int bs = atoi(argv[2]);
    alarm(60);
    struct xcm_attr_map *attrs = xcm_attr_map_create();
    if (bs) xcm_attr_map_add_str(attrs, "xcm.service", "bytestream");
    struct xcm_socket *srv = xcm_server_a(addr, attrs);
    if (!srv) { perror("server"); return 2; }
    pid_t pid = fork();
    if (pid == 0) {
        xcm_cleanup(srv);
        struct xcm_socket *cli = xcm_connect_a(addr, attrs);
        if (!cli) { perror("connect"); _exit(2); }
        static char chunk[32768];
        memset(chunk, 'x', sizeof(chunk));
        size_t sent = 0;
        while (sent < TOTAL) {
            int rc = xcm_send(cli, chunk, sizeof(chunk));
            if (rc < 0) { perror("send"); _exit(3); }
            sent += bs ? rc : sizeof(chunk);
        }
        if (xcm_close(cli) < 0) { perror("close"); _exit(4); }
        _exit(0);
    }
    struct xcm_socket *acc = xcm_accept(srv);
    if (!acc) { perror("accept"); return 2; }
    usleep(300000);   /* the receiver is a little slow */
    static char buf[65536];
    size_t got = 0;
    int rc;
    while ((rc = xcm_receive(acc, buf, sizeof(buf))) > 0)
        got += rc;
    int e = errno;
    int st; waitpid(pid, &st, 0);
    printf("%s: sender exit %d; receiver got %zu of %d bytes, last receive = %d (errno %d %s)\n", addr, WEXITSTATUS(st), got, TOTAL, rc, e, rc < 0 ? strerror(e) : "");
    return got == TOTAL && rc == 0 ? 0 : 1;
}
