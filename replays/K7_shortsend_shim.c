/* LD_PRELOAD for the relay process: the kernel takes at most 1000 bytes per send() and refuses every second call (a slow link) */
#define _GNU_SOURCE
#include <dlfcn.h>
#include <errno.h>
#include <sys/socket.h>
ssize_t send(int fd, const void *buf, size_t len, int flags) {
    static ssize_t (*real)(int, const void *, size_t, int); static unsigned n;
    if (!real) real = dlsym(RTLD_NEXT, "send");
    if (len > 1000) { if (++n % 2 == 0) { errno = EAGAIN; return -1; } len = 1000; }
    return real(fd, buf, len, flags);
}
