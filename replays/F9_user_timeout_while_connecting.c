/* F9: tcp.user_timeout set while the TCP handshake is pending is reported by xcm_attr_get but never applied */
#define _GNU_SOURCE
#include <xcm.h>
#include <xcm_attr.h>
#include <xcm_attr_map.h>
#include <stdio.h>
#include <string.h>
#include <unistd.h>
#include <errno.h>
#include <stdlib.h>
#include <sys/socket.h>
#include <netinet/in.h>
#include <netinet/tcp.h>
#include <arpa/inet.h>

#define PORT 47821
static int raw_connect(void) {
    int fd = socket(AF_INET, SOCK_STREAM | SOCK_NONBLOCK, 0);
    struct sockaddr_in a = { .sin_family = AF_INET, .sin_port = htons(PORT) };
    inet_pton(AF_INET, "127.0.0.1", &a.sin_addr);
    connect(fd, (struct sockaddr *)&a, sizeof a);
    return fd;
}
int main(void)
{
    int ls = socket(AF_INET, SOCK_STREAM, 0), one = 1;
    setsockopt(ls, SOL_SOCKET, SO_REUSEADDR, &one, sizeof one);
    struct sockaddr_in a = { .sin_family = AF_INET, .sin_port = htons(PORT) };
    inet_pton(AF_INET, "127.0.0.1", &a.sin_addr);
    if (bind(ls, (struct sockaddr *)&a, sizeof a) < 0 || listen(ls, 0) < 0) { perror("listen"); return 2; }
    /* fill the accept queue so that further SYNs are dropped */
    int f1 = raw_connect(), f2 = raw_connect(); usleep(100000);
    struct xcm_attr_map *m = xcm_attr_map_create();
    xcm_attr_map_add_bool(m, "xcm.blocking", false);
    struct xcm_socket *c = xcm_connect_a("tcp:127.0.0.1:47821", m);
    if (!c) { perror("xcm_connect_a"); return 2; }
    int rc = xcm_finish(c);
    if (!(rc < 0 && errno == EAGAIN)) { printf("inconclusive: connection not held in the connecting state (rc=%d errno=%d)\n", rc, errno); return 2; }
    if (xcm_attr_set_int64(c, "tcp.user_timeout", 17) < 0) { perror("set"); return 2; }
    /* let the handshake complete: drain the queue */
    for (int i = 0; i < 2; i++) { int x = accept(ls, NULL, NULL); (void)x; }
    int afd = -1;
    for (int i = 0; i < 600; i++) { rc = xcm_finish(c); if (rc == 0) break; if (errno != EAGAIN) { perror("finish"); return 2; } if (afd < 0) { afd = accept4(ls, NULL, NULL, SOCK_NONBLOCK); } usleep(10000); }
    if (rc != 0) { printf("inconclusive: never established\n"); return 2; }
    int64_t v = -1; xcm_attr_get_int64(c, "tcp.user_timeout", &v);
    /* find the kernel descriptor of the connection */
    unsigned kernel_ms = 0; int found = 0;
    for (int fd = 3; fd < 64; fd++) {
        struct sockaddr_in p; socklen_t l = sizeof p;
        if (fd == f1 || fd == f2) continue;
        if (getpeername(fd, (struct sockaddr *)&p, &l) == 0 && p.sin_family == AF_INET && ntohs(p.sin_port) == PORT) {
            socklen_t ol = sizeof kernel_ms; getsockopt(fd, IPPROTO_TCP, TCP_USER_TIMEOUT, &kernel_ms, &ol); found = 1; break;
        }
    }
    printf("xcm_attr_get says %ld s; kernel descriptor has %u ms (found=%d)\n", (long)v, kernel_ms, found);
    if (!found) return 2;
    if (kernel_ms != 17000) { printf("FAIL: the accepted value is not in force on the connection\n"); return 1; }
    printf("OK\n"); return 0;
}
