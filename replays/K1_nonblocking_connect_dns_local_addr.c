#include <xcm.h>
#include <xcm_attr.h>
#include <xcm_attr_map.h>
#include <stdio.h>
#include <errno.h>
#include <string.h>
#include <time.h>
int main(int argc, char **argv) {
    struct xcm_socket *srv = xcm_server("tcp:127.0.0.1:47811");
    struct xcm_attr_map *a = xcm_attr_map_create();
    xcm_attr_map_add_bool(a, "xcm.blocking", false);
    xcm_attr_map_add_str(a, "xcm.local_addr", argv[1]);
    struct timespec t0, t1; clock_gettime(CLOCK_MONOTONIC, &t0);
    struct xcm_socket *c = xcm_connect_a("tcp:127.0.0.1:47811", a);
    clock_gettime(CLOCK_MONOTONIC, &t1);
    printf("conn=%p errno=%s took %.3f s\n", (void*)c, strerror(errno), (t1.tv_sec-t0.tv_sec)+(t1.tv_nsec-t0.tv_nsec)/1e9);
    return 0;
}
