#define _GNU_SOURCE
#include <dlfcn.h>
#include <errno.h>
#include <sys/socket.h>
int setsockopt(int fd, int level, int optname, const void *v, socklen_t l) {
    static int (*real)(int, int, int, const void *, socklen_t);
    if (!real) real = dlsym(RTLD_NEXT, "setsockopt");
    if (level == SOL_SOCKET && optname == SO_PASSCRED) { errno = ENOBUFS; return -1; }
    return real(fd, level, optname, v, l);
}
