# Build the extractor (offline; needs only /usr/lib/llvm-14)
LLVM_CXXFLAGS := $(shell llvm-config-14 --cxxflags)
all: build/xcmfacts
build/xcmfacts: tools/xcmfacts/xcmfacts.cc
	mkdir -p build
	clang++ $(LLVM_CXXFLAGS) -fno-rtti -w $< -o $@ /usr/lib/llvm-14/lib/libclang-cpp.so.14 /usr/lib/llvm-14/lib/libLLVM-14.so
clean:
	rm -rf build
