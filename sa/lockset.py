"""Must-lockset analysis for library globals (E6/lockset).

Objects are globals (and static locals) identified by (file, name).  A
pointer parameter of a function is *bound* to an object when every call site
in the analysed program passes the address of (an interior of) that same
object, directly or through a bound parameter of the caller.  Locks are
identified by object paths ((file, name), field, ...).  A forward must-
analysis (intersection at joins) computes the set of locks held before every
CFG element; calls apply the callee's net effect (locks acquired on every
path to every exit / locks released), which is how lock wrappers are
recognised; the lockset at a function's entry is the intersection over its
call sites (empty for functions that are exported, stored in a table, or
have no caller).
"""
from collections import defaultdict

from . import cfg as C

LOCK_FNS = {"ut_mutex_lock": "lock", "pthread_mutex_lock": "lock", "ut_mutex_unlock": "unlock", "pthread_mutex_unlock": "unlock"}
MUTEX_ADMIN = {"ut_mutex_init", "pthread_mutex_init", "pthread_mutex_destroy"}


class LockSets:
    def __init__(self, prog, exported=(), ignore_in=()):
        self.P = prog
        self.ignore_in = set(ignore_in)       # positive controls: lock calls in these functions are not seen
        self.exported = set(exported)
        self.gkey = {}
        for g in prog.globals:
            self.gkey[(g["_unit"].file, g["name"], g.get("function"))] = g
        self._bind = None
        self._summ = {}
        self._entry = None
        self._before = {}
        self.address_taken = self._address_taken()

    # ------------------------------------------------------------------ objects
    def gobj(self, fn, n):
        """object id of a ref node to a global/static local"""
        if n["dk"] == "global":
            # static globals are per unit; extern ones by name
            for (uf, name, func), g in self.gkey.items():
                if name == n["name"] and func is None and (not g.get("static") or uf == fn.unit.file or g["file"] == fn.file):
                    return (g["file"], name)
            return ("?", n["name"])
        if n["dk"] == "static_local":
            return (fn.file, fn.name + "::" + n["name"])
        return None

    def opath(self, fn, nid, bind=None):
        """object path the lvalue/address expression designates: (obj, f1, ...) or None"""
        bind = bind if bind is not None else self.binding().get(fn.key, {})
        x = fn.strip(nid)
        fields = []
        while True:
            n = fn.nodes[x]
            k = n["k"]
            if k == "un" and n["op"] in ("&", "*"):
                x = fn.strip(n["sub"])
                continue
            if k == "member":
                if n["field"]:
                    fields.append(n["field"])
                x = fn.strip(n["base"])
                continue
            if k == "index":
                x = fn.strip(n["base"])
                continue
            if k == "ref":
                if n["dk"] in ("global", "static_local"):
                    o = self.gobj(fn, n)
                    return (o,) + tuple(reversed(fields)) if o else None
                if n["dk"] == "param":
                    idx = [i for i, p in enumerate(fn.params) if p["name"] == n["name"]]
                    if idx and idx[0] in bind:
                        return bind[idx[0]] + tuple(reversed(fields))
                    return None
                if n["dk"] == "local":
                    # a local pointer initialised once from a bound expression (struct x *p = &G / param)
                    srcs = []
                    for m in fn.nodes.values():
                        if m["k"] == "decl":
                            for v in m["vars"]:
                                if v["did"] == n["did"] and v.get("init") is not None:
                                    srcs.append(v["init"])
                        elif m["k"] == "bin" and m["op"] == "=" and fn.sn(m["l"]).get("did") == n["did"] and fn.sn(m["l"])["k"] == "ref":
                            srcs.append(m["r"])
                    if len(srcs) == 1 and "*" in (n.get("t") or ""):
                        sn = fn.sn(srcs[0])
                        if sn["k"] in ("un", "member", "ref") and not (sn["k"] == "ref" and sn.get("did") == n["did"]):
                            if sn["k"] == "un" and sn["op"] != "&":
                                return None
                            if sn["k"] == "member" or (sn["k"] == "ref" and sn["dk"] != "param" and sn["dk"] not in ("global", "static_local")):
                                return None
                            p = self.opath(fn, srcs[0], bind)
                            return p + tuple(reversed(fields)) if p else None
                    return None
                return None
            return None

    def _address_taken(self):
        out = set()
        for f in self.P.functions:
            for nid, n in f.nodes.items():
                if n["k"] == "ref" and n["dk"] == "function":
                    par = f.parents().get(nid)
                    # a direct call's callee position is not an address-taking use
                    p = par
                    while p is not None and f.nodes[p]["k"] in ("cast", "paren"):
                        p = f.parents().get(p)
                    if p is not None and f.nodes[p]["k"] == "call" and f.strip(f.nodes[p]["fn"]) == nid:
                        continue
                    d = self.P.resolve_direct(f, n["name"])
                    if d:
                        out.add(d)
        for g in self.P.globals:
            for n in (g.get("nodes") or {}).values():
                if n["k"] == "ref" and n.get("dk") == "function":
                    u = g["_unit"]
                    d = self.P.by_unit_name.get((u.file, u.product, n["name"]))
                    if d:
                        out.add(d)
        return out

    def is_root(self, f):
        return (not f.static) and f.name in self.exported or f in self.address_taken or "constructor" in f.attrs or not self.P.callers().get(f)

    # ------------------------------------------------------------------ bindings
    def binding(self):
        if self._bind is not None:
            return self._bind
        bind = defaultdict(dict)
        TOP = object()
        cur = defaultdict(dict)      # f.key -> {i: path | TOP(conflict)}
        changed = True
        rounds = 0
        while changed and rounds < 10:
            changed = False
            rounds += 1
            new = defaultdict(dict)
            for f in self.P.functions:
                b = {i: p for i, p in cur.get(f.key, {}).items() if p is not TOP}
                for c in f.calls():
                    n = f.nodes[c]
                    defs, _ = self.P.callees(f, c)
                    for d in defs:
                        for i, a in enumerate(n["args"]):
                            if i >= len(d.params) or "*" not in (d.params[i].get("t") or ""):
                                continue
                            p = self.opath(f, a, b)
                            old = new[d.key].get(i, None)
                            if old is None:
                                new[d.key][i] = p if p is not None else TOP
                            elif old is not TOP and old != p:
                                new[d.key][i] = TOP
            for f in self.P.functions:
                if self.is_root(f) and not f.static:
                    for i in list(new.get(f.key, {})):
                        new[f.key][i] = TOP
            if {k: dict(v) for k, v in new.items()} != {k: dict(v) for k, v in cur.items()}:
                changed = True
                cur = new
        for k, v in cur.items():
            bind[k] = {i: p for i, p in v.items() if p is not TOP}
        self._bind = bind
        return bind

    # ------------------------------------------------------------------ transfer
    def lock_event(self, fn, nid):
        """('lock'|'unlock', lock path) for a direct mutex call, else None"""
        n = fn.nodes[nid]
        kind = LOCK_FNS.get(n.get("callee") or "")
        if not kind or not n["args"] or fn.name in self.ignore_in:
            return None
        p = self.opath(fn, n["args"][0])
        return (kind, p if p is not None else ("?", fn.show(n["args"][0])))

    def summary(self, f, depth=0):
        """(acquired frozenset, released frozenset) net effect on every path, or None"""
        if f.key in self._summ:
            return self._summ[f.key]
        self._summ[f.key] = (frozenset(), frozenset())
        if f.name in LOCK_FNS or f.name in MUTEX_ADMIN:
            return self._summ[f.key]        # the primitives themselves are modelled at their call sites
        if depth > 6 or not f.blocks:
            return self._summ[f.key]
        res = self._flow(f, frozenset(), depth, record=False)
        self._summ[f.key] = res
        return res

    def _apply_call(self, fn, nid, held, released, depth):
        ev = self.lock_event(fn, nid)
        if ev:
            if ev[0] == "lock":
                return held | {ev[1]}, released - {ev[1]}
            return held - {ev[1]}, released | {ev[1]}
        if (fn.nodes[nid].get("callee") or "") in LOCK_FNS:
            return held, released           # a lock primitive hidden by a positive control
        defs, _ = self.P.callees(fn, nid)
        for d in defs:
            s = self.summary(d, depth + 1)
            if s is None:
                return frozenset(), released | held
            a, r = s
            held = (held - r) | a
            released = (released | r) - a
        return held, released

    def _flow(self, f, entry, depth, record=True):
        IN = {f.entry: (entry, frozenset())}
        work = [f.entry]
        before = {}
        exits = []
        it = 0
        while work:
            b = work.pop()
            it += 1
            if it > 20000:
                break
            held, rel = IN[b]
            blk = f.blocks[b]
            for e in blk.elems:
                if record:
                    before[e] = held if e not in before else (before[e] & held)
                n = f.nodes[e]
                if n["k"] == "call":
                    held, rel = self._apply_call(f, e, held, rel, depth)
            if blk.noreturn:
                continue
            if b == f.exit:
                exits.append((held, rel))
                continue
            for s in C.succs(f, b):
                if s == f.exit:
                    exits.append((held, rel))
                    continue
                if s not in IN:
                    IN[s] = (held, rel)
                    work.append(s)
                else:
                    h2 = IN[s][0] & held
                    r2 = IN[s][1] | rel
                    if (h2, r2) != IN[s]:
                        IN[s] = (h2, r2)
                        work.append(s)
        if record:
            # a second pass with the stabilised IN sets gives the final `before`
            before = {}
            for b, (held, rel) in IN.items():
                blk = f.blocks[b]
                for e in blk.elems:
                    before[e] = held
                    n = f.nodes[e]
                    if n["k"] == "call":
                        held, rel = self._apply_call(f, e, held, rel, depth)
            self._before[f.key] = before
            self._exit_states = exits
        if not exits:
            return (frozenset(), frozenset())
        acq = frozenset.intersection(*[h for h, r in exits]) - entry
        rel = frozenset.union(*[r for h, r in exits])
        return (acq, rel)

    def exit_locksets(self, f):
        """locksets at the non-aborting exits of f (after analyse())"""
        self._flow(f, self.entry().get(f.key, frozenset()), 0, record=True)
        return [h for h, r in self._exit_states]

    def entry(self):
        if self._entry is not None:
            return self._entry
        ALL = None
        entry = {}
        for f in self.P.functions:
            entry[f.key] = frozenset() if self.is_root(f) else ALL
        for _ in range(8):
            changed = False
            acc = {}
            for f in self.P.functions:
                if entry[f.key] is ALL:
                    continue
                self._flow(f, entry[f.key], 0, record=True)
                bef = self._before[f.key]
                for c in f.calls():
                    defs, _ = self.P.callees(f, c)
                    for d in defs:
                        h = bef.get(c, frozenset())
                        acc[d.key] = h if d.key not in acc else (acc[d.key] & h)
            for f in self.P.functions:
                if self.is_root(f):
                    continue
                new = acc.get(f.key, frozenset() if entry[f.key] is not ALL else ALL)
                if new is ALL:
                    continue
                if entry[f.key] is ALL or new != entry[f.key]:
                    if entry[f.key] is ALL or new != entry[f.key]:
                        entry[f.key] = new
                        changed = True
            if not changed:
                break
        for k, v in entry.items():
            if v is ALL:
                entry[k] = frozenset()
        self._entry = entry
        # final before-maps
        for f in self.P.functions:
            self._flow(f, entry[f.key], 0, record=True)
        return entry

    def held_before(self, f, nid):
        """must-lockset before CFG element nid (or the element containing it)"""
        self.entry()
        bef = self._before.get(f.key, {})
        x = nid
        par = f.parents()
        while x is not None and x not in bef:
            x = par.get(x)
        return bef.get(x, frozenset()) if x is not None else frozenset()
