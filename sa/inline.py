"""Model-level expansion of field-setter helpers.

`BTCP_SET_STATE(s, st)` as a macro and `btcp_set_state(s, st)` as a static inline function are the same program.
Rules that read stores (which state is stored where, under which condition) must see the same thing in both.  A static
void function of a .c file whose only effect on memory is `member = parameter` (plus logging), without loops, is
spliced into its callers' CFGs at load time: the call element is replaced by a copy of the helper's blocks, parameters
replaced by the argument expressions, locals given fresh identities.  Nothing else is inlined at this level (the path
engines inline on demand); the helper itself stays in the program.
"""
from collections import defaultdict

from .model import ASSIGN_OPS, Block

LOGGING = {"__log_event", "log_is_enabled", "log_console_conf", "log_sock_attr_tree"}
CHILD_KEYS = ("sub", "l", "r", "base", "idx", "fn", "c", "tv", "fv", "arg")
LIST_KEYS = ("args", "elems", "ch")


def is_setter(f, siblings=None):
    if not f.static or not f.file.endswith(".c") or (f.ret or "").strip() != "void" or not f.blocks or len(f.nodes) > 400:
        return False
    mem = []
    for b, i, e, lhs, rhs, op in f.stores():
        ln = f.nodes[f._strip0(lhs)]
        if ln["k"] == "ref" and ln.get("dk") in ("local", "param"):
            continue
        if f.show(lhs) == "errno":
            continue
        mem.append((lhs, rhs, op))
    if not mem or len(mem) > 2:
        return False
    for lhs, rhs, op in mem:
        if op != "=" or rhs is None:
            return False
        rn = f.nodes[f._strip0(rhs)]
        if not (rn["k"] == "ref" and rn.get("dk") == "param") or f.nodes[f._strip0(lhs)]["k"] != "member":
            return False
    for c in f.calls():
        cal = f.nodes[c].get("callee") or ""
        if cal in LOGGING or cal.startswith("__builtin_") or cal in ("__errno_location", "strerror"):
            continue
        g = siblings.get(cal) if siblings else None
        if g is not None and g is not f and not any(True for _ in g.calls()) and not any(g.nodes[g._strip0(lhs)]["k"] != "ref" for b, i, e, lhs, rhs, op in g.stores()):
            continue        # a pure leaf of the same unit (state_name() for the log line)
        return False
    # no loops
    seen, stack = set(), set()

    def dfs(b):
        if b in stack:
            return True
        if b in seen:
            return False
        seen.add(b)
        stack.add(b)
        for s_ in f.blocks[b].succs:
            if s_ is not None and dfs(s_):
                return True
        stack.discard(b)
        return False
    if dfs(f.entry):
        return False
    # parameters are not assigned, their address is not taken
    pd = {p.get("did") for p in f.params}
    for n in f.nodes.values():
        if n["k"] == "bin" and n["op"] in ASSIGN_OPS or (n["k"] == "un" and n["op"] in ("++", "--", "post++", "post--", "&")):
            t = f.nodes[f._strip0(n["l"] if n["k"] == "bin" else n["sub"])]
            if t["k"] == "ref" and t.get("did") in pd:
                return False
    return True


def _splice(F, bid, idx, call, G):
    n = F.nodes[call]
    base = max(F.nodes) + 1
    did_off = (max([m.get("did") or 0 for m in F.nodes.values()] + [v.get("did") or 0 for m in F.nodes.values() if m["k"] == "decl" for v in m["vars"]]) + 1) * 1000 + 7
    pmap = {}
    for p, a in zip(G.params, n["args"]):
        pmap[p.get("did")] = a
    idmap = {gid: base + k for k, gid in enumerate(sorted(G.nodes))}
    for gid, gn in G.nodes.items():
        m = dict(gn)
        m["id"] = idmap[gid]
        m["inl"] = G.name
        if n.get("loc"):
            m["loc"] = n["loc"]          # reports point at the call site
        if m["k"] == "ref" and m.get("dk") == "param" and m.get("did") in pmap:
            m = {"k": "paren", "sub": pmap[m["did"]], "id": idmap[gid], "loc": gn.get("loc"), "t": gn.get("t"), "inl": G.name}
        else:
            for k in CHILD_KEYS:
                if isinstance(m.get(k), int) and m[k] in idmap:
                    m[k] = idmap[m[k]]
            for k in LIST_KEYS:
                if isinstance(m.get(k), list):
                    m[k] = [idmap.get(x, x) if isinstance(x, int) else x for x in m[k]]
            if m["k"] == "decl":
                vs = []
                for v in m["vars"]:
                    v = dict(v)
                    if v.get("init") is not None:
                        v["init"] = idmap.get(v["init"], v["init"])
                    if v.get("did") is not None:
                        v["did"] = v["did"] + did_off
                    vs.append(v)
                m["vars"] = vs
            if m["k"] == "ref" and m.get("dk") in ("local", "static_local") and m.get("did") is not None:
                m["did"] = m["did"] + did_off
        F.nodes[m["id"]] = m
    B = F.blocks[bid]
    nb = max(F.blocks) + 1
    bmap = {gb: nb + 1 + k for k, gb in enumerate(sorted(G.blocks))}
    cont = nb
    tail = Block({"id": cont, "elems": B.elems[idx + 1:], "succs": list(B.succs), "term": B.term, "label": None, "noreturn": B.noreturn})
    F.blocks[cont] = tail
    if F.exit == bid:
        F.exit = cont          # (cannot happen: the exit block is empty)
    B.elems = B.elems[:idx]
    B.term = None
    B.noreturn = False
    B.succs = [bmap[G.entry]]
    for gb, gblk in G.blocks.items():
        elems = [idmap[e] for e in gblk.elems if G.nodes[e]["k"] != "return"]
        term = None
        if gblk.term:
            term = dict(gblk.term)
            for k in ("cond",):
                if isinstance(term.get(k), int):
                    term[k] = idmap.get(term[k], term[k])
        succs = [None if s_ is None else (cont if s_ == G.exit else bmap[s_]) for s_ in gblk.succs]
        if gb == G.exit:
            succs = [cont]
        F.blocks[bmap[gb]] = Block({"id": bmap[gb], "elems": elems, "succs": succs, "term": term, "label": gblk.label, "noreturn": gblk.noreturn})
    for b in F.blocks.values():
        b.preds = []
    for b in F.blocks.values():
        for s_ in b.succs:
            if s_ is not None:
                F.blocks[s_].preds.append(b.id)
    F._where = None
    F._parent = None
    for a in ("_sdefs", "_csrc", "_odefs", "_sdefs_any", "_csrc_any"):
        if hasattr(F, a):
            delattr(F, a)


def expand_setters(units):
    done = []
    for u in units:
        byname = {f.name: f for f in u.functions}
        setters = {f.name: f for f in u.functions if f.file == u.file and is_setter(f, byname)}
        if not setters:
            continue
        for F in u.functions:
            if F.name in setters or not F.blocks:
                continue
            changed = True
            guard = 0
            while changed and guard < 200:
                changed = False
                guard += 1
                par = F.parents()
                for b in list(F.blocks.values()):
                    for i, e in enumerate(b.elems):
                        n = F.nodes[e]
                        if n["k"] == "call" and n.get("callee") in setters and not n.get("inl"):
                            G = setters[n["callee"]]
                            p = par.get(e)
                            if p is not None and not F.nodes[p]["k"].startswith("S:") and F.nodes[p]["k"] not in ("compound",):
                                continue        # the call's value is used: not a statement
                            if len(n["args"]) != len(G.params):
                                continue
                            _splice(F, b.id, i, e, G)
                            done.append((F.file, F.name, G.name))
                            changed = True
                            break
                    if changed:
                        break
    return done
