"""E3/E4 core: path-sensitive exploration with inlining of callees, tracking
the sign class of integer results and must-facts on errno.

State = (vals, errno, user) where
  vals  : frozenset of (key, cls); key = variable name or ('call', nid);
          cls in NEG ZERO POS NONNEG NONPOS NONZERO (absent = unknown)
  errno : (src, confirmed, fact): src = 'entry' | 'assigned' | call node id of
          the last call that may have set it; confirmed = that call's failure
          was observed on this path; fact = None | ('eq', K) | ('ne', {K...})
  user  : rule-defined hashable
A rule subclasses SeqRule and overrides on_call / on_store / on_return_top /
branch_user.  Calls for which inline(callee) is true are explored in the
callee's CFG with the current state; each distinct exit continues in the
caller with the callee's return class bound to the call node.
"""
from collections import deque

from . import cfg as C

NEG, ZERO, POS, NONNEG, NONPOS, NONZERO = "neg", "zero", "pos", "nonneg", "nonpos", "nonzero"

MEET = {
    (NONNEG, NONPOS): ZERO, (NONNEG, NONZERO): POS, (NONPOS, NONZERO): NEG,
}


def meet(a, b):
    """intersection of two sign classes; 'BOT' if empty"""
    if a is None:
        return b
    if b is None:
        return a
    if a == b:
        return a
    sets = {NEG: {-1}, ZERO: {0}, POS: {1}, NONNEG: {0, 1}, NONPOS: {-1, 0}, NONZERO: {-1, 1}}
    s = sets[a] & sets[b]
    if not s:
        return "BOT"
    for k, v in sets.items():
        if v == s:
            return k
    return None


def cls_of_const(v):
    return NEG if v < 0 else (ZERO if v == 0 else POS)


def cls_from_cmp(op, c):
    """class of x on the edge where `x op c` holds"""
    if c == 0:
        return {"<": NEG, ">=": NONNEG, "==": ZERO, "!=": NONZERO, ">": POS, "<=": NONPOS}[op]
    if c == 1:
        return {"<": NONPOS, ">=": POS, "==": POS}.get(op)
    if c == -1:
        return {">": NONNEG, "<=": NEG, "==": NEG}.get(op)
    if c > 1:
        return {">": POS, ">=": POS, "==": POS}.get(op)
    if c < -1:
        return {"<": NEG, "<=": NEG, "==": NEG}.get(op)
    return None


ERRNO_TRANSPARENT_EXT = {
    "strlen", "memcpy", "memmove", "memset", "strcmp", "strncmp", "strcpy", "strncpy", "snprintf", "htonl", "ntohl", "htons", "ntohs",
    "free", "memcmp", "strchr", "strrchr", "abort", "__assert_fail", "exit", "__builtin_expect", "__errno_location", "strerror", "getpid",
    "SSL_get_error", "ERR_clear_error", "BIO_clear_flags", "BIO_set_flags", "BIO_get_data", "SSL_has_pending", "SSL_get_verify_result",
    "__builtin_va_start", "__builtin_va_end", "BIO_test_flags", "ERR_peek_error", "ERR_get_error", "ERR_peek_last_error",
    "ERR_GET_LIB", "ERR_GET_REASON", "ERR_error_string", "X509_free", "strdup", "strndup", "strchrnul", "__ctype_b_loc",
}
# allocation wrappers abort instead of failing; glibc's malloc may set errno only on failure
ERRNO_TRANSPARENT_REPO = {"ut_free", "ut_malloc", "ut_calloc", "ut_strdup", "ut_memdup", "ut_realloc", "ut_close", "ut_close_if_valid"}


class ErrnoLemma:
    """Derives, from the current source, which repository functions leave
    errno as they found it: a function is transparent iff on every path every
    call to a non-transparent function lies between `x = errno` and
    `errno = x` (the UT_SAVE_ERRNO/UT_RESTORE_ERRNO and UT_PROTECT_ERRNO
    brackets), and it assigns errno nowhere else.  Third-party tracepoint code
    (functions generated from lttng-ust headers) is trusted."""

    def __init__(self, prog):
        self.prog = prog
        self.memo = {}
        self.used = set()

    def trusted(self, d):
        return d.name in ERRNO_TRANSPARENT_REPO or "lttng" in d.file or d.name.startswith("lttng_ust_")

    def helper_kind(self, d):
        """'get': returns errno and does nothing else; 'set': assigns its parameter to errno and does nothing else;
        'swap': both (returns the old value).  The save/restore macros written as small functions."""
        k = getattr(self, "_hk", None)
        if k is None:
            k = self._hk = {}
        if d in k:
            return k[d]
        k[d] = None
        if len(d.nodes) > 60 or any(n["k"] == "call" and (n.get("callee") or "") != "__errno_location" for n in d.nodes.values()):
            return None
        pd = {p.get("did") for p in d.params}
        sets = gets = other = 0
        errno_locals = set()
        for n in d.nodes.values():
            if n["k"] == "decl":
                for v in n["vars"]:
                    if v.get("init") is not None and d.show(v["init"]) == "errno":
                        errno_locals.add(v.get("did"))
        for b, i, e, lhs, rhs, op in d.stores():
            if d.show(lhs) == "errno" and op == "=" and rhs is not None and d.sn(rhs)["k"] == "ref" and d.sn(rhs).get("did") in pd:
                sets += 1
            elif d.sn(lhs)["k"] == "ref" and d.sn(lhs).get("dk") == "local":
                pass
            else:
                other += 1
        rets = [n for n in d.nodes.values() if n["k"] == "return" and n.get("sub") is not None]
        for n in rets:
            x = d.sn(n["sub"])
            if d.show(n["sub"]) == "errno" or (x["k"] == "ref" and x.get("did") in errno_locals):
                gets += 1
            else:
                other += 1
        if other:
            return None
        kind = "swap" if sets and gets else ("set" if sets == 1 and not rets else ("get" if gets and not sets else None))
        k[d] = kind
        return kind

    def call_ok(self, fn, nid, depth=0):
        defs, exts = self.prog.callees(fn, nid)
        n = fn.nodes[nid]
        if n.get("builtin") and (n.get("callee") or "").startswith("__builtin_"):
            return True
        if not defs and not exts:
            # lttng tracepoint probes are called through pointers
            return "lttng" in fn.file or fn.name.startswith("lttng_ust_")
        for x in exts:
            if x not in ERRNO_TRANSPARENT_EXT:
                return False
        for d in defs:
            if not self.transparent(d, depth + 1):
                return False
        return True

    def transparent(self, d, depth=0):
        if d in self.memo:
            return self.memo[d]
        if self.trusted(d):
            self.memo[d] = True
            return True
        self.memo[d] = False
        if depth > 8:
            return False
        me = self
        ok = [True]

        class R(C.Rule):
            # state: (saved variable name | None, dirty, bad); verdict at the
            # non-aborting exits only
            def initial(self, fn):
                return (None, False, False)

            def elem(self, fn, st, nid, blk, idx):
                saved, dirty, bad = st
                n = fn.nodes[nid]
                k = n["k"]
                if k == "decl":
                    for v in n["vars"]:
                        if v.get("init") is not None and fn.show(v["init"]) == "errno":
                            return (v["name"], dirty, bad)
                        if v.get("init") is not None and fn.sn(v["init"])["k"] == "call":
                            ds, _ = me.prog.callees(fn, fn.strip(v["init"]))
                            if ds and all(me.helper_kind(x) == "get" for x in ds):
                                return (v["name"], dirty, bad)
                elif k == "bin" and n["op"] == "=":
                    if fn.show(n["l"]) == "errno":
                        rn = fn.sn(n["r"])
                        if rn["k"] == "ref" and rn["name"] == saved:
                            return (saved, False, bad)
                        return (saved, dirty, True)
                    elif fn.show(n["r"]) == "errno" and fn.sn(n["l"])["k"] == "ref":
                        return (fn.sn(n["l"])["name"], dirty, bad)
                elif k == "call":
                    if n.get("noreturn"):
                        return None
                    ds, _ = me.prog.callees(fn, nid)
                    hk = {me.helper_kind(x) for x in ds} if ds else set()
                    if hk and hk <= {"get"}:
                        return None
                    if hk and hk <= {"set", "swap"} and n["args"]:
                        an = fn.sn(n["args"][0])
                        if an["k"] == "ref" and an["name"] == saved:
                            return (saved, False, bad)
                        return (saved, dirty, True)
                    if not me.call_ok(fn, nid, depth):
                        return (saved, True, bad or saved is None)
                return None

            def at_exit(self, fn, st, blk):
                if st[1] or st[2]:
                    ok[0] = False
        try:
            C.explore(d, R(), max_states=20000)
        except RuntimeError:
            ok[0] = False
        self.memo[d] = ok[0]
        return ok[0]


class SeqRule:
    max_depth = 4
    # a callee explored from the same entry state (parameter classes, errno fact, user state) at the same depth under
    # the same callers has the same exits: rules whose hooks are functions of their arguments (no per-visit counters
    # that a floor depends on) may have the exploration remembered
    memo_calls = False

    def __init__(self, prog):
        self.prog = prog

    # ---- hooks --------------------------------------------------------
    def user0(self, fn):
        return ()

    def inline(self, fn, call_nid, callee):
        """explore callee's body at this call?"""
        return False

    def on_call(self, fn, st, nid, callees, exts):
        """-> new user state | None (unchanged) | list of (user, ret cls) forks | C.DEAD"""
        return None

    def call_class(self, fn, st, nid, callees, exts):
        """sign class of a non-inlined call's result, if the rule knows it"""
        return None

    def on_store(self, fn, st, nid, lhs, rhs, op):
        return None

    def on_elem(self, fn, st, nid):
        return None

    def on_branch(self, fn, st, blk, cond, label):
        """-> user | None | C.DEAD"""
        return None

    def on_errno_use(self, fn, st, nid, kind):
        """errno is tested (kind 'test') or read into a value (kind 'read')"""
        return None

    def on_exit(self, fn, st, ret_nid, ret_cls, top):
        """called at every return of every explored function (top=True for the root)"""
        pass

    def on_abort(self, fn, st, blk, top):
        pass

    def errno_transparent(self, fn, nid, callees, exts):
        if not hasattr(self, "lemma"):
            self.lemma = ErrnoLemma(self.prog)
        n = fn.nodes[nid]
        if n.get("builtin") and (n.get("callee") or "").startswith("__builtin_"):
            return True
        for x in exts:
            if x not in ERRNO_TRANSPARENT_EXT:
                return False
        for d in callees:
            if not self.lemma.transparent(d):
                return False
            self.lemma.used.add(d.name)
        return bool(callees or exts)


class St:
    __slots__ = ("vals", "errno", "user")

    def __init__(self, vals=frozenset(), errno=("entry", True, None), user=()):
        self.vals, self.errno, self.user = vals, errno, user

    def key(self):
        return (self.vals, self.errno, self.user)

    def __hash__(self):
        return hash(self.key())

    def __eq__(self, o):
        return self.key() == o.key()

    def get(self, k):
        for kk, c in self.vals:
            if kk == k:
                return c
        return None

    def set(self, k, c):
        v = frozenset((kk, cc) for kk, cc in self.vals if kk != k)
        if c is not None:
            v = v | {(k, c)}
        return St(v, self.errno, self.user)

    def with_user(self, u):
        return St(self.vals, self.errno, u)

    def with_errno(self, e):
        return St(self.vals, e, self.user)

    def errno_fact(self, f):
        return St(self.vals, (self.errno[0], self.errno[1], f), self.user)

    @property
    def efact(self):
        return self.errno[2]

    def drop_mem(self, keep=None):
        """forget classes of memory locations (fields) - after a call or a store through memory"""
        if not any(isinstance(k, str) and k.startswith("M:") and k != keep for k, c in self.vals):
            return self
        return St(frozenset((k, c) for k, c in self.vals if not (isinstance(k, str) and k.startswith("M:") and k != keep)), self.errno, self.user)

    def drop_calls(self):
        return St(frozenset((k, c) for k, c in self.vals if not (isinstance(k, tuple) and k[0] == "call")), self.errno, self.user)


def vkey(name, did):
    """variables are keyed by name and declaration id (nested scopes re-use names)"""
    return "%s#%s" % (name, did)


def value_key(fn, nid):
    """key under which the sign class of expression nid is tracked"""
    n = fn.sn(nid)
    if n["k"] == "ref" and n["dk"] in ("local", "param"):
        return vkey(n["name"], n.get("did"))
    if n["k"] == "call":
        return ("call", n["id"])
    if n["k"] == "bin" and n["op"] == "=":
        return value_key(fn, n["l"])
    if n["k"] == "member" and n["field"]:
        # a field read: valid until the next call or store through memory (killed there)
        return "M:" + fn.apath_str(nid)
    return None


def errno_atom(fn, l, op, r):
    """is (l op r) a test of errno against a constant -> (op, K)"""
    if fn.show(l) != "errno":
        return None
    k = C.const_of(fn, r)
    if k is None or op not in ("==", "!="):
        return None
    return (op, k)


def run(rule, fn, st0=None, max_states=400000):
    """explore fn (top level).  Returns list of (St, ret_cls) exits."""
    budget = [max_states]
    st0 = st0 or St(user=rule.user0(fn))
    return _explore(rule, fn, st0, 0, True, budget, ())


def _explore(rule, fn, st0, depth, top, budget, stack):
    P = rule.prog
    exits = set()
    seen = {}
    work = deque([(fn.entry, st0)])
    seen.setdefault(fn.entry, set()).add(st0)
    while work:
        b, st = work.popleft()
        budget[0] -= 1
        if budget[0] < 0:
            raise RuntimeError("state budget exhausted in %s" % fn.name)
        blk = fn.blocks[b]
        states = [st]
        returned = False
        for e in blk.elems:
            nxt = []
            for s in states:
                nxt.extend(_elem(rule, fn, s, e, depth, budget, stack, exits, top, blk))
            states = nxt
            if not states:
                break
        if not states:
            continue
        if blk.noreturn:
            for s in states:
                rule.on_abort(fn, s, blk, top)
            continue
        if b == fn.exit:
            continue
        es = C.edges(fn, blk)
        cond = blk.term.get("cond") if blk.term else None
        for s in states:
            for succ, lab in es:
                s2 = s
                if lab is not None and cond is not None:
                    s2 = _branch(rule, fn, s, blk, cond, lab)
                    if s2 is None:
                        continue
                    if blk.term["k"] in LOGICAL and lab in ("T", "F"):
                        # the value of a short-circuit operator that is used as a value (initialiser, return, argument) is
                        # decided by the edge its left operand takes: remembered for _eval_cond/_assume
                        L = _logical_node(fn, blk)
                        if L is not None:
                            if (blk.term["k"] == "&&") == (lab == "F"):
                                s2 = s2.set(("lv", L), ZERO if lab == "F" else POS).set(("la", L), None)
                            else:
                                s2 = s2.set(("la", L), POS if lab == "T" else ZERO).set(("lv", L), None)
                if succ == fn.exit and not any(fn.nodes[x]["k"] == "return" for x in blk.elems):
                    # implicit return of a void function
                    rule.on_exit(fn, s2, None, None, top)
                    exits.add((St(frozenset(), s2.errno, s2.user), None))
                    continue
                if s2 not in seen.setdefault(succ, set()):
                    seen[succ].add(s2)
                    work.append((succ, s2))
    return list(exits)


def _class_of(fn, st, nid):
    n = fn.sn(nid)
    cv = n.get("cv")
    if cv is None:
        cv = fn.nodes[nid].get("cv")
    if cv is not None:
        return cls_of_const(cv)
    k = value_key(fn, nid)
    if k is not None:
        return st.get(k)
    if n["k"] == "un" and n["op"] == "-":
        c = _class_of(fn, st, n["sub"])
        return {POS: NEG, NEG: POS, ZERO: ZERO, NONNEG: NONPOS, NONPOS: NONNEG, NONZERO: NONZERO}.get(c)
    return None


_OUTC = {}


def outparam_consts(P, d):
    """{parameter index: constant} for pointer parameters through which d stores one and the same constant on every
    non-aborting path (timer_mgr_ack(mgr, &id) leaves id == -1).  Derived from d's body on every run."""
    if d.key in _OUTC:
        return _OUTC[d.key]
    _OUTC[d.key] = {}
    out = {}
    if not d.blocks:
        return out
    for i, p in enumerate(d.params):
        if "*" not in (p.get("t") or ""):
            continue
        consts, blocks, other = set(), set(), False
        for b, idx, e, lhs, rhs, op in d.stores():
            ln = d.nodes[d._strip0(lhs)]
            if ln["k"] == "un" and ln["op"] == "*":
                t = d.nodes[d._strip0(ln["sub"])]
                if t["k"] == "ref" and t.get("dk") == "param" and t["name"] == p["name"]:
                    cv = C.const_of(d, rhs) if (rhs is not None and op == "=") else None
                    if cv is None:
                        other = True
                    else:
                        consts.add(cv)
                        blocks.add(b.id)
        if other or len(consts) != 1:
            continue
        if C.must_pass(d, [d.entry], lambda bb, blocks=blocks: bb in blocks):
            out[i] = next(iter(consts))
    _OUTC[d.key] = out
    return out


def truth(fn, st, nid):
    """1 / 0 when the expression is known true / false on this path (a constant, or a variable whose sign class is known), else None"""
    v = C.const_of(fn, nid)
    if v is not None:
        return 1 if v else 0
    c = _class_of(fn, st, nid)
    if c in (POS, NEG, NONZERO):
        return 1
    if c == ZERO:
        return 0
    return None


LOGICAL = ("&&", "||")
COMPARE = ("==", "!=", "<", "<=", ">", ">=")


def _logical_node(fn, blk):
    """the `&&` / `||` node whose left operand is the condition of blk's terminator"""
    m = getattr(fn, "_logical_of", None)
    if m is None:
        m = {}
        for nid, n in fn.nodes.items():
            if n["k"] == "bin" and n["op"] in LOGICAL:
                m[n["l"]] = nid
                m.setdefault(fn._strip0(n["l"]), nid)
        fn._logical_of = m
    c = blk.term.get("cond")
    return m.get(c, m.get(fn._strip0(c)) if c is not None else None)


# calls a predicate helper may make and still be a plain condition over its arguments (value extractors, string tests)
PURE_IN_PREDICATES = {"__errno_location", "ERR_GET_LIB", "ERR_GET_REASON", "strlen", "strcmp", "strncmp", "__builtin_expect"}


def _is_predicate_helper(d):
    """a static function whose body is one `return <condition>;` over its parameters, errno and fields - no calls"""
    v = getattr(d, "_is_pred", None)
    if v is None:
        rets = [n for n in d.nodes.values() if n["k"] == "return"]
        calls = [n for n in d.nodes.values() if n["k"] == "call" and (n.get("callee") or "") not in PURE_IN_PREDICATES]
        stores = [n for n in d.nodes.values() if (n["k"] == "bin" and n["op"] in ("=", "+=", "-=", "|=", "&=")) or n["k"] == "decl"]
        v = bool(d.static and len(rets) == 1 and not calls and not stores and rets[0].get("sub") is not None
                 and _cond_shape(d, rets[0]["sub"]) is not None and len(d.nodes) < 60)
        d._is_pred = v
    return v


def _cond_shape(fn, nid):
    """the node of a condition-shaped expression (logical, comparison, negation) behind parens and implicit casts - no
    copy propagation - or None"""
    while True:
        n = fn.nodes[nid]
        if n["k"] in ("paren", "opaque") or (n["k"] == "cast" and n.get("implicit")):
            nid = n["sub"]
            continue
        break
    if (n["k"] == "bin" and n["op"] in LOGICAL + COMPARE) or (n["k"] == "un" and n["op"] == "!"):
        return nid
    return None


def _eval_cond(fn, st, nid):
    """1 / 0 / None: truth of a condition-shaped expression under the facts of this path (no hooks, no state change)"""
    cs = _cond_shape(fn, nid)
    if cs is not None:
        n = fn.nodes[cs]
        if n["k"] == "un":
            t = _eval_cond(fn, st, n["sub"])
            return None if t is None else 1 - t
        if n["op"] in LOGICAL:
            lv = st.get(("lv", cs))
            if lv in (ZERO, POS):
                return 0 if lv == ZERO else 1
            la = st.get(("la", cs))
            a = (0 if la == ZERO else 1) if la in (ZERO, POS) else _eval_cond(fn, st, n["l"])
            b = _eval_cond(fn, st, n["r"])
            if n["op"] == "&&":
                if a == 0 or b == 0:
                    return 0
                return 1 if a == 1 and b == 1 else None
            if a == 1 or b == 1:
                return 1
            return 0 if a == 0 and b == 0 else None
        l, op, r = n["l"], n["op"], n["r"]
        ea = errno_atom(fn, l, op, r)
        if ea:
            o, k = ea
            e = st.efact
            if e and e[0] == "eq":
                return (1 if e[1] == k else 0) if o == "==" else (0 if e[1] == k else 1)
            if e and e[0] == "ne" and k in e[1]:
                return 0 if o == "==" else 1
            return None
        c = C.const_of(fn, r)
        if c is None:
            return None
        want, have = cls_from_cmp(op, c), _class_of(fn, st, l)
        if want is None or have is None:
            return None
        m = meet(have, want)
        if m == "BOT":
            return 0
        # sign classes describe a comparison with 0 exactly; for another constant only the impossibility is decided
        return 1 if m == have and c == 0 else None
    return truth(fn, st, nid)


def _assume(rule, fn, st, blk, nid, want):
    """the state in which the condition-shaped expression has the given truth value (facts of its atoms applied through
    _branch, so the rule's hooks see them), or None when that is impossible on this path.  A disjunction of failures
    (`a && b` false with neither known) adds nothing."""
    cs = _cond_shape(fn, nid)
    if cs is None or not (fn.nodes[cs]["k"] == "bin" and fn.nodes[cs]["op"] in LOGICAL) and fn.nodes[cs]["k"] != "un":
        return _branch(rule, fn, st, blk, nid, "T" if want else "F")
    n = fn.nodes[cs]
    if n["k"] == "un":
        return _assume(rule, fn, st, blk, n["sub"], not want)
    conj = (n["op"] == "&&") == bool(want)        # both operands decided: `a && b` true, `a || b` false
    if conj:
        s1 = _assume(rule, fn, st, blk, n["l"], want)
        return None if s1 is None else _assume(rule, fn, s1, blk, n["r"], want)
    la = st.get(("la", cs))
    a = (0 if la == ZERO else 1) if la in (ZERO, POS) else _eval_cond(fn, st, n["l"])
    b = _eval_cond(fn, st, n["r"])
    if st.get(("lv", cs)) in (ZERO, POS):
        return st if (st.get(("lv", cs)) == POS) == bool(want) else None
    other = 1 if n["op"] == "&&" else 0             # the value that does NOT decide the operator
    if a is not None and a != other or b is not None and b != other:
        return st
    if a == other and b == other:
        return None
    if a == other:
        return _assume(rule, fn, st, blk, n["r"], want)
    if b == other:
        return _assume(rule, fn, st, blk, n["l"], want)
    return st


def _cond_temp(rule, fn, st, blk, vk, init):
    """`bool failed = call() < 0 && errno != EAGAIN;` - a named condition whose operands were evaluated on this path (a
    call among them, so copy propagation does not apply): the path forks on its truth, each side with the facts of
    the atoms, and the variable's class records the side.  -> list of states, or None when init has no such shape"""
    cs = _cond_shape(fn, init)
    if cs is None or blk is None or not any(fn.nodes[x]["k"] == "call" or fn.show(x) == "errno" for x in fn.walk(cs)):
        return None
    out = []
    for want in (True, False):
        s2 = _assume(rule, fn, st, blk, cs, want)
        if s2 is not None:
            out.append(s2.set(vk, POS if want else ZERO).set(("src", vk), None))
    return out


def _branch(rule, fn, st, blk, cond, lab):
    if lab in ("T", "F"):
        # a named condition whose truth this path has already decided (see _cond_temp)
        x, neg = cond, False
        while True:
            xn = fn.nodes[x]
            if xn["k"] in ("paren", "opaque") or (xn["k"] == "cast" and xn.get("implicit")):
                x = xn["sub"]
            elif xn["k"] == "un" and xn["op"] == "!":
                x, neg = xn["sub"], not neg
            else:
                break
        if xn["k"] == "ref" and xn.get("dk") == "local":
            vk = vkey(xn["name"], xn.get("did"))
            have = st.get(vk)
            if have in (POS, ZERO, NONZERO, NEG):
                m = meet(have, NONZERO if (lab == "T") != neg else ZERO)
                if m == "BOT":
                    return None
                u = rule.on_branch(fn, st, blk, cond, lab)
                if u is C.DEAD:
                    return None
                return st.with_user(u) if u is not None else st
        l, op, r = C.cond_atom(fn, cond, lab == "T")
        if not isinstance(l, tuple) and C.const_of(fn, r) == 0 and op in ("!=", "=="):
            cs = _cond_shape(fn, l)
            if cs is not None and fn.nodes[cs]["k"] == "bin" and fn.nodes[cs]["op"] in LOGICAL:
                # `bool both = a && b; if (both)`: read through to the operands
                s2 = _assume(rule, fn, st, blk, cs, op == "!=")
                if s2 is None:
                    return None
                u = rule.on_branch(fn, s2, blk, cond, lab)
                if u is C.DEAD:
                    return None
                return s2.with_user(u) if u is not None else s2
        c = C.const_of(fn, r)
        # errno facts
        ea = errno_atom(fn, l, op, r)
        if ea:
            o, k = ea
            u0 = rule.on_errno_use(fn, st, cond, "test")
            if u0 is not None:
                st = st.with_user(u0)
            e = st.efact
            if o == "==":
                if e and e[0] == "eq" and e[1] != k:
                    return None
                if e and e[0] == "ne" and k in e[1]:
                    return None
                st = st.errno_fact(("eq", k))
            else:
                if e and e[0] == "eq" and e[1] == k:
                    return None
                if e and e[0] == "eq":
                    pass
                elif e and e[0] == "ne":
                    st = st.errno_fact(("ne", e[1] | {k}))
                else:
                    st = st.errno_fact(("ne", frozenset([k])))
        elif c is not None:
            want = cls_from_cmp(op, c)
            k = value_key(fn, l)
            have = _class_of(fn, st, l)
            if want is not None:
                m = meet(have, want)
                if m == "BOT":
                    return None
                if k is not None and m is not None:
                    st = st.set(k, m)
                    # the variable assigned from the call shares its class
                    ln = fn.sn(l)
                    if ln["k"] == "bin" and ln["op"] == "=":
                        rk = value_key(fn, ln["r"])
                        if rk is not None:
                            st = st.set(rk, m)
                            k = rk
                    # failure of the call that set errno observed?
                    if m in (NEG, NONPOS, ZERO, NONZERO):
                        src = st.errno[0]
                        ck = k if isinstance(k, tuple) else st.get(("src", k))
                        if isinstance(ck, tuple) and ck[1] == src or ck == src:
                            st = st.with_errno((src, True, st.errno[2]))
    u = rule.on_branch(fn, st, blk, cond, lab)
    if u is C.DEAD:
        return None
    if u is not None:
        st = st.with_user(u)
    return st


def _elem(rule, fn, st, nid, depth, budget, stack, exits, top, blk=None):
    """-> list of successor states"""
    P = rule.prog
    n = fn.nodes[nid]
    k = n["k"]
    u = rule.on_elem(fn, st, nid)
    if u is C.DEAD:
        return []
    if u is not None:
        st = st.with_user(u)
    if k == "call":
        defs, exts = P.callees(fn, nid)
        if not (n.get("callee") or "").startswith("__builtin_") and (n.get("callee") or "") not in ("__errno_location",):
            st = st.drop_mem()
        # noreturn callee ends the path (block is flagged noreturn too)
        targets = [d for d in defs if rule.inline(fn, nid, d)] if depth < rule.max_depth else []
        # a predicate helper (`static bool would_block(int rc) { return rc < 0 && errno == EAGAIN; }`) is a named
        # condition: explored in place whatever the rule's inlining policy, like the macro it could have been
        if not targets and len(defs) == 1 and not exts and depth < max(rule.max_depth, 1) + 1 and _is_predicate_helper(defs[0]):
            targets = list(defs)
        targets = [d for d in targets if d not in stack]
        r = rule.on_call(fn, st, nid, defs, exts)
        if r is C.DEAD:
            return []
        forks = None
        if isinstance(r, list):
            forks = r
        elif r is not None:
            st = st.with_user(r)
        if not rule.errno_transparent(fn, nid, defs, exts) and not targets:
            st = st.with_errno((nid, False, None))
        if forks is not None:
            out = []
            for uu, rc in forks:
                s2 = st.with_user(uu)
                if rc is not None:
                    s2 = s2.set(("call", nid), rc)
                out.append(s2)
            return out
        if targets:
            out = []
            for d in targets:
                # bind argument classes to parameters
                s_in = st
                vals = set()
                for p, a in zip(d.params, n["args"]):
                    c = _class_of(fn, st, a)
                    if c is not None:
                        vals.add((vkey(p["name"], p.get("did")), c))
                s_call = St(frozenset(vals), st.errno, st.user)
                memo = getattr(rule, "_memo", None) if getattr(rule, "memo_calls", False) else None
                if memo is None and getattr(rule, "memo_calls", False):
                    memo = rule._memo = {}
                mk = (d, s_call, depth, frozenset(stack)) if memo is not None else None
                if memo is not None and mk in memo:
                    sub = memo[mk]
                else:
                    sub = _explore(rule, d, s_call, depth + 1, False, budget, stack + (fn,))
                    if memo is not None:
                        memo[mk] = sub
                for s_out, rc in sub:
                    s2 = St(st.vals, s_out.errno, s_out.user)
                    s2 = s2.set(("call", nid), rc)
                    out.append(s2)
            # non-inlined alternatives (other targets of an indirect call)
            if len(targets) < len(defs) or exts:
                c = rule.call_class(fn, st, nid, [d for d in defs if d not in targets], exts)
                out.append(st.with_errno((nid, False, None)).set(("call", nid), c))
            return list(set(out))
        c = rule.call_class(fn, st, nid, defs, exts)
        st = st.set(("call", nid), c)
        # constants a callee leaves behind its pointer arguments on every path
        if len(defs) == 1 and not exts:
            oc = outparam_consts(P, defs[0])
            for i, cv in oc.items():
                if i < len(n["args"]):
                    a = fn.nodes[fn._strip0(n["args"][i])]
                    if a["k"] == "un" and a["op"] == "&":
                        tgt = fn.nodes[fn._strip0(a["sub"])]
                        if tgt["k"] == "member" and tgt.get("field"):
                            st = st.set("M:" + fn.apath_str(a["sub"]), cls_of_const(cv))
                        elif tgt["k"] == "ref" and tgt.get("dk") in ("local", "param"):
                            st = st.set(vkey(tgt["name"], tgt.get("did")), cls_of_const(cv))
        return [st]
    if k == "bin" and n["op"] in ("=", "+=", "-=", "|=", "&=", "*=", "/="):
        ln = fn.sn(n["l"])
        if fn.show(n["l"]) == "errno":
            kk = C.const_of(fn, n["r"])
            st = st.with_errno(("assigned", True, ("eq", kk) if kk is not None and n["op"] == "=" else None))
        elif ln["k"] == "ref" and ln["dk"] in ("local", "param"):
            c = _class_of(fn, st, n["r"]) if n["op"] == "=" else None
            vk = vkey(ln["name"], ln.get("did"))
            st = st.set(vk, c)
            rk = value_key(fn, n["r"]) if n["op"] == "=" else None
            st = st.set(("src", vk), rk if isinstance(rk, tuple) else None)
        elif ln["k"] == "member" and ln["field"]:
            mk = "M:" + fn.apath_str(n["l"])
            c = _class_of(fn, st, n["r"]) if n["op"] == "=" else None
            st = st.drop_mem().set(mk, c)
        elif ln["k"] in ("un", "index"):
            st = st.drop_mem()
        if n["op"] == "=" and fn.show(n["r"]) == "errno":
            u0 = rule.on_errno_use(fn, st, nid, "read")
            if u0 is not None:
                st = st.with_user(u0)
        u = rule.on_store(fn, st, nid, n["l"], n["r"], n["op"])
        if u is C.DEAD:
            return []
        if u is not None:
            st = st.with_user(u)
        return [st]
    if k == "un" and n["op"] in ("++", "--", "post++", "post--"):
        ln = fn.sn(n["sub"])
        if ln["k"] == "ref":
            st = st.set(vkey(ln["name"], ln.get("did")), None)
        u = rule.on_store(fn, st, nid, n["sub"], None, n["op"])
        if u is C.DEAD:
            return []
        if u is not None:
            st = st.with_user(u)
        return [st]
    if k == "decl":
        if len(n["vars"]) == 1 and n["vars"][0].get("init") is not None:
            v = n["vars"][0]
            forks = _cond_temp(rule, fn, st, blk, vkey(v["name"], v.get("did")), v["init"])
            if forks is not None:
                return forks
        for v in n["vars"]:
            c = _class_of(fn, st, v["init"]) if v.get("init") is not None else None
            vk = vkey(v["name"], v.get("did"))
            st = st.set(vk, c)
            rk = value_key(fn, v["init"]) if v.get("init") is not None else None
            st = st.set(("src", vk), rk if isinstance(rk, tuple) else None)
            if v.get("init") is not None and fn.show(v["init"]) == "errno":
                u0 = rule.on_errno_use(fn, st, nid, "read")
                if u0 is not None:
                    st = st.with_user(u0)
        return [st]
    if k == "return":
        cs = _cond_shape(fn, n["sub"]) if n.get("sub") is not None and blk is not None else None
        if cs is not None and _eval_cond(fn, st, cs) is None:
            # `return a && b;` - a predicate helper: one exit per truth value, each with the facts of the atoms
            for want in (True, False):
                s2 = _assume(rule, fn, st, blk, cs, want)
                if s2 is not None:
                    if top or not _is_predicate_helper(fn):        # the exits of a predicate explored in place are no rule's business
                        rule.on_exit(fn, s2, nid, POS if want else ZERO, top)
                    exits.add((St(frozenset(), s2.errno, s2.user), POS if want else ZERO))
            return []
        rc = _class_of(fn, st, n["sub"]) if n.get("sub") is not None else None
        if rc is None and cs is not None:
            t = _eval_cond(fn, st, cs)
            rc = None if t is None else (POS if t else ZERO)
        if not top and _is_predicate_helper(fn):
            exits.add((St(frozenset(), st.errno, st.user), rc))
            return []
        rule.on_exit(fn, st, nid, rc, top)
        exits.add((St(frozenset(), st.errno, st.user), rc))
        return []
    return [st]
