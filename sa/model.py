"""Program model over the facts written by xcmfacts: functions with CFGs whose
elements are the sub-expressions in evaluation order, records, enums,
globals, and a field-based function-pointer resolution."""
import json
import os
import pickle
from collections import defaultdict

from . import extract as X

ASSIGN_OPS = {"=", "+=", "-=", "*=", "/=", "%=", "&=", "|=", "^=", "<<=", ">>="}


class Block:
    __slots__ = ("id", "elems", "succs", "term", "label", "noreturn", "preds")

    def __init__(self, d):
        self.id = d["id"]
        self.elems = d["elems"]
        self.succs = [s if isinstance(s, int) else None for s in d["succs"]]
        self.term = d.get("term")
        self.label = d.get("label")
        self.noreturn = d.get("noreturn", False)
        self.preds = []


COPY_PROPAGATION = not os.environ.get("VERIF_NO_COPYPROP")


class Function:
    def __init__(self, d, unit):
        self.d = d
        self.name = d["name"]
        self.unit = unit            # Unit object
        self.static = d["static"]
        self.params = d["params"]
        self.ret = d["ret"]
        self.attrs = d["attrs"]
        self.files = unit.files
        self.file = unit.files[d["loc"][0]] if d.get("loc") else unit.file
        self.line = d["loc"][1] if d.get("loc") else 0
        self.end_line = d["end"][1] if d.get("end") else 0
        self.macro = d.get("mac")
        self.nodes = {int(k): v for k, v in d.get("nodes", {}).items()}
        for i, n in self.nodes.items():
            n["id"] = i
        self.blocks = {b["id"]: Block(b) for b in d.get("blocks", [])}
        self.entry = d.get("entry")
        self.exit = d.get("exit")
        for b in self.blocks.values():
            for s in b.succs:
                if s is not None:
                    self.blocks[s].preds.append(b.id)
        self.key = None
        self._where = None
        self._parent = None

    def __repr__(self):
        return "<fn %s %s:%d>" % (self.name, self.file, self.line)

    @property
    def qname(self):
        return "%s:%s" % (os.path.basename(self.file), self.name)

    def n(self, nid):
        return self.nodes[nid]

    def loc(self, nid):
        n = self.nodes[nid] if isinstance(nid, int) else nid
        l = n.get("loc")
        if not l:
            return "%s:?" % self.file
        return "%s:%d" % (self.files[l[0]], l[1])

    def line_of(self, nid):
        n = self.nodes[nid] if isinstance(nid, int) else nid
        l = n.get("loc")
        return l[1] if l else 0

    # --- tree helpers -----------------------------------------------------
    def strip(self, nid, casts=True):
        """skip parens, implicit casts (and explicit casts if casts), opaque,
        statement-expression wrappers."""
        while True:
            n = self.nodes[nid]
            k = n["k"]
            if k == "paren" or k == "opaque":
                nid = n["sub"]
            elif k == "cast" and (casts or n["implicit"]):
                nid = n["sub"]
            elif k == "stmtexpr" and n.get("sub"):
                nid = n["sub"]
            elif k == "ref" and COPY_PROPAGATION and n.get("dk") == "local":
                src = self.copy_src(nid)
                if src is None:
                    return nid
                nid = src
            else:
                return nid

    def sn(self, nid, casts=True):
        return self.nodes[self.strip(nid, casts)]

    # --- copy propagation ---------------------------------------------------
    # A named temporary is not a change of behaviour: `bool failed = rc < 0; if (failed)`,
    # `enum conn_state state = bts->conn.state; if (state == ...)`, `struct mbuf *rbuf = &ts->conn.receive_mbuf;
    # mbuf_reset(rbuf)`.  A use of a local that has exactly one definition (its initialiser), is never assigned
    # again, whose address is never taken and whose initialiser is a pure expression is read through to that
    # initialiser - provided nothing the initialiser reads can change on any path from the definition to the use.
    PURE = ("ref", "member", "un", "bin", "cast", "paren", "index", "int", "char", "sizeof", "opaque")

    def _single_defs(self, any_shape=False):
        d = getattr(self, "_sdefs_any" if any_shape else "_sdefs", None)
        if d is not None:
            return d
        decls = {}      # did -> [(decl node, init)]
        bad = set()
        for nid, n in self.nodes.items():
            k = n["k"]
            if k == "decl":
                for v in n["vars"]:
                    decls.setdefault(v.get("did"), []).append((nid, v.get("init"), v.get("t") or ""))
            elif k == "bin" and n["op"] in ASSIGN_OPS:
                ln = self.nodes[self._strip0(n["l"])]
                if ln["k"] == "ref":
                    bad.add(ln.get("did"))
            elif k == "un" and n["op"] in ("++", "--", "post++", "post--", "&"):
                ln = self.nodes[self._strip0(n["sub"])]
                if ln["k"] == "ref":
                    bad.add(ln.get("did"))
        w = self.where()
        out = {}
        for did, ds in decls.items():
            if did is None or did in bad or len(ds) != 1:
                continue
            dn, init, t = ds[0]
            if init is None or dn not in w:
                continue
            if "[" in t or ((t.startswith("struct ") or t.startswith("union ") or t.startswith("const struct ")) and "*" not in t):
                continue
            if not self._pure(init) or not (any_shape or self._temp_shape(init)):
                continue
            out[did] = (dn, init)
        if any_shape:
            self._sdefs_any = out
        else:
            self._sdefs = out
        return out

    def _temp_shape(self, init):
        """the shapes of named temporaries that are read through: the result of a comparison / logical
        operation, the value of a field, the address of a sub-object.  (Pointer arithmetic - the TOxxx()
        private-data macros -, copies of parameters and arithmetic stay variables of their own.)"""
        top = self.nodes[self._strip0(init)]
        k = top["k"]
        if k == "bin":
            return top["op"] in ("==", "!=", "<", "<=", ">", ">=", "&&", "||")
        if k == "un" and top["op"] == "!":
            return True
        if k == "member":
            return bool(top.get("field"))
        if k == "un" and top["op"] == "&":
            x = self._strip0(top["sub"])
            m = self.nodes[x]
            if m["k"] != "member":
                return False
            while m["k"] == "member":
                x = self._strip0(m["base"])
                m = self.nodes[x]
            return m["k"] == "ref"
        return False

    def _strip0(self, nid):
        while True:
            n = self.nodes[nid]
            if n["k"] in ("paren", "opaque", "cast"):
                nid = n["sub"]
            else:
                return nid

    def _walk_values(self, nid):
        """like walk(), but a call is a leaf: its value was fixed when it was evaluated"""
        st = [nid]
        while st:
            i = st.pop()
            yield i
            if self.nodes[i]["k"] != "call":
                st.extend(reversed(self.children(i)))

    def _pure(self, nid):
        top = self.nodes[self._strip0(nid)]
        flag = (top["k"] == "bin" and top["op"] in ("==", "!=", "<", "<=", ">", ">=", "&&", "||")) or (top["k"] == "un" and top["op"] == "!")
        for x in self._walk_values(nid):
            n = self.nodes[x]
            k = n["k"]
            if k == "call" and flag and x != self._strip0(nid):
                continue        # `bool ok = f(...) == 0`: the temporary names the outcome of that one evaluation
            if k not in self.PURE:
                return False
            if k == "bin" and n["op"] in ASSIGN_OPS:
                return False
            if k == "un" and n["op"] in ("++", "--", "post++", "post--"):
                return False
            if k == "ref" and n.get("dk") == "function":
                return False
        return True

    def _reads(self, init):
        """(dids of locals/params read, reads memory?)"""
        dids, mem = set(), False
        for x in self._walk_values(init):
            n = self.nodes[x]
            if n["k"] == "call":
                continue
            if n["k"] == "ref":
                if n.get("dk") in ("local", "param"):
                    dids.add(n.get("did"))
                elif n.get("dk") not in ("enumconst", "function"):
                    mem = True
            elif n["k"] in ("member", "index") or (n["k"] == "un" and n["op"] == "*"):
                mem = True
        # `&a->b` alone computes an address and reads only the pointer a
        top = self.nodes[self._strip0(init)]
        if top["k"] == "un" and top["op"] == "&":
            inner = top["sub"]
            chain_ok = True
            x = self._strip0(inner)
            while True:
                m = self.nodes[x]
                if m["k"] == "member":
                    if m.get("arrow"):
                        b = self.nodes[self._strip0(m["base"])]
                        chain_ok = b["k"] == "ref"
                        break
                    x = self._strip0(m["base"])
                    continue
                chain_ok = m["k"] == "ref"
                break
            if chain_ok:
                mem = False
        return dids, mem

    def _clobbers(self, e, dids, mem):
        n = self.nodes[e]
        k = n["k"]
        if k == "call":
            c = n.get("callee") or ""
            if mem and not c.startswith("__builtin_") and c != "__errno_location":
                return True
            return False
        lhs = None
        if k == "bin" and n["op"] in ASSIGN_OPS:
            lhs = n["l"]
        elif k == "un" and n["op"] in ("++", "--", "post++", "post--"):
            lhs = n["sub"]
        if lhs is None:
            return False
        ln = self.nodes[self._strip0(lhs)]
        if ln["k"] == "ref":
            return ln.get("did") in dids
        return mem

    def def_expr(self, nid):
        """like copy_src, for any pure defining expression (arithmetic included): the initialiser of the single-definition
        local referenced at nid, if what it reads cannot have changed since.  Not applied by strip(); for engines that
        want to see `left` as `capacity - offset` at a test of `left`."""
        return self.copy_src(nid, any_shape=True)

    def copy_src(self, nid, any_shape=False):
        cname = "_csrc_any" if any_shape else "_csrc"
        cache = getattr(self, cname, None)
        if cache is None:
            cache = {}
            setattr(self, cname, cache)
        if nid in cache:
            return cache[nid]
        cache[nid] = None
        n = self.nodes[nid]
        sd = self._single_defs(any_shape).get(n.get("did"))
        if sd is None:
            return None
        dn, init = sd
        w = self.where()
        x = nid
        par = self.parents()
        while x is not None and x not in w:
            x = par.get(x)
        if x is None:
            return None
        ub, ui = w[x]
        db, di = w[dn]
        dids, mem = self._reads(init)
        # operands whose address is taken anywhere may change behind our back
        for m in self.nodes.values():
            if m["k"] == "un" and m["op"] == "&":
                ln = self.nodes[self._strip0(m["sub"])]
                if ln["k"] == "ref" and ln.get("did") in dids:
                    mem = True
        between = []
        if ub == db and ui > di:
            between = list(self.blocks[db].elems[di + 1:ui])
        else:
            # blocks on a path from the definition to the use that does not pass the definition again
            fwd, st = set(), [s_ for s_ in self.blocks[db].succs if s_ is not None]
            while st:
                b = st.pop()
                if b in fwd or b == db:
                    continue
                fwd.add(b)
                st.extend(s_ for s_ in self.blocks[b].succs if s_ is not None)
            bwd, st = set(), [ub]
            while st:
                b = st.pop()
                if b in bwd or b == db:
                    continue
                bwd.add(b)
                st.extend(self.blocks[b].preds)
            if ub not in fwd:
                return None       # the use is not dominated in the simple sense (e.g. use before definition in a loop)
            between = list(self.blocks[db].elems[di + 1:])
            for b in fwd & bwd:
                if b == ub:
                    between.extend(self.blocks[b].elems[:ui])
                    # the use block may also lie on a cycle back to itself
                    if any(p in fwd and p in bwd and ub in self._reach_from(ub, db) for p in self.blocks[ub].preds if p == ub):
                        between.extend(self.blocks[b].elems[ui:])
                else:
                    between.extend(self.blocks[b].elems)
            if ub in self._reach_from(ub, db):
                between.extend(self.blocks[ub].elems[ui:])     # the use sits in a loop that does not re-run the definition
        for e in between:
            if self._clobbers(e, dids, mem):
                return None
        cache[nid] = init
        return init

    def origin(self, nid, _depth=0):
        """where a value comes from: parens/casts stripped, and a local that is defined exactly once (by its
        initialiser or by one assignment), never modified and never address-taken is followed to the defining
        expression - whatever that is (a call result is fixed once evaluated).  For rules that ask "is this
        argument the result of f()" and must not care whether the result was given a name first."""
        x = self.strip(nid)
        n = self.nodes[x]
        if n["k"] != "ref" or n.get("dk") != "local" or _depth > 6:
            return x
        od = getattr(self, "_odefs", None)
        if od is None:
            defs, bad = {}, set()
            for i, m in self.nodes.items():
                k = m["k"]
                if k == "decl":
                    for v in m["vars"]:
                        if v.get("init") is not None:
                            defs.setdefault(v.get("did"), []).append(v["init"])
                elif k == "bin" and m["op"] in ASSIGN_OPS:
                    ln = self.nodes[self._strip0(m["l"])]
                    if ln["k"] == "ref":
                        if m["op"] == "=":
                            defs.setdefault(ln.get("did"), []).append(m["r"])
                        else:
                            bad.add(ln.get("did"))
                elif k == "un" and m["op"] in ("++", "--", "post++", "post--", "&"):
                    ln = self.nodes[self._strip0(m["sub"])]
                    if ln["k"] == "ref":
                        bad.add(ln.get("did"))
            od = self._odefs = {d: v[0] for d, v in defs.items() if len(v) == 1 and d not in bad and d is not None}
        src = od.get(n.get("did"))
        if src is None:
            return x
        return self.origin(src, _depth + 1)

    def _reach_from(self, b0, stop):
        """blocks reachable from the successors of b0 without passing `stop`"""
        seen, st = set(), [s_ for s_ in self.blocks[b0].succs if s_ is not None]
        while st:
            b = st.pop()
            if b in seen or b == stop:
                continue
            seen.add(b)
            st.extend(s_ for s_ in self.blocks[b].succs if s_ is not None)
        return seen

    def children(self, nid):
        n = self.nodes[nid]
        k = n["k"]
        if k == "call":
            return [n["fn"]] + list(n["args"])
        if k == "atomic":
            return list(n["args"])
        if k == "member":
            return [n["base"]]
        if k == "bin":
            return [n["l"], n["r"]]
        if k in ("un", "cast", "paren", "opaque", "compound", "vaarg"):
            return [n["sub"]]
        if k in ("stmtexpr", "return"):
            return [n["sub"]] if n.get("sub") else []
        if k == "index":
            return [n["base"], n["idx"]]
        if k == "cond":
            return [n["c"], n["tv"], n["fv"]]
        if k == "bincond":
            return [n["c"], n["fv"]]
        if k == "init":
            return list(n["elems"])
        if k == "decl":
            return [v["init"] for v in n["vars"] if v.get("init")]
        if k == "sizeof":
            return []      # unevaluated
        if k.startswith("S:"):
            return list(n["ch"])
        return []

    def walk(self, nid):
        """all nodes of the expression tree rooted at nid (pre-order)."""
        st = [nid]
        while st:
            i = st.pop()
            yield i
            st.extend(reversed(self.children(i)))

    def where(self):
        """node id -> (block id, index) for CFG elements."""
        if self._where is None:
            w = {}
            for b in self.blocks.values():
                for i, e in enumerate(b.elems):
                    w.setdefault(e, (b.id, i))
            self._where = w
        return self._where

    def parents(self):
        if self._parent is None:
            p = {}
            for i in self.nodes:
                for c in self.children(i):
                    p.setdefault(c, i)
            self._parent = p
        return self._parent

    def elems(self):
        """(block, index, node id) of all elements, block by block."""
        for b in self.blocks.values():
            for i, e in enumerate(b.elems):
                yield b, i, e

    def calls(self, name=None):
        for b, i, e in self.elems():
            n = self.nodes[e]
            if n["k"] == "call" and (name is None or n.get("callee") == name):
                yield e

    # --- printing ---------------------------------------------------------
    def show(self, nid, depth=0):
        n = self.nodes[nid]
        k = n["k"]
        if depth > 40:
            return "..."
        s = lambda i: self.show(i, depth + 1)
        if (n.get("imac") or n.get("mac")) == "errno" and k in ("paren", "un", "cast", "call"):
            return "errno"
        if k in ("paren", "opaque"):
            return s(n["sub"])
        if k == "cast":
            if n["implicit"]:
                return s(n["sub"])
            return "(%s)%s" % (n.get("t", "?"), s(n["sub"]))
        if k == "ref":
            return n["name"]
        if k == "member":
            if not n["field"]:
                return s(n["base"])
            b, arrow = n["base"], n["arrow"]
            bn = self.nodes[self.strip(b)]
            while bn["k"] == "member" and not bn["field"]:
                arrow = bn["arrow"]
                bn = self.nodes[self.strip(bn["base"])]
            return "%s%s%s" % (s(b), "->" if arrow else ".", n["field"])
        if k == "call":
            return "%s(%s)" % (n.get("callee") or s(n["fn"]), ", ".join(s(a) for a in n["args"]))
        if k == "bin":
            return "%s %s %s" % (s(n["l"]), n["op"], s(n["r"]))
        if k == "un":
            op = n["op"]
            if op.startswith("post"):
                return s(n["sub"]) + op[4:]
            return op + s(n["sub"])
        if k in ("int", "char"):
            return str(n["v"])
        if k == "str":
            return json.dumps(n.get("v", ""))
        if k == "index":
            return "%s[%s]" % (s(n["base"]), s(n["idx"]))
        if k == "sizeof":
            return "sizeof(%s)" % (n.get("argt") or (s(n["arg"]) if n.get("arg") else "?"))
        if k == "cond":
            return "%s ? %s : %s" % (s(n["c"]), s(n["tv"]), s(n["fv"]))
        if k == "stmtexpr":
            return "({%s})" % (s(n["sub"]) if n.get("sub") else "")
        if k == "return":
            return "return %s" % (s(n["sub"]) if n.get("sub") else "")
        if k == "decl":
            return "; ".join("%s %s%s" % (v.get("t"), v["name"], (" = " + s(v["init"])) if v.get("init") else "") for v in n["vars"])
        if k == "init":
            return "{%s}" % ", ".join(s(e) for e in n["elems"])
        if k == "compound":
            return s(n["sub"])
        if k == "atomic":
            return "__atomic(%s)" % ", ".join(s(a) for a in n["args"])
        return "<%s>" % k

    # --- access paths -------------------------------------------------------
    def apath(self, nid):
        """Access path of an lvalue-ish expression as a tuple:
        (root, f1, f2, ...) where root is ('var', did, name) / ('call', name) /
        ('expr',); '*' and '[]' steps are kept as strings.  '->' and '.' are
        not distinguished."""
        nid = self.strip(nid)
        n = self.nodes[nid]
        k = n["k"]
        if k == "ref":
            return (("var", n["did"], n["name"]),)
        if k == "member":
            if not n["field"]:
                return self.apath(n["base"])
            return self.apath(n["base"]) + (n["field"],)
        if k == "index":
            return self.apath(n["base"]) + ("[]",)
        if k == "un" and n["op"] == "*":
            return self.apath(n["sub"]) + ("*",)
        if k == "un" and n["op"] == "&":
            p = self.apath(n["sub"])
            return p + ("&",)
        if k == "call":
            return (("call", n.get("callee") or "?"),)
        return (("expr", nid),)

    def apath_str(self, nid):
        p = self.apath(nid)
        r = p[0]
        s = r[2] if r[0] == "var" else (r[1] + "()" if r[0] == "call" else "<expr>")
        for f in p[1:]:
            s += f if f in ("[]", "*", "&") else "." + f
        return s

    def fields_of(self, nid):
        """field-name chain of an access path (no root), e.g. ('conn','state')."""
        return tuple(f for f in self.apath(nid)[1:] if f not in ("[]", "*", "&"))

    # --- stores -------------------------------------------------------------
    def stores(self):
        """yield (block, idx, node id, lhs id, rhs id|None, op) for every store."""
        for b, i, e in self.elems():
            n = self.nodes[e]
            k = n["k"]
            if k == "bin" and n["op"] in ASSIGN_OPS:
                yield b, i, e, n["l"], n["r"], n["op"]
            elif k == "un" and n["op"] in ("++", "--", "post++", "post--"):
                yield b, i, e, n["sub"], None, n["op"]
            elif k == "decl":
                pass


class Unit:
    def __init__(self, meta, facts):
        self.file = meta["file"]
        self.product = meta["product"]
        self.args = meta["args"]
        self.files = [os.path.normpath(x) for x in facts["files"]]
        self.records = facts["records"]
        self.enums = facts["enums"]
        self.globals = facts["globals"]
        for g in self.globals:
            if "nodes" in g:
                g["nodes"] = {int(k): v for k, v in g["nodes"].items()}
                for i, n in g["nodes"].items():
                    n["id"] = i
        self.typedefs = facts["typedefs"]
        self.fundecls = facts["fundecls"]
        self.functions = [Function(f, self) for f in facts["functions"]]

    def __repr__(self):
        return "<unit %s/%s>" % (self.product, self.file)


class GlobalInit:
    """tiny adapter so Function-style helpers work on a global's initialiser"""

    def __init__(self, g, unit):
        self.nodes = g.get("nodes", {})
        self.files = unit.files
        self.file = unit.file
        self.name = "<init of %s>" % g["name"]
        self.unit = unit

    strip = Function.strip
    sn = Function.sn
    children = Function.children
    walk = Function.walk
    show = Function.show
    loc = Function.loc


class Program:
    def __init__(self, products=("libxcm", "libxcmctl")):
        d, metas, wall = X.extract()
        self.extract_wall = wall
        self.factdir = d
        self.products = tuple(products)
        pk = os.path.join(d, "model-%s.pickle" % "-".join(self.products))
        units = None
        if os.path.exists(pk):
            try:
                units = pickle.load(open(pk, "rb"))
            except Exception:
                units = None
        if units is None:
            units = []
            for m in metas:
                if m["product"] not in self.products:
                    continue
                facts = json.load(open(os.path.join(d, m["facts"])))
                if facts.get("errors"):
                    raise X.AnalysisBroken("clang reported %d errors in %s" % (facts["errors"], m["file"]))
                units.append(Unit(m, facts))
            try:
                import sys
                sys.setrecursionlimit(100000)
                pickle.dump(units, open(pk + ".tmp%d" % os.getpid(), "wb"), protocol=pickle.HIGHEST_PROTOCOL)
                os.rename(pk + ".tmp%d" % os.getpid(), pk)
            except Exception:
                pass
        from . import anchors as A
        self.aliases = A.canonicalise(units)      # renamed functions get their reference names back (see anchors.py)
        A.APPLIED[:] = sorted(set(A.APPLIED) | set(self.aliases))
        from . import inline as INL
        self.expanded = INL.expand_setters(units)  # field-setter helpers are spliced into their callers (see inline.py)
        self.units = units
        self.all_metas = metas
        self._index()

    def _index(self):
        self.functions = []          # unique function definitions
        self.by_name = defaultdict(list)
        self.by_unit_name = {}
        seen_hdr = {}
        seen_src = {}
        for u in self.units:
            for f in u.functions:
                # functions defined in headers (static inline): one copy
                if not f.file.endswith(".c"):
                    k = (f.file, f.name)
                    if k in seen_hdr:
                        self.by_unit_name[(u.file, u.product, f.name)] = seen_hdr[k]
                        continue
                    seen_hdr[k] = f
                else:
                    # a unit compiled into two products (common/util.c): one copy
                    k = (f.file, f.name)
                    if k in seen_src and seen_src[k][1] != (u.file, u.product):
                        self.by_unit_name[(u.file, u.product, f.name)] = seen_src[k][0]
                        continue
                    seen_src.setdefault(k, (f, (u.file, u.product)))
                f.key = (f.file, f.name) if f.static else (f.name,)
                self.functions.append(f)
                self.by_name[f.name].append(f)
                self.by_unit_name[(u.file, u.product, f.name)] = f
        self.records = {}
        self.enums = {}
        self.enum_consts = {}
        for u in self.units:
            for r in u.records:
                if r["name"]:
                    self.records.setdefault(r["name"], r)
            for e in u.enums:
                if e["name"]:
                    self.enums.setdefault(e["name"], e)
                for c in e["constants"]:
                    self.enum_consts[c["name"]] = (e["name"], c["value"])
        self.globals = []
        seen = set()
        for u in self.units:
            for g in u.globals:
                if g["extern"] and "init" not in g:
                    continue
                k = (u.files[g["loc"][0]], g["loc"][1], g["name"])
                if k in seen:
                    continue
                seen.add(k)
                g["_unit"] = u
                g["file"] = u.files[g["loc"][0]]
                g["line"] = g["loc"][1]
                self.globals.append(g)
        self._fp = None
        self._callers = None

    def api_symbols(self):
        """exported symbols of libxcm: the linker version script of the build"""
        import re
        p = os.path.join(X.REPO, "libxcm/libxcm.vs")
        try:
            txt = open(p).read()
        except OSError:
            raise X.AnalysisBroken("anchor vanished: libxcm/libxcm.vs")
        syms = set(re.findall(r"^\s*([A-Za-z_][A-Za-z_0-9]*);", txt, re.M))
        if len(syms) < 40:
            raise X.AnalysisBroken("version script lists only %d symbols" % len(syms))
        return syms

    # --- lookups ------------------------------------------------------------
    def fn(self, name, file=None):
        """the unique definition of `name` (optionally in file ending with `file`)."""
        c = self.by_name.get(name, [])
        if file:
            c = [f for f in c if f.file.endswith(file)]
        if len(c) == 1:
            return c[0]
        if not c:
            raise X.AnalysisBroken("anchor vanished: function %s%s not found" % (name, " in " + file if file else ""))
        raise X.AnalysisBroken("ambiguous function %s: %s" % (name, [f.file for f in c]))

    def fn_opt(self, name, file=None):
        c = self.by_name.get(name, [])
        if file:
            c = [f for f in c if f.file.endswith(file)]
        return c[0] if len(c) == 1 else None

    def fns_in(self, file):
        return [f for f in self.functions if f.file.endswith(file)]

    def resolve_direct(self, fn, callee_name):
        """definition called by a direct call to `callee_name` from fn."""
        f = self.by_unit_name.get((fn.unit.file, fn.unit.product, callee_name))
        if f is not None:
            return f
        c = [g for g in self.by_name.get(callee_name, []) if not g.static]
        if len(c) >= 1:
            return c[0]
        # static inline in a header seen from another unit copy
        c = [g for g in self.by_name.get(callee_name, []) if not g.file.endswith(".c")]
        return c[0] if c else None

    def record(self, name):
        r = self.records.get(name)
        if r is None:
            raise X.AnalysisBroken("anchor vanished: record %s" % name)
        return r

    def enum(self, name):
        e = self.enums.get(name)
        if e is None:
            raise X.AnalysisBroken("anchor vanished: enum %s" % name)
        return e

    # --- function pointer resolution (field-based, flow-insensitive) ---------
    def fp(self):
        if self._fp is None:
            self._fp = FuncPtr(self)
        return self._fp

    def callees(self, fn, call_nid):
        """set of Function definitions a call node may invoke, plus the set of
        names of external (undefined here) callees."""
        n = fn.nodes[call_nid]
        if n.get("callee"):
            d = self.resolve_direct(fn, n["callee"])
            return ([d] if d else []), ([] if d else [n["callee"]])
        return self.fp().targets(fn, n["fn"]), self.fp().ext_targets(fn, n["fn"])

    def callers(self):
        """callee Function -> list of (caller Function, call node id)"""
        if self._callers is None:
            c = defaultdict(list)
            for f in self.functions:
                for b, i, e in f.elems():
                    n = f.nodes[e]
                    if n["k"] == "call":
                        defs, _ = self.callees(f, e)
                        for d in defs:
                            c[d].append((f, e))
            self._callers = c
        return self._callers


def is_fnptr_type(n):
    t = n.get("ct") or n.get("t") or ""
    return "(*" in t or (")(" in t) or t.endswith(")") and "(" in t


class FuncPtr:
    """Andersen-style, field-based propagation of function addresses."""

    def __init__(self, prog):
        self.prog = prog
        self.edges = defaultdict(set)     # src loc -> dst locs
        self.consts = defaultdict(set)    # loc -> {Function}
        self.fnlocs = {}
        self._build()
        self._solve()

    def _locs(self, fn, nid, depth=0):
        """locations / constants an expression may evaluate to -> list of
        ('F', Function) or location tuples."""
        if depth > 30:
            return []
        n = fn.nodes[nid]
        k = n["k"]
        if k in ("paren", "cast", "opaque", "compound"):
            return self._locs(fn, n["sub"], depth + 1)
        if k == "un" and n["op"] in ("&", "*"):
            return self._locs(fn, n["sub"], depth + 1)
        if k == "ref":
            if n["dk"] == "function":
                d = self.prog.resolve_direct(fn, n["name"]) if isinstance(fn, Function) else self._resolve_g(fn, n["name"])
                return [("F", d)] if d else [("X", n["name"])]
            if n["dk"] == "param":
                return [("var", fn.name, getattr(fn, "file", ""), n["name"])]
            if n["dk"] in ("local", "static_local"):
                return [("var", fn.name, getattr(fn, "file", ""), n["name"])]
            return [("g", n["name"])]
        if k == "member":
            return [("f", n.get("record") or "?", n["field"])]
        if k == "index":
            return self._locs(fn, n["base"], depth + 1)
        if k == "call":
            if n.get("callee"):
                d = self.prog.resolve_direct(fn, n["callee"])
                if d:
                    return [("ret", d.key)]
            return []
        if k == "cond":
            return self._locs(fn, n["tv"], depth + 1) + self._locs(fn, n["fv"], depth + 1)
        if k == "stmtexpr" and n.get("sub"):
            return self._locs(fn, n["sub"], depth + 1)
        return []

    def _resolve_g(self, gi, name):
        u = gi.unit
        f = self.prog.by_unit_name.get((u.file, u.product, name))
        if f:
            return f
        c = [g for g in self.prog.by_name.get(name, []) if not g.static]
        return c[0] if c else None

    def _flow(self, fn, dst_locs, src_nid):
        sn = fn.nodes[fn.strip(src_nid)]
        if sn["k"] == "compound":
            sn = fn.nodes[fn.strip(sn["sub"])]
        if sn["k"] == "init":
            return self._init_flow(fn, sn["id"], dst_locs)
        for s in self._locs(fn, src_nid):
            for d in dst_locs:
                if s[0] == "F":
                    self.consts[d].add(s[1])
                elif s[0] == "X":
                    self.consts[d].add(("ext", s[1]))
                else:
                    self.edges[s].add(d)

    def _init_flow(self, fn, nid, dst_locs):
        """initialiser nid flows into dst (handles nested init lists)."""
        n = fn.nodes[nid]
        if n["k"] == "init":
            rec = n.get("record")
            if rec is not None and n.get("fields"):
                for fname, e in zip(n["fields"], n["elems"]):
                    self._init_flow(fn, e, [("f", rec, fname)])
            else:
                for e in n["elems"]:
                    self._init_flow(fn, e, dst_locs)
            return
        if n["k"] in ("paren", "cast", "compound"):
            return self._init_flow(fn, n["sub"], dst_locs)
        self._flow(fn, dst_locs, nid)

    def _build(self):
        P = self.prog
        for g in P.globals:
            if "init" in g:
                gi = GlobalInit(g, g["_unit"])
                self._init_flow(gi, g["init"], [("g", g["name"])])
        for f in P.functions:
            for i, p in enumerate(f.params):
                self.fnlocs[(f.key, i)] = ("var", f.name, f.file, p["name"])
            for nid, n in f.nodes.items():
                k = n["k"]
                if k == "bin" and n["op"] == "=":
                    self._flow(f, [l for l in self._locs(f, n["l"]) if l[0] not in ("F", "X")], n["r"])
                elif k == "decl":
                    for v in n["vars"]:
                        if v.get("init"):
                            self._init_flow(f, v["init"], [("var", f.name, f.file, v["name"])])
                elif k == "return" and n.get("sub"):
                    self._flow(f, [("ret", f.key)], n["sub"])
                elif k == "call":
                    self._call_edges(f, n)
        # indirect calls: arguments flow to params of every target; done in
        # _solve iteratively

    def _call_edges(self, f, n, targets=None):
        if targets is None:
            if not n.get("callee"):
                return
            d = self.prog.resolve_direct(f, n["callee"])
            targets = [d] if d else []
        for d in targets:
            for i, a in enumerate(n["args"]):
                if i < len(d.params):
                    self._flow(f, [("var", d.name, d.file, d.params[i]["name"])], a)

    def _propagate(self):
        work = list(self.consts.keys())
        while work:
            l = work.pop()
            vals = self.consts[l]
            for d in self.edges.get(l, ()):
                before = len(self.consts[d])
                self.consts[d] |= vals
                if len(self.consts[d]) != before:
                    work.append(d)

    def _solve(self):
        self._propagate()
        # indirect call sites: bind arguments to resolved targets, iterate
        for _ in range(4):
            changed = False
            for f in self.prog.functions:
                for nid, n in f.nodes.items():
                    if n["k"] == "call" and not n.get("callee"):
                        t = self.targets(f, n["fn"])
                        key = (f.key, nid)
                        prev = self._bound.get(key, 0) if hasattr(self, "_bound") else 0
                        if not hasattr(self, "_bound"):
                            self._bound = {}
                        if len(t) != prev:
                            self._bound[key] = len(t)
                            self._call_edges(f, n, t)
                            # returns of targets are not needed (no fn ptrs returned through indirect calls)
                            changed = True
            if not changed:
                break
            self._propagate()

    def targets_all(self, fn, callee_nid):
        out = []
        seen = set()
        for l in self._locs(fn, callee_nid):
            if l[0] == "F":
                if l[1] not in seen:
                    seen.add(l[1])
                    out.append(l[1])
            elif l[0] == "X":
                if ("ext", l[1]) not in seen:
                    seen.add(("ext", l[1]))
                    out.append(("ext", l[1]))
            else:
                for d in self.consts.get(l, ()):
                    if d not in seen:
                        seen.add(d)
                        out.append(d)
        return out

    def targets(self, fn, callee_nid):
        return [t for t in self.targets_all(fn, callee_nid) if not isinstance(t, tuple)]

    def ext_targets(self, fn, callee_nid):
        return [t[1] for t in self.targets_all(fn, callee_nid) if isinstance(t, tuple)]

    def values(self, loc):
        return set(v for v in self.consts.get(loc, ()) if not isinstance(v, tuple))

    def field(self, record, field):
        return self.values(("f", record, field))
