"""Small interprocedural summaries, so that extracting a few statements into a
helper (or inlining one) does not change what a rule sees.

must_call_params  - which pointer parameters a function hands, on every
                    non-aborting path, to one of the named functions (directly
                    or through another such wrapper): `close both and report`
                    helpers count as closers of their arguments.
guarded           - is a call executed only under a condition?  In its own
                    function, or - when the function is a helper - at every
                    one of its call sites, transitively.
owner_name        - the reference-tree function a construct belongs to: a
                    helper that did not exist on the reference tree and has a
                    single caller is accounted to that caller (keys of known
                    findings survive an extract-function refactoring).
"""
from . import anchors as A
from . import cfg as C


def must_call_params(P, d, names, argpos=0, depth=3, _memo=None):
    memo = _memo if _memo is not None else {}
    k = (d.key, tuple(sorted(names)), argpos)
    if k in memo:
        return memo[k]
    memo[k] = set()
    if depth < 0 or not d.blocks:
        return set()
    res = set()
    for i, p in enumerate(d.params):
        hit = set()
        for b, idx, e in d.elems():
            n = d.nodes[e]
            if n["k"] != "call":
                continue
            cal = n.get("callee") or ""
            poss = []
            if cal in names and len(n["args"]) > argpos:
                poss.append(argpos)
            else:
                defs, _ = P.callees(d, e)
                for g in defs:
                    if g is not d:
                        poss.extend(must_call_params(P, g, names, argpos, depth - 1, memo))
            for j in poss:
                if j < len(n["args"]):
                    a = d.nodes[d.origin(n["args"][j])]
                    if a["k"] == "ref" and a.get("dk") == "param" and a["name"] == p["name"]:
                        hit.add(b.id)
        if hit and C.must_pass(d, [d.entry], lambda bb, hit=hit: bb in hit):
            res.add(i)
    memo[k] = res
    return res


def guarded(P, f, nid, pred, depth=4, _seen=None):
    """True iff element nid of f runs only when a condition satisfying pred(fn, cond) took its true edge - in f,
    or at every call site of f (transitively; a function without callers, or one whose address is taken, is not guarded)"""
    seen = _seen if _seen is not None else set()
    w = f.where()
    x = nid
    par = f.parents()
    while x is not None and x not in w:
        x = par.get(x)
    if x is None:
        return False
    wb = w[x][0]
    for b, cond in C.cond_blocks(f):
        lab = pred(f, cond)        # True / "T": the true edge establishes the guard; "F": the false edge does
        if lab and wb in C.only_via_edge(f, b, "F" if lab == "F" else "T"):
            return True
    if depth <= 0 or f.key in seen:
        return False
    seen.add(f.key)
    callers = P.callers().get(f, [])
    if not callers or not f.static:
        return False
    return all(guarded(P, g, c, pred, depth - 1, seen) for g, c in callers)


_REF = None


def owner_name(P, f, depth=4):
    global _REF
    if _REF is None:
        _REF = A.load()
    ref = _REF.get(f.file)
    if ref is None or f.name in ref or depth <= 0:
        return f.name
    callers = {g for g, c in P.callers().get(f, [])}
    if len(callers) != 1:
        return f.name
    return owner_name(P, next(iter(callers)), depth - 1)
