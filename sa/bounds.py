"""E2 - bounded-write analysis.

Facts are difference constraints  t1 <= t2 + c  over canonical terms (strings
of cast-stripped expressions, plus cap(<pointer term>) for the capacity in
bytes behind a pointer and strlen(<term>)).  A forward must-analysis (join =
weakest common bound on the closure) computes the facts before every CFG
element.  Every sink (memcpy & co, array stores with a constant bound, calls
into functions that write through a pointer parameter) yields a goal
size <= capacity; a goal that cannot be proved from the facts is *abduced*
into a requirement over the function's parameters (capacity <= cap(buf),
strlen(s) <= K, K <= cap(buf)) which is then an obligation at every call
site.  A requirement that reaches a root (an API entry or a function-pointer
slot with a fixed contract) is a violation reported at the originating sink.
"""
import re
from collections import defaultdict

from . import cfg as C

ZERO = "0"
INF = float("inf")

PURE_EXT = {"X509_get0_subject_key_id", "ASN1_STRING_length", "ASN1_STRING_get0_data", "SSL_get_verify_result", "SSL_has_pending",
            "strlen", "strcmp", "strncmp", "memcmp", "strchr", "strrchr", "strchrnul", "strstr", "htonl", "ntohl", "htons", "ntohs",
            "__errno_location", "__builtin_expect", "abort", "__assert_fail", "getpid", "strerror", "isdigit", "__ctype_b_loc",
            "strtol", "strtoll", "strtoul", "atoi", "free", "getenv", "clock_gettime", "fprintf", "fputs", "fflush", "vfprintf",
            "strnlen", "memchr", "strcasecmp", "strdup", "strndup", "malloc", "calloc", "close", "unlink", "syscall",
            "pthread_mutex_lock", "pthread_mutex_unlock", "epoll_ctl", "setsockopt", "bind", "listen", "connect", "send",
            "shutdown", "poll", "fcntl", "__builtin_va_start", "__builtin_va_end", "socket", "eventfd", "timerfd_settime",
            "ares_strerror", "inet_pton", "regcomp", "regexec", "regfree", "fclose", "fopen", "ferror", "stat", "lstat",
            "opendir", "closedir", "exit", "__xpg_basename", "X509_free", "ERR_clear_error", "ERR_get_error", "ERR_peek_error"}
# repo functions trusted not to modify analysed state (logging)
PURE_REPO = {"__log_event", "log_is_enabled", "log_console_conf", "ut_free", "ut_fatal", "ut_mem_exhausted", "log_sock_attr_tree",
             "ut_malloc", "ut_calloc", "ut_strdup", "ut_memdup", "ut_close", "ut_close_if_valid"}

ALLOC = {"ut_malloc": 0, "ut_calloc": 0, "malloc": 0, "alloca": 0, "__builtin_alloca": 0, "ut_realloc": 1, "realloc": 1}

# external sinks: name -> (dest arg index, size spec)
#   ('arg', i) bytes = value of argument i; ('strlen1', i) = strlen(arg i)+1; ('deref', i) = *arg i
SINKS = {
    "memcpy": (0, ("arg", 2)), "memmove": (0, ("arg", 2)), "memset": (0, ("arg", 2)),
    "__builtin_memcpy": (0, ("arg", 2)), "__builtin_memset": (0, ("arg", 2)), "__builtin_memmove": (0, ("arg", 2)),
    "strcpy": (0, ("strlen1", 1)), "stpcpy": (0, ("strlen1", 1)), "__builtin_strcpy": (0, ("strlen1", 1)),
    "strncpy": (0, ("arg", 2)), "__builtin_strncpy": (0, ("arg", 2)),
    "snprintf": (0, ("arg", 1)), "vsnprintf": (0, ("arg", 1)), "__builtin_snprintf": (0, ("arg", 1)),
    "recv": (1, ("arg", 2)), "read": (1, ("arg", 2)), "SSL_read": (1, ("arg", 2)), "recvfrom": (1, ("arg", 2)),
    "inet_ntop": (2, ("arg", 3)),
    "getsockname": (1, ("deref", 2)), "getpeername": (1, ("deref", 2)), "accept": (1, ("deref", 2)), "accept4": (1, ("deref", 2)),
    "getsockopt": (3, ("deref", 4)),
    "fread": (0, ("mul", 1, 2)),
    "strcat": (0, ("unbounded",)), "sprintf": (0, ("unbounded",)), "vsprintf": (0, ("unbounded",)), "gets": (0, ("unbounded",)),
    "X509_NAME_get_text_by_NID": (2, ("arg", 3)),
    "ERR_error_string_n": (1, ("arg", 2)),
}


def lin_add(a, b, sign=1):
    if a is None or b is None:
        return None
    t = dict(a[0])
    for k, v in b[0].items():
        t[k] = t.get(k, 0) + sign * v
        if t[k] == 0:
            del t[k]
    return (t, a[1] + sign * b[1])


def lin_const(k):
    return ({}, k)


def lin_term(t):
    return ({t: 1}, 0)


class Facts:
    """immutable set of difference constraints with closure queries"""
    __slots__ = ("f", "_d")

    def __init__(self, f=None):
        self.f = dict(f) if f else {}       # (t1,t2) -> c   meaning t1 <= t2 + c
        self._d = {}

    def key(self):
        return frozenset(self.f.items())

    def copy(self):
        return Facts(self.f)

    def add(self, a, b, c):
        if a == b:
            return
        k = (a, b)
        if k not in self.f or self.f[k] > c:
            self.f[k] = c
            self._d = {}

    def kill(self, pred):
        ks = [k for k in self.f if pred(k[0]) or pred(k[1])]
        for k in ks:
            del self.f[k]
        if ks:
            self._d = {}

    def dist(self, a, b, nonneg=()):
        """tightest c with a <= b + c derivable (Bellman-Ford), INF if none"""
        if a == b:
            return 0
        key = (a, b)
        if key in self._d:
            return self._d[key]
        edges = defaultdict(list)
        for (x, y), c in self.f.items():
            edges[x].append((y, c))
        for t in nonneg:
            edges[ZERO].append((t, 0))       # 0 <= t
        best = {a: 0}
        work = [a]
        n = 0
        while work and n < 5000:
            x = work.pop()
            n += 1
            for y, c in edges.get(x, ()):
                d = best[x] + c
                if d < best.get(y, INF) and d > -1e9:
                    best[y] = d
                    work.append(y)
        r = best.get(b, INF)
        self._d[key] = r
        return r

    def terms(self):
        s = set()
        for a, b in self.f:
            s.add(a)
            s.add(b)
        return s


def join(f1, f2, nonneg=()):
    out = Facts()
    for (a, b) in set(f1.f) | set(f2.f):
        c1 = f1.dist(a, b, nonneg)
        c2 = f2.dist(a, b, nonneg)
        if c1 < INF and c2 < INF:
            out.f[(a, b)] = max(c1, c2)
    return out


WORD = re.compile(r"[A-Za-z_][A-Za-z_0-9]*")


class FnBounds:
    """per-function fact computation and goal proving"""

    def __init__(self, eng, fn, entry_facts=None):
        self.eng = eng
        self.fn = fn
        self.nonneg = set()
        self.param_names = {p["name"] for p in fn.params}
        self.assigned = self._assigned_vars()
        self.before = {}      # element nid -> Facts before it
        self.entry = entry_facts or Facts()
        self.index_terms = {}  # term string -> (base term, index term)
        self.term_type = {}
        self.term_field = {}
        self.env = None
        self.env = self._local_env()
        self._run()

    # ---- terms ----------------------------------------------------------
    def _local_env(self):
        """single-definition locals of a quiet function (no impure calls, no
        stores to memory): name -> linear form of the initialiser"""
        fn = self.fn
        if not self.eng.fn_quiet(fn):
            return None
        env = {}
        for b in sorted(fn.blocks.values(), key=lambda b: -b.id):
            for e in b.elems:
                n = fn.nodes[e]
                if n["k"] == "decl":
                    for v in n["vars"]:
                        if v.get("init") is not None and v["name"] not in self.assigned:
                            rn = fn.sn(v["init"])
                            if rn["k"] == "call" and rn.get("callee") in ALLOC:
                                continue
                            l = self.lin(v["init"], 0, fn, env)
                            if l is not None:
                                env[v["name"]] = l
        return env or None

    def _assigned_vars(self):
        fn = self.fn
        s = set()
        for b, i, e, lhs, rhs, op in fn.stores():
            n = fn.sn(lhs)
            if n["k"] == "ref":
                s.add(n["name"])
        for nid, n in fn.nodes.items():
            if n["k"] == "un" and n["op"] == "&":
                m = fn.sn(n["sub"])
                if m["k"] == "ref":
                    s.add(m["name"])     # address taken: may be assigned elsewhere
        return s

    def term(self, nid, fn=None, env=None):
        """canonical term string of an expression (casts stripped).  env maps
        variable names to linear forms (used when inlining helpers)."""
        fn = fn or self.fn
        env = self.env if (env is None and fn is self.fn) else env
        nid = fn.strip(nid)
        n = fn.nodes[nid]
        k = n["k"]
        T = lambda i: self.term(i, fn, env)
        if k == "ref" and env and n["name"] in env and n["dk"] in ("param", "local"):
            l = env[n["name"]]
            if not l[0]:
                return str(l[1])
            if len(l[0]) == 1 and l[1] == 0 and list(l[0].values()) == [1]:
                return list(l[0])[0]
            return "(" + show_lin(l) + ")"
        if k == "call" and n.get("callee") in ("strlen", "__builtin_strlen"):
            t = "strlen(%s)" % T(n["args"][0])
            self.nonneg.add(t)
            return t
        if k == "call":
            inl = self.eng.sym_call(self, fn, nid, env)
            if inl is not None:
                if not inl[0]:
                    return str(inl[1])
                if len(inl[0]) == 1 and inl[1] == 0 and list(inl[0].values()) == [1]:
                    return list(inl[0])[0]
                return "(" + show_lin(inl) + ")"
            t = "%s(%s)" % (n.get("callee") or "?", ",".join(T(a) for a in n["args"]))
        elif k == "index":
            b, i = T(n["base"]), T(n["idx"])
            t = "%s[%s]" % (b, i)
            self.index_terms[t] = (b, i)
        elif k == "member":
            if not n["field"]:
                t = T(n["base"])
            else:
                bn = fn.nodes[fn.strip(n["base"])]
                arrow = n["arrow"]
                while bn["k"] == "member" and not bn["field"]:
                    arrow = bn["arrow"]
                    bn = fn.nodes[fn.strip(bn["base"])]
                t = "%s%s%s" % (T(n["base"]), "->" if arrow else ".", n["field"])
        elif k == "un" and n["op"] in ("*", "&"):
            t = n["op"] + T(n["sub"])
        elif k == "bin" and n["op"] in ("+", "-") and ("psz" in n or (n.get("t") or "").rstrip().endswith("*")):
            t = "(%s%s%s)" % (T(n["l"]), n["op"], T(n["r"]))
        else:
            t = fn.show(nid)
        if n.get("uns"):
            self.nonneg.add(t)
        ty = n.get("ct") or n.get("t")
        if ty and t not in self.term_type:
            self.term_type[t] = ty
        if k == "member" and n.get("record") and n["field"]:
            self.term_field[t] = (n["record"], n["field"])
        return t

    def lin(self, nid, depth=0, fn=None, env=None):
        """linear form ({term: coef}, const) of an integer expression or None"""
        fn = fn or self.fn
        env = self.env if (env is None and fn is self.fn) else env
        if depth > 12:
            return None
        n0 = fn.nodes[nid]
        nid = fn.strip(nid)
        n = fn.nodes[nid]
        k = n["k"]
        L = lambda i: self.lin(i, depth + 1, fn, env)
        if "cv" in n:
            return lin_const(n["cv"])
        if "cv" in n0 and n0["k"] != "cast":
            return lin_const(n0["cv"])
        if k in ("int", "char"):
            return lin_const(n["v"])
        if k == "ref" and env and n["name"] in env and n["dk"] in ("param", "local"):
            return env[n["name"]]
        if k == "bin" and n["op"] in ("+", "-") and "psz" not in n and not (n.get("t") or "").rstrip().endswith("*"):
            a, b = L(n["l"]), L(n["r"])
            return lin_add(a, b, 1 if n["op"] == "+" else -1)
        if k == "bin" and n["op"] == "*":
            a, b = L(n["l"]), L(n["r"])
            if a is not None and b is not None:
                if not a[0]:
                    return ({t: c * a[1] for t, c in b[0].items()}, a[1] * b[1])
                if not b[0]:
                    return ({t: c * b[1] for t, c in a[0].items()}, a[1] * b[1])
            return None
        if k == "call":
            inl = self.eng.sym_call(self, fn, nid, env)
            if inl is not None:
                return inl
        if k == "un" and n["op"] == "-":
            a = L(n["sub"])
            return lin_add(lin_const(0), a, -1) if a else None
        if k in ("ref", "member", "index", "call", "cond") or (k == "un" and n["op"] == "*"):
            return lin_term(self.term(nid, fn, env))
        return None

    # ---- capacity of a destination --------------------------------------
    def capof(self, nid, depth=0):
        """linear form of the number of bytes that may be written at pointer
        expression nid, or None."""
        fn = self.fn
        if depth > 10:
            return None
        n = fn.nodes[nid]
        k = n["k"]
        if k in ("paren", "opaque"):
            return self.capof(n["sub"], depth + 1)
        if k == "cast":
            sub = fn.nodes[n["sub"]]
            if n["ck"] == "ArrayToPointerDecay" and "sz" in sub:
                return lin_const(sub["sz"])
            return self.capof(n["sub"], depth + 1)
        if k == "un" and n["op"] == "&":
            m = fn.sn(n["sub"], casts=False)
            if m["k"] == "index":
                base = fn.nodes[fn.strip(m["base"], casts=False)]
                # &a[i]
                bcap = self.capof(m["base"], depth + 1)
                i = self.lin(m["idx"])
                esz = m.get("sz", 1)
                if bcap is not None and i is not None:
                    return lin_add(bcap, ({t: c * esz for t, c in i[0].items()}, i[1] * esz), -1)
                return None
            if "sz" in m:
                return lin_const(m["sz"])
            return None
        if k == "bin" and n["op"] in ("+", "-") and "psz" in n or (k == "bin" and n["op"] in ("+", "-") and (n.get("t") or "").endswith("*")):
            # pointer +/- integer
            l, r = fn.nodes[n["l"]], fn.nodes[n["r"]]
            lp = (l.get("t") or "").rstrip().endswith("*") or (l.get("ct") or "").rstrip().endswith("*")
            p, e = (n["l"], n["r"]) if lp else (n["r"], n["l"])
            pc = self.capof(p, depth + 1)
            el = self.lin(e)
            scale = fn.nodes[p].get("psz", 1) or 1
            if pc is None or el is None:
                return None
            el = ({t: c * scale for t, c in el[0].items()}, el[1] * scale)
            return lin_add(pc, el, -1 if n["op"] == "+" else 1)
        if k == "compound":
            return self.capof(n["sub"], depth + 1)
        if k == "init" and len(n["elems"]) == 1:
            return self.capof(n["elems"][0], depth + 1)
        if k in ("ref", "member", "call", "index", "cond", "stmtexpr"):
            if k == "call" and n.get("callee") in ALLOC:
                return self.lin(n["args"][ALLOC[n["callee"]]])
            return lin_term("cap(%s)" % self.term(nid))
        return None

    # ---- transfer -------------------------------------------------------
    def _mentions(self, term, name):
        return any(m.group(0) == name for m in WORD.finditer(term))

    def _kill_var(self, F, name):
        F.kill(lambda t: self._mentions(t, name))

    def _kill_heap(self, F, field=None, mod=None):
        """field: a store to X->field; mod: the mod-set of a callee (set of
        ('f', field) / ('t', type) / 'ANY'); neither: kill every heap term"""
        if field:
            F.kill(lambda t: (t.endswith("->" + field) or t.endswith("." + field) or ("->" + field + "[") in t or ("." + field + "[") in t
                              or (("->" + field) in t and "(" in t) or (("." + field) in t and "(" in t)) and not t.startswith("cap("))
            return
        if mod is not None and "ANY" not in mod:
            if not mod:
                return
            mf = {m[1] for m in mod if m[0] == "f"}
            mt = {m[1] for m in mod if m[0] == "t"}

            def dead(t):
                if not ("->" in t or "[" in t or "*" in t or "." in t or "(" in t) or self._stable(t):
                    return False
                m = re.search(r"(?:->|\.)([A-Za-z_][A-Za-z_0-9]*)$", t)
                if m and "(" not in t:
                    if m.group(1) in mf:
                        return True
                    ty = self.term_type.get(t)
                    return ty is None or ty in mt
                return True
            F.kill(dead)
            return
        F.kill(lambda t: ("->" in t or "[" in t or "*" in t or "." in t or "(" in t) and not self._stable(t))

    def _stable(self, t):
        # strlen() of / cap() of an unmodified parameter survives calls
        m = re.fullmatch(r"(strlen|cap)\(([A-Za-z_][A-Za-z_0-9]*)\)", t)
        if m and m.group(2) in self.param_names and m.group(2) not in self.assigned:
            return True
        return False

    @staticmethod
    def _unit(ts):
        """rewrite coefficients |c| > 1 as composite atomic terms 'c*t'"""
        out = {}
        for t, v in ts.items():
            if abs(v) > 1:
                ct = "%d*%s" % (abs(v), t)
                out[ct] = out.get(ct, 0) + (1 if v > 0 else -1)
            else:
                out[t] = out.get(t, 0) + v
        return {t: v for t, v in out.items() if v}

    def add_le(self, F, a, b):
        """add fact  a <= b  for linear forms a, b (only difference shapes)"""
        d = lin_add(a, b, -1)
        if d is None:
            return
        ts, c = d
        ts = self._unit(ts)
        pos = [t for t, v in ts.items() if v == 1]
        neg = [t for t, v in ts.items() if v == -1]
        if len(ts) == len(pos) + len(neg):
            if len(pos) == 1 and len(neg) == 1:
                F.add(pos[0], neg[0], -c)
            elif len(pos) == 1 and not neg:
                F.add(pos[0], ZERO, -c)
            elif len(neg) == 1 and not pos:
                F.add(ZERO, neg[0], -c)

    def saturate_scaled(self, F, extra_terms=()):
        """link composite terms 'c*t' with their base t: bounds carry over by
        (floor/ceil) division and multiplication"""
        comps = {}
        for t in set(F.terms()) | set(extra_terms):
            m = re.match(r"^(\d+)\*(.+)$", t)
            if m:
                comps[t] = (int(m.group(1)), m.group(2))
        if not comps:
            return F
        F2 = F.copy()
        for _ in range(2):
            for ct, (c, t) in comps.items():
                ub = F2.dist(ct, ZERO, self.nonneg)
                if ub < INF:
                    F2.add(t, ZERO, ub // c)
                lb = F2.dist(ZERO, ct, self.nonneg)       # 0 <= ct + lb
                if lb < INF:
                    F2.add(ZERO, t, -(-(-lb) // c) if False else -((-lb + c - 1) // c))
                ubt = F2.dist(t, ZERO, self.nonneg)
                if ubt < INF:
                    F2.add(ct, ZERO, ubt * c)
                lbt = F2.dist(ZERO, t, self.nonneg)
                if lbt < INF:
                    F2.add(ZERO, ct, lbt * c)
        return F2

    def with_invariants(self, F, extra_terms=()):
        inv = self.eng.invariants
        if not inv:
            return F
        F2 = None
        for t in set(F.terms()) | set(extra_terms):
            rf = self.term_field.get(t)
            if rf and rf in inv:
                lo, hi = inv[rf]
                F2 = F2 or F.copy()
                if hi is not None:
                    F2.add(t, ZERO, hi)
                if lo is not None:
                    F2.add(ZERO, t, -lo)
        return F2 or F

    def prove_le(self, F, a, b):
        """is  a <= b  derivable?  a, b linear forms"""
        d = lin_add(a, b, -1)
        if d is None:
            return False
        ts, c = d
        ts = self._unit(ts)
        F = self.with_invariants(F, list(d[0].keys()) + list(ts.keys()))
        F = self.saturate_scaled(F, ts.keys())
        if not ts:
            return c <= 0
        pos = [t for t, v in ts.items() if v == 1]
        neg = [t for t, v in ts.items() if v == -1]
        if len(ts) != len(pos) + len(neg):
            return False
        if len(pos) == 1 and len(neg) == 1:
            return F.dist(pos[0], neg[0], self.nonneg) <= -c
        if len(pos) == 1 and not neg:
            return F.dist(pos[0], ZERO, self.nonneg) <= -c
        if len(neg) == 1 and not pos:
            return F.dist(ZERO, neg[0], self.nonneg) <= -c
        if not pos and len(neg) > 1:
            # c <= sum of nonneg terms: prove with any single one
            return any(F.dist(ZERO, t, self.nonneg) <= -c for t in neg)
        return False

    def edge_facts(self, F, cond, label):
        fn = self.fn
        if label not in ("T", "F"):
            return F
        l, op, r = C.cond_atom(fn, cond, label == "T")
        la = self.lin(l)
        ra = lin_const(r[1]) if isinstance(r, tuple) else self.lin(r)
        # a test of `left` with `size_t left = capacity - offset` still valid is a test of capacity - offset
        la_alt = None
        l0 = fn.nodes[fn._strip0(l)]
        if l0["k"] == "ref" and l0.get("dk") == "local":
            dx = fn.def_expr(fn._strip0(l))
            if dx is not None:
                la2 = self.lin(dx)
                if la2 is not None and len(la2[0]) == 2 and sorted(la2[0].values()) == [-1, 1]:
                    la_alt = la2
        # predicate lemmas: f(x) true  =>  facts
        ln = fn.sn(l)
        if ln["k"] == "call" and isinstance(r, tuple) and op in ("!=", "=="):
            lem = self.eng.predicate_lemma(self, ln, op == "!=")
            if lem:
                F = F.copy()
                for a, b in lem:
                    self.add_le(F, a, b)
                return F
        if la is None or ra is None:
            return F
        F = F.copy()
        one = lin_const(1)
        if la_alt is not None:
            # the same comparison, read on the defining expression (a - b ~ c becomes a difference constraint on a and b)
            if op == "<=":
                self.add_le(F, la_alt, ra)
            elif op == "<":
                self.add_le(F, lin_add(la_alt, one), ra)
            elif op == ">=":
                self.add_le(F, ra, la_alt)
            elif op == ">":
                self.add_le(F, lin_add(ra, one), la_alt)
            elif op == "==":
                self.add_le(F, la_alt, ra)
                self.add_le(F, ra, la_alt)
        if op == "<=":
            self.add_le(F, la, ra)
        elif op == "<":
            self.add_le(F, lin_add(la, one), ra)
        elif op == ">=":
            self.add_le(F, ra, la)
        elif op == ">":
            self.add_le(F, lin_add(ra, one), la)
        elif op == "==":
            self.add_le(F, la, ra)
            self.add_le(F, ra, la)
        elif op == "!=":
            # x != y with x <= y known  =>  x + 1 <= y   (and symmetric)
            if self.prove_le(F, la, ra):
                self.add_le(F, lin_add(la, one), ra)
            elif self.prove_le(F, ra, la):
                self.add_le(F, lin_add(ra, one), la)
            # s[i] != 0 with i <= strlen(s)  =>  i + 1 <= strlen(s)
            if isinstance(r, tuple) and r[1] == 0 or (ra == lin_const(0)):
                self._nonnul_char(F, l)
        return F

    def _nonnul_char(self, F, l):
        """`l` is a char value known to be != 0; if l is (or equals) s[i] and
        i <= strlen(s) then i+1 <= strlen(s)"""
        fn = self.fn
        cands = []
        n = fn.sn(l)
        if n["k"] == "index":
            t = self.term(l)
            cands.append(t)
        else:
            t = self.term(l)
            for (a, b), c in list(F.f.items()):
                if a == t and c == 0 and F.f.get((b, a)) == 0 and b in self.index_terms:
                    cands.append(b)
        for it in cands:
            if it not in self.index_terms:
                continue
            s, i = self.index_terms[it]
            sl = "strlen(%s)" % s
            self.nonneg.add(sl)
            try:
                ic = int(i)
                il = lin_const(ic)
            except ValueError:
                il = lin_term(i)
            if self.prove_le(F, il, lin_term(sl)):
                self.add_le(F, lin_add(il, lin_const(1)), lin_term(sl))

    def assign(self, F, lhs, rhs, op, nid):
        """transfer for  lhs op rhs  (op '=' / '+=' / '++' ...)"""
        fn = self.fn
        ln = fn.sn(lhs)
        lt = self.term(lhs)
        rl = None
        if op == "=":
            rl = self.lin(rhs) if rhs is not None else None
        elif op in ("++", "post++"):
            rl = lin_add(lin_term(lt), lin_const(1))
        elif op in ("--", "post--"):
            rl = lin_add(lin_term(lt), lin_const(-1))
        elif op == "+=":
            r = self.lin(rhs)
            rl = lin_add(lin_term(lt), r) if r is not None else None
        elif op == "-=":
            r = self.lin(rhs)
            rl = lin_add(lin_term(lt), r, -1) if r is not None else None
        F = F.copy()
        # self-referential with constant shift: shift the facts on lt
        shift = None
        if rl is not None and rl[0] == {lt: 1}:
            shift = rl[1]
        selfref_terms = None
        if shift is None and rl is not None and lt in rl[0] and rl[0][lt] == 1:
            # x = x + e with e a non-negative or unknown term: keep lower bounds if e >= 0
            rest = ({t: c for t, c in rl[0].items() if t != lt}, rl[1])
            selfref_terms = rest
        if shift is not None:
            newf = {}
            for (a, b), c in F.f.items():
                if a == lt and b == lt:
                    continue
                if a == lt:
                    newf[(a, b)] = c + shift
                elif b == lt:
                    newf[(a, b)] = c - shift
                elif self._mentions(a, lt) or self._mentions(b, lt) if ln["k"] == "ref" else False:
                    continue
                else:
                    newf[(a, b)] = c
            if ln["k"] == "ref":
                # other terms mentioning the variable (s[i], cap(p+i)) die
                newf = {k: v for k, v in newf.items()
                        if not ((k[0] != lt and self._mentions(k[0], ln["name"])) or (k[1] != lt and self._mentions(k[1], ln["name"])))}
            F = Facts(newf)
            return F
        if selfref_terms is not None:
            lower = [(a, c) for (a, b), c in F.f.items() if b == lt and a != lt and not self._mentions(a, lt)]
            upper_kill = True
            restnn = self.prove_le(F, lin_const(0), selfref_terms)
            restub = None
            if ln["k"] == "ref":
                self._kill_var(F, ln["name"])
            else:
                self._kill_heap(F, ln.get("field"))
            if restnn:
                for a, c in lower:
                    F.add(a, lt, c)
            return F
        if ln["k"] == "ref":
            self._kill_var(F, ln["name"])
        elif ln["k"] == "member":
            self._kill_heap(F, ln["field"])
        elif ln["k"] == "index":
            bt = self.term(ln["base"])
            F.kill(lambda t: t.startswith(bt + "[") or t == "strlen(%s)" % bt)
        else:
            self._kill_heap(F)
        if rl is not None and op == "=":
            if not any(self._mentions(t, ln["name"]) for t in rl[0]) if ln["k"] == "ref" else True:
                self.add_le(F, lin_term(lt), rl)
                self.add_le(F, rl, lin_term(lt))
        if op == "=" and rhs is not None:
            rn = fn.sn(rhs)
            # p = alloc(n)   =>   n <= cap(p)
            if rn["k"] == "call" and rn.get("callee") in ALLOC:
                sz = self.lin(rn["args"][ALLOC[rn["callee"]]])
                if sz is not None:
                    self.add_le(F, sz, lin_term("cap(%s)" % lt))
            # x = (a < b ? a : b)  =>  x <= a, x <= b  (also UT_MIN)
            if rn["k"] == "cond":
                self._min_idiom(F, lt, rn)
            # p = q (+ k): capacity follows
            if (fn.nodes[lhs].get("t") or "").rstrip().endswith("*") and rn["k"] != "call":
                rc = self.capof(rhs)
                if rc is not None:
                    self.add_le(F, lin_term("cap(%s)" % lt), rc)
                    self.add_le(F, rc, lin_term("cap(%s)" % lt))
        return F

    def _min_idiom(self, F, lt, rn):
        fn = self.fn
        l, op, r = C.cond_atom(fn, rn["c"], True)
        if isinstance(r, tuple):
            return
        a, b = self.lin(l), self.lin(r)
        tv, fv = self.lin(rn["tv"]), self.lin(rn["fv"])
        if None in (a, b, tv, fv):
            return
        # result <= both operands when (a<b ? a : b) or (a>b ? b : a) ...
        if op in ("<", "<=") and tv == a and fv == b or op in (">", ">=") and tv == b and fv == a:
            self.add_le(F, lin_term(lt), a)
            self.add_le(F, lin_term(lt), b)

    def call_effects(self, F, nid):
        """kill facts invalidated by a call"""
        fn = self.fn
        n = fn.nodes[nid]
        name = n.get("callee")
        F2 = None
        # address-of locals passed: their facts die
        for a in n["args"]:
            an = fn.sn(a)
            if an["k"] == "un" and an["op"] == "&":
                m = fn.sn(an["sub"])
                if m["k"] == "ref":
                    F2 = F2 or F.copy()
                    self._kill_var(F2, m["name"])
                elif m["k"] == "member":
                    F2 = F2 or F.copy()
                    self._kill_heap(F2, m["field"])
        if name in SINKS:
            di = SINKS[name][0]
            if di < len(n["args"]):
                dt = self.term(n["args"][di])
                F2 = F2 or F.copy()
                F2.kill(lambda t: t.startswith(dt + "[") or t == "strlen(%s)" % dt)
                if name in ("strcpy", "__builtin_strcpy") and len(n["args"]) > 1:
                    # post-condition: strlen(dst) == strlen(src)
                    st = "strlen(%s)" % self.term(n["args"][1])
                    sn = fn.sn(n["args"][1])
                    src = lin_const(sn["len"]) if sn["k"] == "str" else lin_term(st)
                    self.nonneg.add("strlen(%s)" % dt)
                    self.add_le(F2, lin_term("strlen(%s)" % dt), src)
                    self.add_le(F2, src, lin_term("strlen(%s)" % dt))
                if name in ("snprintf", "vsnprintf", "__builtin_snprintf") and len(n["args"]) > 1:
                    # the append idiom  snprintf(X + strlen(X), C - strlen(X), ...): afterwards strlen(X) <= C
                    # (nothing is written when the size is 0; else the output is cut to fit and terminated)
                    dn, zn = fn.sn(n["args"][0]), fn.sn(n["args"][1])
                    if dn["k"] == "bin" and dn["op"] == "+" and zn["k"] == "bin" and zn["op"] == "-":
                        sl, sr = fn.sn(dn["r"]), fn.sn(zn["r"])
                        if sl["k"] == "call" and sl.get("callee") in ("strlen", "__builtin_strlen") and sr["k"] == "call" and sr.get("callee") in ("strlen", "__builtin_strlen") \
                                and self.term(sl["args"][0]) == self.term(dn["l"]) == self.term(sr["args"][0]):
                            sx = "strlen(%s)" % self.term(dn["l"])
                            cl = self.lin(zn["l"])
                            F2.kill(lambda t, sx=sx: t == sx)
                            if cl is not None:
                                self.nonneg.add(sx)
                                self.add_le(F2, lin_term(sx), cl)
                            return F2
                    # post-condition (man page): the output is truncated to fit and terminated: strlen(dst) + 1 <= size (size >= 1)
                    sz = self.lin(n["args"][1])
                    if sz is not None and (sz[0] or sz[1] >= 1):
                        self.nonneg.add("strlen(%s)" % dt)
                        self.add_le(F2, lin_add(lin_term("strlen(%s)" % dt), lin_const(1)), sz)
            return F2 or F
        if name in PURE_EXT or name in PURE_REPO or self.eng.is_pure(fn, nid):
            return F2 or F
        F2 = F2 or F.copy()
        self._kill_heap(F2, mod=self.eng.call_mod(fn, nid))
        # non-const pointer arguments: string lengths behind them die
        for a in n["args"]:
            t = fn.nodes[a].get("t") or ""
            if t.rstrip().endswith("*") and "const" not in t:
                at = self.term(a)
                F2.kill(lambda x: x == "strlen(%s)" % at or x.startswith(at + "["))
        return F2

    def _run(self):
        fn = self.fn
        inb = {fn.entry: self.entry.copy()}
        visits = defaultdict(int)
        work = [fn.entry]
        while work:
            b = work.pop(0)
            blk = fn.blocks[b]
            visits[b] += 1
            F = inb[b]
            for e in blk.elems:
                self.before[e] = F
                n = fn.nodes[e]
                k = n["k"]
                if k == "bin" and n["op"] in ("=", "+=", "-="):
                    F = self.assign(F, n["l"], n["r"], n["op"], e)
                    ln0 = fn.sn(n["l"])
                    if n["op"] == "=" and ln0["k"] == "index" and C.const_of(fn, ln0["idx"]) == 0 and C.const_of(fn, n["r"]) == 0 and ln0.get("sz", 1) == 1:
                        # X[0] = '\0': the string at X is empty
                        st0 = "strlen(%s)" % self.term(ln0["base"])
                        F = F.copy()
                        F.kill(lambda t, st0=st0: t == st0)
                        self.nonneg.add(st0)
                        self.add_le(F, lin_term(st0), lin_const(0))
                elif k == "bin" and n["op"] in ("*=", "/=", "%=", "&=", "|=", "^=", "<<=", ">>="):
                    F = self.assign(F, n["l"], None, "?", e)
                elif k == "un" and n["op"] in ("++", "--", "post++", "post--"):
                    F = self.assign(F, n["sub"], None, n["op"], e)
                elif k == "decl":
                    for v in n["vars"]:
                        F = self._decl(F, v)
                elif k == "call":
                    F = self.call_effects(F, e)
                    F = self.eng.post_call_facts(self, F, e)
            if blk.noreturn:
                continue
            cond = blk.term.get("cond") if blk.term else None
            for s, lab in C.edges(fn, blk):
                F2 = self.edge_facts(F, cond, lab) if (lab in ("T", "F") and cond is not None) else F
                if s not in inb:
                    inb[s] = F2.copy()
                    work.append(s)
                else:
                    J = join(inb[s], F2, self.nonneg)
                    if visits[s] > 6:
                        # widening: keep only facts that did not weaken
                        J = Facts({k: c for k, c in J.f.items() if inb[s].f.get(k) == c})
                    if J.key() != inb[s].key():
                        inb[s] = J
                        if s not in work:
                            work.append(s)
        self.inb = inb

    def _decl(self, F, v):
        fn = self.fn
        F = F.copy()
        self._kill_var(F, v["name"])
        name = v["name"]
        if v.get("init") is not None:
            rn = fn.sn(v["init"])
            rl = self.lin(v["init"])
            if rl is not None and len(rl[0]) > 1:
                # x = a - b with b known exactly (an offsetof, a sizeof held in a local): fold the constant in, so that
                # the relation becomes a difference constraint
                terms, const = dict(rl[0]), rl[1]
                for t, c in list(terms.items()):
                    ub, lb = F.dist(t, ZERO, self.nonneg), F.dist(ZERO, t, self.nonneg)
                    if ub is not None and lb is not None and ub != INF and lb != INF and ub == -lb and len(terms) > 1:
                        const += c * ub
                        del terms[t]
                rl = (terms, const)
            if rl is not None and not any(self._mentions(t, name) for t in rl[0]):
                self.add_le(F, lin_term(name), rl)
                self.add_le(F, rl, lin_term(name))
            if rn["k"] == "call" and rn.get("callee") in ALLOC:
                sz = self.lin(rn["args"][ALLOC[rn["callee"]]])
                if sz is not None:
                    self.add_le(F, sz, lin_term("cap(%s)" % name))
            if rn["k"] == "cond":
                self._min_idiom(F, name, rn)
            if (v.get("t") or "").rstrip().endswith("*") and rn["k"] != "call":
                rc = self.capof(v["init"])
                if rc is not None:
                    self.add_le(F, lin_term("cap(%s)" % name), rc)
                    self.add_le(F, rc, lin_term("cap(%s)" % name))
            t = v.get("ct") or v.get("t") or ""
            if t in ("size_t", "uint32_t", "uint64_t", "unsigned long", "unsigned int", "uint16_t", "uint8_t", "socklen_t"):
                self.nonneg.add(name)
        if "vla" in v:
            sz = self.lin(v["vla"])
            if sz is not None:
                self.add_le(F, sz, lin_term("cap(%s)" % name))
        return F


class Requirement:
    """size <= cap obligation lifted to a function's parameters.
    lhs/rhs: linear forms over term templates in the callee's namespace
    whose free identifiers are (never assigned) parameters: `capacity`,
    `cap(buf)`, `strlen(path_str)`, `f(g(cert))`"""

    def __init__(self, lhs, rhs, origin):
        self.lhs, self.rhs, self.origin = lhs, rhs, origin

    def key(self):
        return (tuple(sorted(self.lhs[0].items())), self.lhs[1], tuple(sorted(self.rhs[0].items())), self.rhs[1], self.origin["key"])

    def __repr__(self):
        return "%s <= %s  [%s]" % (show_lin(self.lhs), show_lin(self.rhs), self.origin["key"])


def show_lin(l):
    if l is None:
        return "?"
    parts = []
    for t, c in sorted(l[0].items()):
        parts.append(("%s" % t) if c == 1 else ("%d*%s" % (c, t)))
    if l[1] or not parts:
        parts.append(str(l[1]))
    return " + ".join(parts)


class Engine:
    """whole-program driver: per-function analysis, requirements, roots"""

    def __init__(self, prog, scope_fn=None):
        self.prog = prog
        self.memo = {}
        self.active = set()
        self._pure = {}
        self._quiet = {}
        self._simple = {}
        self._lemma = {}
        self._symstack = []
        self.scope_fn = scope_fn            # Function -> bool : which functions' sinks are armed
        self.stats = defaultdict(int)
        self.sink_log = []
        self.lemmas = {}                    # callee name -> fn(FnBounds, call node, truth) -> [(a,b)]
        self.post = {}                      # callee name -> fn(FnBounds, Facts, call nid) -> Facts
        self.ptr_index_stores = False       # also check `p[i] = x` through pointer parameters against cap(p) (opt-in per rule)
        self.inline = {}                    # callee name -> fn(FnBounds, call nid) -> lin
        self.entry_contracts = {}           # Function -> list of (lhs lin over param names, rhs lin)
        self.narrow_scope = None            # Function -> bool: narrowing integer conversions are obligations
        self.invariants = {}                # (record, field) -> (lo, hi): assumed everywhere, checked at stores
        self._mod = None

    # --- hooks -----------------------------------------------------------
    def predicate_lemma(self, fb, call_node, truth):
        f = self.lemmas.get(call_node.get("callee"))
        if f:
            return f(fb, call_node, truth)
        if not call_node.get("callee"):
            return None
        g = self.prog.resolve_direct(fb.fn, call_node["callee"])
        if g is None or g.ret not in ("_Bool", "bool", "int"):
            return None
        lem = self.return_lemma(g, truth)
        if lem is None and not truth:
            return None
        if lem is None:
            lem = self.auto_lemma(g)
        out = []
        for a, b in lem:
            sa, sb = self.subst(fb, call_node["id"], g, a), self.subst(fb, call_node["id"], g, b)
            if sa is not None and sb is not None:
                out.append((sa, sb))
                self.stats["auto_lemma"] += 1
        return out or None

    # result of an I/O call: -1 <= result <= length argument (man pages)
    RESULT_LE_ARG = {"send": 2, "recv": 2, "read": 2, "write": 2, "SSL_read": 2, "SSL_write": 2, "sendto": 2, "recvfrom": 2}

    def post_call_facts(self, fb, F, nid):
        n = fb.fn.nodes[nid]
        f = self.post.get(n.get("callee"))
        if f:
            return f(fb, F, nid)
        ai = self.RESULT_LE_ARG.get(n.get("callee"))
        if ai is not None and ai < len(n["args"]):
            t = fb.term(nid)
            a = fb.lin(n["args"][ai])
            F = F.copy()
            fb.add_le(F, lin_const(-1), lin_term(t))
            if a is not None:
                fb.add_le(F, lin_term(t), a)
            return F
        return F

    # --- mod sets (which fields / pointee types a function may store to) ----
    def _direct_mod(self, f):
        m = set()
        local_aggr = set()
        for nid, n in f.nodes.items():
            if n["k"] == "decl":
                for v in n["vars"]:
                    if not (v.get("t") or "").rstrip().endswith("*"):
                        local_aggr.add(v["did"])
        for b, i, e, lhs, rhs, op in f.stores():
            n = f.sn(lhs)
            p = f.apath(lhs)
            root = p[0]
            if n["k"] == "ref" and n["dk"] in ("local", "param"):
                continue
            if f.show(lhs) == "errno":
                continue        # errno (thread-local, via __errno_location) is no part of the analysed heap
            if root[0] == "var" and root[1] in local_aggr and "*" not in p:
                continue        # field / element of a local aggregate
            if n["k"] == "member" and n["field"]:
                m.add(("f", n["field"]))
            else:
                ty = n.get("ct") or n.get("t")
                m.add(("t", ty) if ty else "ANY")
        for c in f.calls():
            defs, exts = self.prog.callees(f, c)
            cn = f.nodes[c]
            if not defs and not exts:
                m.add("ANY")
            for x in exts:
                if x in PURE_EXT:
                    continue
                if x in SINKS:
                    di = SINKS[x][0]
                    if di < len(cn["args"]):
                        p = f.apath(cn["args"][di])
                        root = p[0]
                        if root[0] == "var" and root[1] in local_aggr:
                            continue
                        dn = f.sn(cn["args"][di])
                        if dn["k"] == "un" and dn["op"] == "&" and f.sn(dn["sub"])["k"] == "ref" and f.sn(dn["sub"])["dk"] == "local":
                            continue
                    m.add(("t", "char"))
                    m.add(("t", "void"))
                    m.add(("t", "unsigned char"))
                    m.add("BYTES")
                    continue
                m.add("ANY")
        return m

    def mod(self, f):
        if self._mod is None:
            direct = {g: self._direct_mod(g) for g in self.prog.functions}
            callees = {}
            for g in self.prog.functions:
                cs = set()
                for c in g.calls():
                    defs, _ = self.prog.callees(g, c)
                    cs.update(d for d in defs if d.name not in PURE_REPO)
                callees[g] = cs
            changed = True
            while changed:
                changed = False
                for g in self.prog.functions:
                    for d in callees[g]:
                        if not direct[d] <= direct[g]:
                            direct[g] |= direct[d]
                            changed = True
            self._mod = direct
        return self._mod.get(f, {"ANY"})

    def call_mod(self, fn, call_nid):
        defs, exts = self.prog.callees(fn, call_nid)
        if not defs and not exts:
            return {"ANY"}
        m = set()
        for x in exts:
            if x in PURE_EXT:
                continue
            if x in SINKS:
                m |= {("t", "char"), ("t", "void"), ("t", "unsigned char")}
                continue
            return {"ANY"}
        for d in defs:
            if d.name in PURE_REPO:
                continue
            m |= self.mod(d)
        return m

    def fn_quiet(self, f):
        """f stores only to its locals and calls only pure functions or sinks"""
        if f in self._quiet:
            return self._quiet[f]
        self._quiet[f] = False
        ok = True
        for b, i, e, lhs, rhs, op in f.stores():
            n = f.sn(lhs)
            if not (n["k"] == "ref" and n["dk"] in ("local", "param")):
                ok = False
                break
        if ok:
            for c in f.calls():
                defs, exts = self.prog.callees(f, c)
                if not defs and not exts:
                    ok = False
                    break
                if any(x not in PURE_EXT and x not in SINKS for x in exts) or not all(self.fn_pure(d) for d in defs):
                    ok = False
                    break
        self._quiet[f] = ok
        return ok

    def sym_call(self, fb, fn, call_nid, env):
        """linear form of the value of a call to a simple pure helper (one
        non-aborting path, return value linear in its parameters), else None"""
        n = fn.nodes[call_nid]
        name = n.get("callee")
        if not name:
            return None
        h = self.inline.get(name)
        if h:
            return h(fb, fn, call_nid, env)
        g = self.prog.resolve_direct(fn, name)
        if g is None or g.name in PURE_REPO or len(self._symstack) > 6 or g in self._symstack:
            return None
        info = self._simple.get(g)
        if info is None:
            info = self._simple_info(g)
            self._simple[g] = info
        if not info:
            return None
        ret_nid, decls = info
        args = []
        for a in n["args"]:
            args.append(fb.lin(a, 0, fn, env))
        genv = {}
        for p, a in zip(g.params, args):
            if a is None:
                # opaque actual: keep a textual term
                return None
            genv[p["name"]] = a
        self._symstack.append(g)
        try:
            for v in decls:
                l = fb.lin(v["init"], 0, g, genv)
                if l is None:
                    return None
                genv[v["name"]] = l
            return fb.lin(ret_nid, 0, g, genv)
        finally:
            self._symstack.pop()

    def _simple_info(self, g):
        """(return expr nid, [decl vars in order]) if g has exactly one
        non-aborting path without branches and is pure"""
        if not self.fn_pure(g):
            return False
        live = set()
        b = g.entry
        path = []
        seen = set()
        while b is not None and b not in seen:
            seen.add(b)
            path.append(b)
            es = [s for s, lab in C.edges(g, g.blocks[b])]
            # ignore branches into aborting blocks (asserts)
            es2 = [s for s in es if not self._aborts(g, s)]
            if len(es2) > 1:
                return False
            b = es2[0] if es2 else None
        ret = None
        decls = []
        for b in path:
            for e in g.blocks[b].elems:
                n = g.nodes[e]
                if n["k"] == "return" and n.get("sub") is not None:
                    ret = n["sub"]
                elif n["k"] == "decl":
                    for v in n["vars"]:
                        if v.get("init") is None:
                            return False
                        decls.append(v)
                elif n["k"] == "bin" and n["op"] in ("=", "+=", "-=") or (n["k"] == "un" and n["op"] in ("++", "--", "post++", "post--")):
                    return False
        if ret is None:
            return False
        return (ret, decls)

    def _aborts(self, g, b, depth=0):
        """every path from b ends in a noreturn block"""
        seen = set()
        st = [b]
        while st:
            x = st.pop()
            if x in seen:
                continue
            seen.add(x)
            blk = g.blocks[x]
            if blk.noreturn:
                continue
            if x == g.exit:
                return False
            if len(seen) > 40:
                return False
            st.extend(s for s, _ in C.edges(g, blk))
        return True

    def is_pure(self, fn, call_nid):
        defs, exts = self.prog.callees(fn, call_nid)
        if not defs and not exts:
            return False
        for x in exts:
            if x not in PURE_EXT:
                return False
        return all(self.fn_pure(d) for d in defs)

    def fn_pure(self, f, depth=0):
        """no stores to non-local memory, transitively"""
        if f in self._pure:
            return self._pure[f]
        if f.name in PURE_REPO:
            self._pure[f] = True
            return True
        self._pure[f] = False      # recursion guard
        if depth > 6:
            return False
        ok = True
        for b, i, e, lhs, rhs, op in f.stores():
            n = f.sn(lhs)
            if not (n["k"] == "ref" and n["dk"] in ("local", "param")):
                # store through a local aggregate is fine
                p = f.apath(lhs)
                root = p[0]
                if root[0] == "var" and "*" not in p and all(x != "*" for x in p):
                    rn = [m for m in f.nodes.values() if m["k"] == "ref" and m.get("did") == root[1]]
                    if rn and rn[0]["dk"] == "local" and not (rn[0].get("t") or "").rstrip().endswith("*"):
                        continue
                ok = False
                break
        if ok:
            for c in f.calls():
                defs, exts = self.prog.callees(f, c)
                if any(x not in PURE_EXT for x in exts) or (not defs and not exts):
                    ok = False
                    break
                if not all(self.fn_pure(d, depth + 1) for d in defs):
                    ok = False
                    break
        self._pure[f] = ok
        return ok

    # --- analysis ----------------------------------------------------------
    def param_index(self, f, name):
        for i, p in enumerate(f.params):
            if p["name"] == name:
                return i
        return None

    def analyse(self, f, entry=None):
        """-> (requirements, unproved) of f.  entry: Facts assumed at entry."""
        key = f
        if key in self.memo:
            return self.memo[key]
        if f in self.active:
            return ([], [])       # recursion: assume nothing further
        self.active.add(f)
        ent = Facts()
        fb_pre = None
        contracts = self.entry_contracts.get(f)
        fb = FnBounds(self, f, ent if not contracts else self._entry_facts(f, contracts))
        reqs, unproved = [], []
        armed = self.scope_fn(f) if self.scope_fn else True
        for b, i, e in f.elems():
            n = f.nodes[e]
            goals = []
            if n["k"] == "call":
                goals += self._call_goals(fb, e)
            elif n["k"] == "index":
                g = self._index_goal(fb, e)
                if g:
                    goals.append(g)
            if self.invariants and (n["k"] == "bin" and n["op"] in ("=", "+=", "-=") or n["k"] == "un" and n["op"] in ("++", "--", "post++", "post--")):
                goals += self._invariant_goals(fb, e)
            if n["k"] == "cast" and n.get("ck") == "IntegralCast" and self.narrow_scope and self.narrow_scope(f):
                goals += self._narrow_goals(fb, e)
            for g in goals:
                self.stats["goals"] += 1
                F = fb.before.get(e, Facts())
                size, cap, origin = g
                if not armed and origin["fn"] == f.name:
                    self.stats["unarmed"] += 1
                    continue
                if size is not None and cap is not None and fb.prove_le(F, size, cap):
                    self.stats["proved"] += 1
                    self.sink_log.append((origin["key"], "proved", show_lin(size), show_lin(cap)))
                    continue
                r = self._abduce(fb, F, size, cap, origin)
                if r is not None:
                    self.stats["required"] += 1
                    reqs.append(r)
                    self.sink_log.append((origin["key"], "required " + repr(r), show_lin(size), show_lin(cap)))
                else:
                    self.stats["unproved"] += 1
                    unproved.append(dict(origin, size=show_lin(size), cap=show_lin(cap), at=f.name,
                                         facts=sorted("%s <= %s + %s" % (a, b, c) for (a, b), c in F.f.items())[:30]))
                    self.sink_log.append((origin["key"], "UNPROVED", show_lin(size), show_lin(cap)))
        self.active.discard(f)
        # de-duplicate requirements
        seen = {}
        for r in reqs:
            seen.setdefault(r.key(), r)
        self.memo[key] = (list(seen.values()), unproved)
        return self.memo[key]

    def _entry_facts(self, f, contracts):
        F = Facts()
        tmp = FnBounds.__new__(FnBounds)
        for a, b in contracts:
            FnBounds.add_le(tmp, F, a, b)
        return F

    def _origin(self, f, nid, desc):
        return {"key": "%s:%s" % (f.name, desc), "fn": f.name, "loc": f.loc(nid), "sink": desc, "chain": [f.name]}

    def _call_goals(self, fb, nid):
        f = fb.fn
        n = f.nodes[nid]
        goals = []
        defs, exts = self.prog.callees(f, nid)
        for x in exts:
            if x in SINKS:
                di, spec = SINKS[x]
                if di >= len(n["args"]):
                    continue
                dn = f.sn(n["args"][di])
                if dn.get("cv") == 0 or (dn["k"] == "int" and dn["v"] == 0):
                    continue            # snprintf(NULL, 0, ...)
                cap = fb.capof(n["args"][di])
                size = None
                if spec[0] == "arg":
                    size = fb.lin(n["args"][spec[1]])
                elif spec[0] == "strlen1":
                    size = lin_add(lin_term("strlen(%s)" % fb.term(n["args"][spec[1]])), lin_const(1))
                    fb.nonneg.add("strlen(%s)" % fb.term(n["args"][spec[1]]))
                    sn = f.sn(n["args"][spec[1]])
                    if sn["k"] == "str":
                        size = lin_const(sn["len"] + 1)
                elif spec[0] == "deref":
                    a = f.sn(n["args"][spec[1]])
                    if a["k"] == "un" and a["op"] == "&":
                        size = fb.lin(a["sub"])
                elif spec[0] == "mul":
                    a, b = fb.lin(n["args"][spec[1]]), fb.lin(n["args"][spec[2]])
                    if a and b and not a[0]:
                        size = ({t: c * a[1] for t, c in b[0].items()}, a[1] * b[1])
                    elif a and b and not b[0]:
                        size = ({t: c * b[1] for t, c in a[0].items()}, a[1] * b[1])
                elif spec[0] == "unbounded":
                    size = None
                goals.append((size, cap, self._origin(f, nid, "%s(%s)" % (x, f.show(n["args"][di])[:40]))))
                # a size computed as an unsigned difference must not wrap: `capacity - used` needs used <= capacity
                if spec[0] == "arg":
                    sx = f.nodes[f.origin(n["args"][spec[1]])]
                    if sx["k"] == "bin" and sx["op"] == "-" and ("unsigned" in (sx.get("ct") or sx.get("t") or "") or "size_t" in (sx.get("t") or "")):
                        a, b = fb.lin(sx["l"]), fb.lin(sx["r"])
                        if a is not None and b is not None:
                            goals.append((b, a, self._origin(f, nid, "%s(%s):size-wraps" % (x, f.show(n["args"][di])[:30]))))
        for d in defs:
            if d.name in PURE_REPO:
                continue
            if d.name in self.inline:
                continue
            rq, unp = self.analyse(d)
            for r in rq:
                g = self._instantiate(fb, nid, d, r)
                goals.append(g)
        return goals

    def subst(self, fb, nid, d, l):
        """linear form l over callee d's parameter templates -> caller's terms at call node nid"""
        f = fb.fn
        n = f.nodes[nid]
        pidx = {p["name"]: i for i, p in enumerate(d.params)}

        def actual_term(name):
            i = pidx[name]
            if i >= len(n["args"]):
                return None
            l2 = fb.lin(n["args"][i])
            if l2 is not None:
                if not l2[0]:
                    return str(l2[1])
                if len(l2[0]) == 1 and l2[1] == 0 and list(l2[0].values()) == [1]:
                    return list(l2[0])[0]
            return fb.term(n["args"][i])
        out = lin_const(l[1])
        for t, c in l[0].items():
            m = re.fullmatch(r"(cap|strlen)\(([A-Za-z_][A-Za-z_0-9]*)\)", t)
            x = None
            if t in pidx:
                x = fb.lin(n["args"][pidx[t]]) if pidx[t] < len(n["args"]) else None
            elif m and m.group(2) in pidx and pidx[m.group(2)] < len(n["args"]):
                a = n["args"][pidx[m.group(2)]]
                x = fb.capof(a) if m.group(1) == "cap" else self._strlen_of(fb, a)
            else:
                ok = True

                def rep(mo):
                    nonlocal ok
                    w = mo.group(0)
                    if w in pidx:
                        st = mo.start()
                        pre = t[max(0, st - 2):st]
                        post = t[mo.end():mo.end() + 1]
                        if pre.endswith("->") or pre.endswith(".") or post == "(":
                            return w
                        at = actual_term(w)
                        if at is None:
                            ok = False
                            return w
                        return at
                    return w
                t2 = WORD.sub(rep, t)
                if ok:
                    x = lin_term(t2)
                    if t2.startswith("strlen("):
                        fb.nonneg.add(t2)
            if x is None:
                return None
            out = lin_add(out, ({k: v * c for k, v in x[0].items()}, x[1] * c))
        return out

    def _instantiate(self, fb, nid, d, r):
        """requirement r of callee d at call node nid: substitute actuals"""
        f = fb.fn
        origin = dict(r.origin)
        origin["chain"] = [f.name] + r.origin["chain"]
        origin["loc_call"] = f.loc(nid)
        return (self.subst(fb, nid, d, r.lhs), self.subst(fb, nid, d, r.rhs), origin)

    # --- derived predicate lemmas ---------------------------------------------
    def return_lemma(self, g, truth):
        """for a predicate whose body is one `return <condition>;`: facts over g's parameters that hold when it answers
        true (the atoms of a conjunction) / false (the negated atoms of a disjunction); None when g has another shape"""
        key = (g, bool(truth))
        if key in self._lemma:
            return self._lemma[key]
        self._lemma[key] = None
        rets = [n for n in g.nodes.values() if n["k"] == "return"]
        if len(rets) != 1 or rets[0].get("sub") is None or any(n["k"] == "decl" or (n["k"] == "call" and not self.is_pure(g, n["id"])) for n in g.nodes.values()):
            return None

        def strip(x):
            while True:
                n = g.nodes[x]
                if n["k"] in ("paren", "opaque") or (n["k"] == "cast" and n.get("implicit")):
                    x = n["sub"]
                else:
                    return x

        def atoms(x, op):
            x = strip(x)
            n = g.nodes[x]
            if n["k"] == "bin" and n["op"] == op:
                a, b = atoms(n["l"], op), atoms(n["r"], op)
                return None if a is None or b is None else a + b
            if n["k"] == "bin" and n["op"] in ("&&", "||"):
                return None
            return [x]
        at = atoms(rets[0]["sub"], "&&" if truth else "||")
        if not at:
            return None
        try:
            fb = FnBounds(self, g)
        except Exception:
            return None
        params = {p["name"] for p in g.params} - fb.assigned
        out = []
        for x in at:
            F = fb.edge_facts(Facts(), x, "T" if truth else "F")
            for (a, c2), c in F.f.items():
                if all(self._param_only(t, params) for t in (a, c2) if t != ZERO):
                    la = lin_const(0) if a == ZERO else lin_term(a)
                    lb = lin_const(c) if c2 == ZERO else lin_add(lin_term(c2), lin_const(c))
                    out.append((la, lb))
        self._lemma[key] = out
        return out

    def auto_lemma(self, g):
        """facts (lhs lin, rhs lin) over g's parameters that hold whenever g
        returns non-zero: negations of the guards on whose edge g returns 0
        before doing anything else"""
        if g in self._lemma:
            return self._lemma[g]
        self._lemma[g] = []
        try:
            fb = FnBounds(self, g)
        except Exception:
            return []
        out = []
        b = g.entry
        steps = 0
        params = {p["name"] for p in g.params} - fb.assigned
        while steps < 10:
            steps += 1
            blk = g.blocks[b]
            es = C.edges(g, blk)
            if len(es) == 2 and es[0][1] in ("T", "F"):
                zero = [self._returns_zero(g, s) for s, _ in es]
                if zero[0] != zero[1]:
                    surv = es[1] if zero[0] else es[0]
                    F = fb.edge_facts(Facts(), blk.term["cond"], surv[1])
                    for (a, c2), c in F.f.items():
                        ok = all(self._param_only(t, params) for t in (a, c2) if t != ZERO)
                        if ok:
                            la = lin_const(0) if a == ZERO else lin_term(a)
                            lb = lin_const(c) if c2 == ZERO else lin_add(lin_term(c2), lin_const(c))
                            out.append((la, lb))
                    b = surv[0]
                    continue
                break
            if len(es) != 1:
                break
            if any(g.nodes[e]["k"] == "call" and not self.is_pure(g, e) for e in blk.elems):
                break
            b = es[0][0]
        self._lemma[g] = out
        return out

    @staticmethod
    def _param_only(t, params):
        for mo in WORD.finditer(t):
            w = mo.group(0)
            st = mo.start()
            pre = t[max(0, st - 2):st]
            post = t[mo.end():mo.end() + 1]
            if pre.endswith("->") or pre.endswith(".") or post == "(":
                continue
            if w not in params:
                return False
        return True

    def _returns_zero(self, g, b):
        """block b (following straight-line edges) returns constant 0/false at once"""
        steps = 0
        while steps < 4:
            steps += 1
            blk = g.blocks[b]
            for e in blk.elems:
                n = g.nodes[e]
                if n["k"] == "return":
                    return n.get("sub") is not None and C.const_of(g, n["sub"]) == 0
                if n["k"] == "call" and not self.is_pure(g, e):
                    return False
            es = C.edges(g, blk)
            if len(es) != 1:
                return False
            b = es[0][0]
        return False

    def _strlen_of(self, fb, a):
        """strlen term of an argument; strlen(s + e) is bounded by strlen(s)
        (the cursor stays inside the string: assumption recorded by callers)"""
        f = fb.fn
        n = f.sn(a)
        if n["k"] == "str":
            return lin_const(n["len"])
        if n["k"] == "bin" and n["op"] == "+":
            l, r = f.nodes[n["l"]], f.nodes[n["r"]]
            p = n["l"] if (l.get("t") or "").rstrip().endswith("*") else n["r"]
            self.stats["cursor_lemma"] += 1
            return self._strlen_of(fb, p)
        t = "strlen(%s)" % fb.term(a)
        fb.nonneg.add(t)
        return lin_term(t)

    def _narrow_goals(self, fb, nid):
        """an integer conversion to a narrower type must preserve the value"""
        f = fb.fn
        n = f.nodes[nid]
        sub = f.nodes[n["sub"]]
        dsz, ssz = n.get("sz"), sub.get("sz")
        if not dsz or not ssz or dsz >= ssz or "cv" in n or "cv" in sub:
            return []
        if (n.get("t") or "") in ("_Bool", "bool"):
            return []
        if n.get("uns"):
            lo, hi = 0, (1 << (8 * dsz)) - 1
        else:
            lo, hi = -(1 << (8 * dsz - 1)), (1 << (8 * dsz - 1)) - 1
        L = fb.lin(n["sub"])
        desc = "narrowing (%s)%s" % (n.get("t"), f.show(n["sub"])[:40])
        out = [(L, lin_const(hi), self._origin(f, nid, desc + " <= %d" % hi))]
        out.append((lin_const(lo), L, self._origin(f, nid, desc + " >= %d" % lo)))
        return out

    def _invariant_goals(self, fb, nid):
        """a store to a field with a declared record invariant must re-establish it"""
        f = fb.fn
        n = f.nodes[nid]
        lhs = n["l"] if n["k"] == "bin" else n["sub"]
        ln = f.sn(lhs)
        if n["k"] == "bin" and n["op"] == "=":
            rn = f.sn(n["r"])
            if rn["k"] == "compound":
                rn = f.sn(rn["sub"])
            if rn["k"] == "init" and rn.get("record") and any(k[0] == rn["record"] for k in self.invariants):
                out = []
                for fld, e in zip(rn.get("fields", []), rn["elems"]):
                    inv = self.invariants.get((rn["record"], fld))
                    if not inv:
                        continue
                    v = fb.lin(e)
                    if inv[1] is not None:
                        out.append((v, lin_const(inv[1]), self._origin(f, nid, "invariant %s.%s<=%d at initialiser" % (rn["record"], fld, inv[1]))))
                    if inv[0] is not None:
                        out.append((lin_const(inv[0]), v, self._origin(f, nid, "invariant %s.%s>=%d at initialiser" % (rn["record"], fld, inv[0]))))
                return out
        if ln["k"] != "member" or (ln.get("record"), ln["field"]) not in self.invariants:
            return []
        lo, hi = self.invariants[(ln["record"], ln["field"])]
        lt = fb.term(lhs)
        if n["k"] == "bin" and n["op"] == "=":
            new = fb.lin(n["r"])
        elif n["k"] == "bin":
            r = fb.lin(n["r"])
            new = lin_add(lin_term(lt), r, 1 if n["op"] == "+=" else -1) if r is not None else None
        else:
            new = lin_add(lin_term(lt), lin_const(1 if "++" in n["op"] else -1))
        out = []
        if hi is not None:
            out.append((new, lin_const(hi), self._origin(f, nid, "invariant %s.%s<=%d at %s" % (ln["record"], ln["field"], hi, f.show(nid)[:40]))))
        if lo is not None and new is not None:
            out.append((lin_const(lo), new, self._origin(f, nid, "invariant %s.%s>=%d at %s" % (ln["record"], ln["field"], lo, f.show(nid)[:40]))))
        return out

    def _index_goal(self, fb, nid):
        """a[i] on an array of constant bound: i <= bound-1 (reads included:
        the same expression form is used for loads and stores; only arrays
        are checked, not pointers)."""
        f = fb.fn
        n = f.nodes[nid]
        bn = f.nodes[n["base"]]
        while bn["k"] == "paren":
            bn = f.nodes[bn["sub"]]
        # base must be an array lvalue decaying to pointer ...
        if not (bn["k"] == "cast" and bn.get("ck") == "ArrayToPointerDecay"):
            # ... or, for STORES, a pointer whose capacity is a known term (a `char *buf, size_t capacity` parameter pair):
            # buf[i] = x needs (i + 1) * elemsize <= cap(buf)
            par = f.parents().get(nid)
            pn = f.nodes.get(par, {})
            is_store = pn.get("k") == "bin" and pn["op"] in ("=", "+=", "-=", "|=", "&=") and pn["l"] == nid
            if not is_store or not n.get("sz") or not self.ptr_index_stores:
                return None
            b0 = f.nodes[f._strip0(n["base"])]
            if not (b0["k"] == "ref" and b0.get("dk") == "param"):
                return None
            cap = fb.capof(n["base"])
            i = fb.lin(n["idx"])
            if cap is None or i is None:
                return None
            esz = n["sz"]
            size = ({t: c * esz for t, c in i[0].items()}, (i[1] + 1) * esz)
            return (size, cap, self._origin(f, nid, "%s[%s]" % (f.show(n["base"])[:40], f.show(n["idx"])[:30])))
        arr = f.nodes[bn["sub"]]
        if "sz" not in arr or "sz" not in n or not n["sz"]:
            return None
        bound = arr["sz"] // n["sz"]
        i = fb.lin(n["idx"])
        # &a[i] / a[i] both need i < bound; is it a store or address-of? we check all
        par = f.parents().get(nid)
        return (lin_add(i, lin_const(1)) if i is not None else None, lin_const(bound),
                self._origin(f, nid, "%s[%s]" % (f.show(n["base"])[:40], f.show(n["idx"])[:30])))

    def _abduce(self, fb, F, size, cap, origin):
        """find a requirement over the parameters of fb.fn that makes
        size <= cap provable; requirement terms are templates over the
        (never assigned) parameters"""
        f = fb.fn
        if size is None or cap is None:
            return None
        params = {p["name"]: i for i, p in enumerate(f.params) if p["name"] not in fb.assigned}

        def param_only(t):
            if t == ZERO:
                return True
            for mo in WORD.finditer(t):
                w = mo.group(0)
                st = mo.start()
                pre = t[max(0, st - 2):st]
                post = t[mo.end():mo.end() + 1]
                if pre.endswith("->") or pre.endswith(".") or post == "(":
                    continue
                if w in params:
                    continue
                return False
            return True
        cands = []
        ints = [n for n, i in params.items() if not (f.params[i].get("t") or "").rstrip().endswith("*")]
        ptrs = [n for n, i in params.items() if (f.params[i].get("t") or "").rstrip().endswith("*")]
        goal_terms = set(size[0])
        # (1) pair shape: int param <= cap(pointer param); pairs that use the
        # function's own guards (int param is not the written size) first
        pairs = [(a, p) for a in ints for p in ptrs]
        pairs.sort(key=lambda ap: (ap[0] in goal_terms))
        for a, p in pairs:
            cands.append((lin_term(a), lin_term("cap(%s)" % p)))
        # (2) the goal itself, when expressible in parameter templates
        cands.append((size, cap))
        # (3) goal with terms replaced through known bounds
        for t in list(size[0]):
            for (a, b), c in F.f.items():
                if a == t and param_only(b) and b != ZERO and size[0][t] == 1:
                    s2 = dict(size[0])
                    s2.pop(t)
                    s2[b] = s2.get(b, 0) + 1
                    cands.append(((s2, size[1] + c), cap))
        for t in list(cap[0]):
            for (a, b), c in F.f.items():
                if b == t and param_only(a) and cap[0][t] == 1:
                    c2 = dict(cap[0])
                    c2.pop(t)
                    if a != ZERO:
                        c2[a] = c2.get(a, 0) + 1
                    cands.append((size, (c2, cap[1] - c)))
        for lhs, rhs in cands:
            if not all(param_only(t) for t in lhs[0]) or not all(param_only(t) for t in rhs[0]):
                continue
            is_goal = (lhs, rhs) == (size, cap)
            if not is_goal:
                F2 = F.copy()
                fb.add_le(F2, lhs, rhs)
                if F2.key() == F.key() or not fb.prove_le(F2, size, cap):
                    continue
            return Requirement(lhs, rhs, origin)
        return None
