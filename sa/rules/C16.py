"""C16 - readiness is sound: one stable descriptor that is quiet when idle
(structural clauses; actual non-readiness at quiescent points is kernel
state and is not decided).

R1  one descriptor for life: the epoll descriptor is stored only at creation
    of the xpoll, the socket's xpoll only at socket creation; xcm_fd returns
    that descriptor.
R2  the always-readable descriptor is armed only while a bell rings: it is
    registered with no interest, given EPOLLIN only on the ringing edge, and
    every change of a bell is followed by the re-evaluation.
R3  only awaited conditions become interest: the condition -> epoll-event
    mapping of every leaf transport is decided exactly (RECEIVABLE -> EPOLLIN,
    SENDABLE -> EPOLLOUT, ACCEPTABLE -> EPOLLIN, nothing else), and the TLS
    layer in state ready with nothing awaited neither rings nor asks the
    sub-socket for anything.
R4  expired timers are consumed: every expired edge of timer_mgr_has_expired
    is followed by an ack/cancel/reschedule of that timer.
R5  finished helpers deregister their descriptors.
"""
from .. import cfg as C
from .. import interp as I
from .. import seq as S
from .. import tp as TP
from ..model import Program
from ..report import Broken
from .C06 import enum_name

RCV, SND, ACC = 1, 2, 4
EPOLLIN, EPOLLOUT = 1, 4


def run(ctx):
    P = Program(("libxcm",))
    ctx.analysed = {"units": len(P.units), "functions": len(P.functions)}
    ctx.explanation = ("Who-may-write queries on the descriptor fields, control-dependence and must-follow rules on the bell/active-descriptor logic, exact "
                       "folding of the condition-to-event mappings over all condition values, path exploration of the TLS update with nothing awaited.")
    ctx.trust("epoll reports exactly the registered interest; an eventfd with a non-zero count is always readable")
    tables = TP.ops_tables(P)

    # ------------------------------------------------------------------ R1
    r1 = ctx.rule("C16.R1", "xcm_fd() is the one epoll descriptor created with the socket, for the socket's whole life")
    w_epfd = sorted({f.name for f in P.functions for n in f.nodes.values() if n["k"] == "init" and n.get("record") == "xpoll" and "epoll_fd" in (n.get("fields") or [])} |
                    {f.name for f in P.functions for b, i, e, lhs, rhs, op in f.stores() if f.sn(lhs)["k"] == "member" and f.sn(lhs).get("record") == "xpoll" and f.sn(lhs)["field"] == "epoll_fd"})
    r1.instance("xpoll.epoll_fd writers: %s" % w_epfd)
    if w_epfd == ["xpoll_create"]:
        r1.ok("the epoll descriptor is stored only by xpoll_create", "who-may-write")
    else:
        r1.violation("xpoll.epoll_fd:writers", "the epoll descriptor is written by %s" % w_epfd, loc="libxcm/core/xpoll.c")
    w_xp = sorted({f.name for f in P.functions for b, i, e, lhs, rhs, op in f.stores() if f.sn(lhs)["k"] == "member" and f.sn(lhs).get("record") == "xcm_socket" and f.sn(lhs)["field"] == "xpoll"})
    r1.instance("xcm_socket.xpoll writers: %s" % w_xp)
    if set(w_xp) <= {"socket_create", "xcm_tp_socket_create"} and w_xp:
        r1.ok("a socket's xpoll is assigned only at creation", "who-may-write")
    else:
        r1.violation("xcm_socket.xpoll:writers", "the socket's xpoll is written by %s" % w_xp, loc="libxcm/core/xcm.c")
    xf = P.fn("xcm_fd")
    r1.instance("xcm_fd")
    rets = [xf.sn(n["sub"]) for n in xf.nodes.values() if n["k"] == "return" and n.get("sub") is not None and C.const_of(xf, n["sub"]) is None]
    gf = P.fn("xpoll_get_fd")
    g_ok = any(n["k"] == "return" and n.get("sub") is not None and gf.fields_of(n["sub"])[-1:] == ("epoll_fd",) for n in gf.nodes.values())
    if rets and all(r["k"] == "call" and r.get("callee") == "xpoll_get_fd" and xf.fields_of(r["args"][0])[-1:] == ("xpoll",) for r in rets) and g_ok:
        r1.ok("xcm_fd returns xpoll_get_fd(socket->xpoll) = the epoll descriptor", "return origin")
    else:
        r1.violation("xcm_fd:value", "xcm_fd does not return the socket's epoll descriptor", loc=xf.file)
    # sub-sockets share the parent's xpoll
    nshare = 0
    for f in P.functions:
        for c in f.calls("xcm_tp_socket_create"):
            if f.file.startswith("libxcm/tp/") and not f.file.endswith("xcm_tp.c"):
                nshare += 1
                a = f.nodes[c]["args"][2]
                if f.fields_of(a)[-1:] != ("xpoll",) and f.sn(a).get("name") != "xpoll":
                    r1.violation("%s:sub-xpoll" % f.name, "%s creates a sub-socket with %s instead of the parent's xpoll: its descriptors would not be seen through xcm_fd()" % (f.name, f.show(a)), loc=f.loc(c))
    if nshare < 4:
        raise Broken("C16.R1: only %d sub-socket creations found" % nshare)
    r1.ok("%d sub-socket creations pass the parent's xpoll on" % nshare, "argument")

    # ------------------------------------------------------------------ R2
    r2 = ctx.rule("C16.R2", "the always-readable descriptor is watched only while a bell rings")
    ua = P.fn("update_active_fd")
    r2.instance(ua.qname)
    ok_add = all(C.const_of(ua, ua.nodes[c]["args"][2]) == 0 for c in ua.calls("xpoll_fd_reg_add")) and list(ua.calls("xpoll_fd_reg_add"))
    ok_mod = False
    for c in ua.calls("xpoll_fd_reg_mod"):
        a = ua.sn(ua.nodes[c]["args"][2])
        # event = has_ringing_bell(xpoll) ? EPOLLIN : 0
        if a["k"] == "ref":
            for m in ua.nodes.values():
                if m["k"] == "decl":
                    for v in m["vars"]:
                        if v["name"] == a["name"] and v.get("init") is not None:
                            i = ua.sn(v["init"])
                            if i["k"] == "cond" and ua.sn(i["c"]).get("callee") == "has_ringing_bell" and C.const_of(ua, i["tv"]) == EPOLLIN and C.const_of(ua, i["fv"]) == 0:
                                ok_mod = True
        elif a["k"] == "cond" and ua.sn(a["c"]).get("callee") == "has_ringing_bell" and C.const_of(ua, a["tv"]) == EPOLLIN and C.const_of(ua, a["fv"]) == 0:
            ok_mod = True
    hb = P.fn("has_ringing_bell")
    ok_hb = any(n["k"] == "member" and n["field"] == "ringing" for n in hb.nodes.values()) and any(n["k"] == "member" and n["field"] == "free" for n in hb.nodes.values())
    if ok_add and ok_mod and ok_hb:
        r2.ok("registered with no interest; EPOLLIN exactly when a bell in use rings", "constant arguments + conditional")
    else:
        r2.violation("update_active_fd:interest", "always-readable descriptor: registered idle=%s, EPOLLIN only while ringing=%s, ringing test over bells in use=%s: "
                     "an armed always-readable descriptor makes every event loop spin" % (bool(ok_add), ok_mod, ok_hb), loc=ua.file)
    # every change of a bell is followed by update_active_fd
    for f in P.fns_in("core/xpoll.c"):
        writes = [(b, e) for b, i, e, lhs, rhs, op in f.stores() if f.fields_of(lhs)[-1:] in (("ringing",), ("free",)) and f.name not in ("bell_regs_extend_capacity",)]
        if not writes or f.name in ("allocate_bell_reg_idx", "deallocate_bell_reg_idx"):
            continue
        r2.instance("%s: bell change" % f.qname)
        for b, e in writes:
            if C.must_pass(f, [b.id], lambda bb: any(f.nodes[x]["k"] == "call" and f.nodes[x].get("callee") == "update_active_fd" and (bb != b.id or f.blocks[bb].elems.index(x) > f.blocks[bb].elems.index(e)) for x in f.blocks[bb].elems)):
                r2.ok("%s: the change of a bell is followed by update_active_fd" % f.qname, "must-follow")
            else:
                r2.violation("%s:no-reevaluation" % f.name, "%s changes a bell without re-evaluating the always-readable descriptor" % f.name, loc=f.loc(e))
    for name in ("xpoll_bell_reg_add", "xpoll_bell_reg_del"):
        f = P.fn(name)
        r2.instance(name)
        if C.must_pass(f, [f.entry], lambda bb: any(f.nodes[x]["k"] == "call" and f.nodes[x].get("callee") == "update_active_fd" for x in f.blocks[bb].elems)):
            r2.ok("%s re-evaluates the always-readable descriptor" % name, "must-pass")
        else:
            r2.violation("%s:no-reevaluation" % name, "%s does not re-evaluate the always-readable descriptor" % name, loc=f.file)

    # ------------------------------------------------------------------ R3
    r3 = ctx.rule("C16.R3", "only awaited conditions become kernel interest; nothing awaited means no interest and no bell")
    # (a) pure mapping functions: folded exactly over all condition values
    for fname, want in (("conn_event", lambda c: (EPOLLIN if c & RCV else 0) | (EPOLLOUT if c & SND else 0)),
                        ("server_event", lambda c: EPOLLIN if c == ACC else 0)):
        f = P.fn(fname, "ux/xcm_tp_ux.c")
        r3.instance(f.qname)
        it = I.Interp(P)
        badv = []
        for c in range(8):
            try:
                got = it.call(f, [c])
            except I.Unsupported as e:
                raise Broken("C16.R3: %s cannot be folded: %s" % (fname, e))
            if got != want(c) and not (fname == "server_event" and c not in (0, ACC)):
                badv.append((c, got, want(c)))
        if badv:
            r3.violation("%s:mapping" % fname, "%s maps condition %d to epoll events 0x%x (must be 0x%x): interest in something that was not awaited (or none in what was)"
                         % (fname, badv[0][0], badv[0][1], badv[0][2]), loc=f.file)
        else:
            r3.ok("%s: all 8 condition values map to exactly the awaited events" % f.qname, "exact folding")
    # (b) btcp: flags or-ed under the matching condition bit only
    bt = [t for t in tables if t.proto == "btcp"][0]
    nmask = 0
    for g in P.fns_in(bt.slots["update"].file.split("/")[-1]):
        if not any(n["k"] == "bin" and n["op"] == "|=" and C.const_of(g, n["r"]) in (EPOLLIN, EPOLLOUT) for n in g.nodes.values()):
            continue        # by role: the functions that build an epoll event mask bit by bit
        nmask += 1
        r3.instance(g.qname)
        bad = []
        nor = [0]

        class Bits(C.Rule):
            def initial(s2, fn):
                return None       # the condition bit tested on the edge taken

            def branch(s2, fn, st, blk, cond, label):
                if label not in ("T", "F"):
                    return None
                l, op, r = C.cond_atom(fn, cond, label == "T")
                ln = fn.sn(l)
                if ln["k"] == "bin" and ln["op"] == "&" and fn.fields_of(ln["l"])[-1:] == ("condition",) and isinstance(r, tuple):
                    return C.const_of(fn, ln["r"]) if op == "!=" else None
                return None

            def elem(s2, fn, st, nid, blk, idx):
                n = fn.nodes[nid]
                if n["k"] == "bin" and n["op"] == "|=" and C.const_of(fn, n["r"]) in (EPOLLIN, EPOLLOUT):
                    nor[0] += 1
                    ev = C.const_of(fn, n["r"])
                    ok = (ev == EPOLLIN and st in (RCV, ACC)) or (ev == EPOLLOUT and st == SND)
                    if not ok:
                        bad.append((nid, ev, st))
                    return None
                if n["k"] == "bin" and n["op"] == "=" and fn.sn(n["l"])["k"] == "ref" and C.const_of(fn, n["r"]) not in (None, 0, -1) and "event" in fn.sn(n["l"])["name"]:
                    bad.append((nid, C.const_of(fn, n["r"]), "unconditional"))
                return None
        C.explore(g, Bits())
        if nor[0] < 1:
            raise Broken("C16.R3: no event bits set in %s" % g.qname)
        if bad:
            r3.violation("%s:interest" % g.qname, "epoll event 0x%x is requested under condition bit %s" % (bad[0][1], bad[0][2]), loc=g.loc(bad[0][0]))
        else:
            r3.ok("%s: EPOLLIN only under RECEIVABLE/ACCEPTABLE, EPOLLOUT only under SENDABLE" % g.qname, "path exploration")
    if nmask < 1:
        raise Broken("C16.R3: %d event-mask builders in the btcp transport (connection and server expected)" % nmask)
    # (b2) btcp connection in state ready: the update helper folded exactly over every awaited condition - the mask is
    # EPOLLIN iff RECEIVABLE, EPOLLOUT iff SENDABLE, both when both are awaited, and the bell is off
    fold_btcp_ready(P, r3, bt)
    # (c) btls ready with nothing awaited: no bell, nothing asked of the sub-socket
    blt = [t for t in tables if t.proto == "btls"][0]
    cu = TP.conn_update_fn(P, blt)
    if len(cu) != 1:
        raise Broken("C16.R3: connection update helper of btls not found")
    cu = cu[0]
    r3.instance("%s: idle" % cu.qname)
    bad_idle = []
    nidle = [0]

    class Idle(S.SeqRule):
        def user0(s2, fn):
            return (None, None, False, None)       # case, condition==0 known, bell true, last value stored to the sub-socket's condition

        def on_branch(s2, fn, st, blk, cond, label):
            cs, z, bell, sub = st.user
            if isinstance(label, tuple) and label[0] == "case" and fn.fields_of(cond)[-1:] == ("state",):
                return (label[2], z, bell, sub)
            if label in ("T", "F"):
                l, op, r = C.cond_atom(fn, cond, label == "T")
                if fn.fields_of(l)[-1:] == ("condition",) and fn.sn(l)["k"] == "member" and "btcp" not in fn.show(l) and not isinstance(r, tuple) and C.const_of(fn, r) == 0:
                    return (cs, op == "==", bell, sub)
            return None

        def on_store(s2, fn, st, nid, lhs, rhs, op):
            cs, z, bell, sub = st.user
            if fn.fields_of(lhs)[-1:] == ("condition",) and "btcp_socket" in fn.show(lhs) and rhs is not None:
                v = C.const_of(fn, rhs)
                return (cs, z, bell, v if v is not None else "?")
            return None

        def on_call(s2, fn, st, nid, callees, exts):
            n = fn.nodes[nid]
            cs, z, bell, sub = st.user
            if n.get("callee") == "xpoll_bell_reg_mod" and S.truth(fn, st, n["args"][2]) == 1:
                return (cs, z, True, sub)
            return None

        def on_exit(s2, fn, st, ret_nid, ret_cls, top):
            cs, z, bell, sub = st.user
            if top and cs == "conn_state_ready" and z:
                nidle[0] += 1
                if bell or sub != 0:
                    bad_idle.append((bell, sub))
    S.run(Idle(P), cu)
    if nidle[0] < 1:
        raise Broken("C16.R3: the idle path of %s was not explored" % cu.qname)
    if bad_idle:
        r3.violation("%s:idle" % cu.qname, "established and nothing awaited, yet the bell is rung (%s) or the sub-socket is asked for condition %s: the descriptor is readable "
                     "while the application waits for nothing" % bad_idle[0], loc=cu.file)
    else:
        r3.ok("%s: ready with nothing awaited neither rings nor asks the sub-socket for anything" % cu.qname, "path exploration")

    # (c2) the same function folded exactly over its 48 inputs: the sub-socket is never asked for more than the
    #      application awaits or OpenSSL wants, and the bell rings only for something awaited
    from .. import btlsfold as BF
    en = [e for e in blt.unit.enums if e["name"] == "conn_state"][0]
    ready = [c["value"] for c in en["constants"] if c["name"] == "conn_state_ready"]
    try:
        rows = BF.table(P, cu, ready[0])
    except (BF.FoldError, IndexError) as e:
        raise Broken("C16.R3: %s" % e)
    r3.instance("%s: ready table (%d rows)" % (cu.qname, len(rows)))
    badt = []
    for r in rows:
        if r["bell"] and not r["cond"]:
            badt.append((r, "the bell is rung although nothing is awaited"))
        elif not r["bell"] and r["sub_stored"]:
            extra = r["sub"] & ~(r["cond"] | (r["ssl_wants"] if r["ssl_condition"] & r["cond"] else 0))
            if extra:
                badt.append((r, "the sub-socket is asked for %s, which neither the application awaits nor OpenSSL's pending operation wants" % BF.name(extra)))
    if badt:
        r3.violation("%s:ready-table" % cu.qname, "%s [%s]" % (badt[0][1], BF.describe(badt[0][0])), loc=cu.file)
    else:
        r3.ok("%s: in all %d rows the interest handed down is within what is awaited or what OpenSSL wants" % (cu.qname, len(rows)), "exact folding")

    # (d) the awaited condition belongs to the application: a transport writes the condition of its sub-sockets only,
    #     never that of the socket it was called on (a bit or-ed in there would stick after its reason is gone)
    nupd = 0
    for t in tables:
        for slot, f in t.slots.items():
            if f is None:
                continue
            for g in [f] + [h for h in P.fns_in(f.file.split("/")[-1]) if h.static and h is not f]:
                key = (g.file, g.name)
                if key in getattr(run, "_seen_d", set()):
                    continue
                run._seen_d = getattr(run, "_seen_d", set()) | {key}
                for b, i, e, lhs, rhs, op in g.stores():
                    ln = g.sn(lhs)
                    if ln["k"] == "member" and ln["field"] == "condition" and ln.get("record") == "xcm_socket":
                        base = g.sn(ln["base"])
                        if base["k"] == "ref" and base.get("dk") == "param" and g.params and base["name"] == g.params[0]["name"] and (g is f):
                            r3.instance("%s: own condition" % g.qname)
                            r3.violation("%s:own-condition" % g.name, "%s modifies the awaited condition of the socket it was called on (%s): the change outlives its reason and the "
                                         "descriptor stays armed for something the application never asked for" % (g.name, g.show(e)), loc=g.loc(e))
                        else:
                            nupd += 1
    run._seen_d = set()
    w_cond = sorted({f.name for f in P.functions for b, i, e, lhs, rhs, op in f.stores() if f.sn(lhs)["k"] == "member" and f.sn(lhs)["field"] == "condition"
                     and f.sn(lhs).get("record") == "xcm_socket" and f.sn(f.sn(lhs)["base"])["k"] == "ref" and f.sn(f.sn(lhs)["base"]).get("dk") == "param"
                     and f.params and f.sn(f.sn(lhs)["base"])["name"] == f.params[0]["name"]})
    r3.instance("writers of a socket's own condition: %s" % w_cond)
    if set(w_cond) <= {"await", "xcm_tp_socket_create", "sync_update"}:
        r3.ok("a socket's own awaited condition is written only by await() and at creation (%d sub-socket assignments elsewhere)" % nupd, "who-may-write")
    else:
        r3.violation("condition:writers", "a socket's own awaited condition is written by %s" % w_cond, loc=None)

    # ------------------------------------------------------------------ R4
    r4 = ctx.rule("C16.R4", "an expired timer is acknowledged, cancelled or re-armed before the function returns")
    n4 = 0
    for f in P.functions:
        for b, cond in C.cond_blocks(f):
            calls = [x for x in f.walk(cond) if f.nodes[x]["k"] == "call" and f.nodes[x].get("callee") == "timer_mgr_has_expired"]
            if not calls or f.name == "timer_mgr_has_expired":
                continue
            n4 += 1
            r4.instance("%s: %s" % (f.qname, f.show(calls[0])[:60]))
            l, op, r = C.cond_atom(f, cond, True)
            tl = "T" if op == "!=" else "F"
            succ = [s_ for s_, lab in C.edges(f, b) if lab == tl]
            idarg = f.show(f.nodes[calls[0]]["args"][1])

            def consumes(bb):
                for x in f.blocks[bb].elems:
                    m = f.nodes[x]
                    if m["k"] == "call" and m.get("callee") in ("timer_mgr_ack", "timer_mgr_cancel", "timer_mgr_reschedule") and idarg.replace("&", "") in f.show(x).replace("&", ""):
                        return True
                return False
            if succ and C.must_pass(f, succ, consumes):
                r4.ok("%s: the expired %s is consumed on every path" % (f.qname, idarg), "must-follow")
            else:
                r4.violation("%s:%s:not-consumed" % (f.name, idarg), "%s sees that %s expired but a path returns without ack/cancel: the timerfd stays readable and "
                             "the event loop spins" % (f.name, idarg), loc=f.loc(calls[0]))
    if n4 < 3:
        raise Broken("C16.R4: only %d timer expiry tests" % n4)

    # ------------------------------------------------------------------ R5
    r5 = ctx.rule("C16.R5", "finished helpers take their descriptors out of the epoll set")
    for fname, dereg, what in (("xcm_dns_query_result", ("unreg_all_channel_fds",), "the resolver's descriptors stay registered after the result was handed over"),
                               ("track_get_connected_fd", ("xpoll_fd_reg_del", "xpoll_fd_reg_del_if_valid"),
                                "the connected descriptor stays registered for EPOLLOUT (always writable: the loop spins)")):
        g = P.fn(fname)
        r5.instance(g.qname)
        bad5, nsucc = [], [0]

        class Dereg(S.SeqRule):
            max_depth = 0

            def user0(s2, fn):
                return False

            def on_call(s2, fn, st, nid, callees, exts):
                if (fn.nodes[nid].get("callee") or "") in dereg:
                    return True
                return None

            def on_exit(s2, fn, st, ret_nid, ret_cls, top):
                if top and ret_cls != S.NEG:
                    nsucc[0] += 1
                    if not st.user and not bad5:
                        bad5.append(ret_nid)
        S.run(Dereg(P), g)
        if nsucc[0] < 1:
            raise Broken("C16.R5: no successful exit of %s explored" % fname)
        if bad5:
            r5.violation("%s:%s" % (fname, "fds" if "dns" in fname else "reg"), what, loc=g.loc(bad5[0]) if bad5[0] is not None else g.file)
        else:
            r5.ok("%s: every successful exit has taken the helper's descriptors out of the epoll set" % g.qname, "path exploration")

    # ------------------------------------------------------------------ R6
    r6 = ctx.rule("C16.R6", "a registration's kernel mask is the requested one: the no-op shortcut of the epoll wrapper is taken on equality only")
    wrappers = [f for f in P.fns_in("core/xpoll.c") if any(True for _ in f.calls("epoll_ctl")) and any(p["name"] for p in f.params if "event" in p["name"])]
    if not wrappers:
        raise Broken("C16.R6: the epoll_ctl wrapper of xpoll.c was not found")
    for f in wrappers:
        evp = [p["name"] for p in f.params if "event" in p["name"]]
        r6.instance(f.qname)
        bad6 = []
        nquiet = [0]

        class Shortcut(C.Rule):
            def initial(s2, fn):
                return (False, False)       # (equality of the stored and the requested mask known, epoll_ctl called)

            def branch(s2, fn, st, blk, cond, label):
                if label not in ("T", "F"):
                    return None
                l, op, r = C.cond_atom(fn, cond, label == "T")
                if isinstance(r, tuple):
                    return None
                names = {fn.sn(l).get("name"), fn.sn(r).get("name")}
                flds = {fn.fields_of(l)[-1:] or None, fn.fields_of(r)[-1:] or None}
                if op == "==" and names & set(evp) and ("event",) in flds:
                    return (True, st[1])
                return None

            def elem(s2, fn, st, nid, blk, idx):
                n = fn.nodes[nid]
                if n["k"] == "call" and n.get("callee") == "epoll_ctl":
                    return (st[0], True)
                return None

            def at_exit(s2, fn, st, blk):
                if not st[1]:
                    nquiet[0] += 1
                    if not st[0]:
                        bad6.append(blk.id)
        C.explore(f, Shortcut())
        if nquiet[0] < 1:
            raise Broken("C16.R6: %s has no path without epoll_ctl (the equality shortcut)" % f.name)
        if bad6:
            r6.violation("%s:shortcut" % f.name, "%s can return without calling epoll_ctl on a path where the stored mask was not found equal to the requested one: "
                         "a registration is left wider (or narrower) than asked - EPOLLOUT left on an idle socket keeps xcm_fd() readable for nothing" % f.name, loc=f.file)
        else:
            r6.ok("%s skips epoll_ctl only when the stored mask equals the requested one" % f.qname, "path exploration")

    # ------------------------------------------------------------------ R7
    r7 = ctx.rule("C16.R7", "the control listener is parked exactly while the session table is full")
    cfile = [f for f in P.functions if f.file.endswith("ctl/ctl.c")]
    npark = 0
    for f in cfile:
        dom = None
        for c in f.calls("xpoll_fd_reg_mod"):
            ev = C.const_of(f, f.nodes[c]["args"][2])
            if ev is None or "server" not in "".join(f.fields_of(f.nodes[c]["args"][1])):
                continue            # only the listener's registration (the sessions' own registrations follow their pending replies)
            wb, wi = f.where()[c]
            # the guard: a comparison of the session count with a constant, on whose true edge the call sits
            guards = []
            for b, cond in C.cond_blocks(f):
                l, op, r = C.cond_atom(f, cond, True)
                if not isinstance(r, tuple) and f.fields_of(l)[-1:] == ("num_clients",) and C.const_of(f, r) is not None and op == "==" and wb in C.only_via_edge(f, b, "T"):
                    guards.append(b)
            npark += 1
            r7.instance("%s: %s" % (f.qname, f.show(c)[:60]))
            if not guards:
                r7.violation("%s:park-unguarded" % f.name, "the listener's interest is changed without a test of the session count against the table size", loc=f.loc(c))
                continue
            dom = dom or C.dominators(f)
            cnt_stores = [(b.id, i, op) for b, i, e, lhs, rhs, op in f.stores() if f.fields_of(lhs)[-1:] == ("num_clients",)]
            g = guards[0]
            gpos = (g.id, len(g.elems))
            ok7 = True
            for sb, si, op in cnt_stores:
                before = sb in dom[g.id]                                   # the store's block dominates the guard
                reaches = g.id in C.reachable_blocks(f, sb) and sb != g.id  # the guard can run after the store
                if ev == 0 and op in ("++", "post++", "+=") and not before:
                    ok7 = False     # parking must look at the count after the new session was added
                if ev != 0 and op in ("--", "post--", "-=") and (reaches or sb == g.id):
                    ok7 = False     # un-parking must look at the count before the session is removed
            if ok7 and cnt_stores:
                r7.ok("%s: the table-full test sees the count %s" % (f.qname, "after the increment" if ev == 0 else "before the decrement"), "dominance")
            else:
                r7.violation("%s:park-order" % f.name, "%s tests the session count on the wrong side of its update: the listener %s - a client waiting in the backlog keeps "
                             "xcm_fd() readable although nothing can be accepted" % (f.name, "is not parked when the table becomes full" if ev == 0 else "is not released when a slot frees"),
                             loc=f.loc(c))
    if npark < 2:
        raise Broken("C16.R7: only %d park/release sites of the control listener" % npark)

    # ------------------------------------------------------------------ R8
    # close(2) drops an epoll registration only when the LAST reference to the open file goes away.  A descriptor that a
    # forked/exec'ed child inherited (XCM's descriptors are not close-on-exec) stays registered when only closed; the
    # EPOLL_CTL_DEL that follows fails with EBADF, which xpoll ignores, and the hung-up file keeps xcm_fd() readable
    # for ever.  Hence: deregister first, close second - the order every site of the library but one uses.
    r8 = ctx.rule("C16.R8", "a descriptor is taken out of the epoll set before it is closed")
    CLOSERS = ("ut_close", "ut_close_if_valid", "close")
    DELS = ("xpoll_fd_reg_del", "xpoll_fd_reg_del_if_valid")
    # one named exception, with its reason
    EXEMPT = {("libxcm/tp/ux/xcm_tp_ux.c", "deinit"): "a top-level UX socket destroys its whole epoll instance right after deinit; as the UX leg of a UTLS "
              "socket the descriptor is created and closed inside one API call, so no other process can hold a copy"}
    npair = 0
    for f in P.functions:
        if not f.file.startswith("libxcm/") or "sctp" in f.file or "glibc" in f.file:
            continue
        cl = [(c, f.nodes[c]) for c in f.calls() if f.nodes[c].get("callee") in CLOSERS and f.nodes[c]["args"]]
        dl = [(c, f.nodes[c]) for c in f.calls() if f.nodes[c].get("callee") in DELS and len(f.nodes[c]["args"]) > 1]
        pairs = []
        for cc, cn in cl:
            pf = f.apath_str(f.origin(cn["args"][0]))
            for dc, dn in dl:
                pr = f.apath_str(f.origin(dn["args"][1]))
                if pr == pf + "_reg_id" or (pf.rsplit(".", 1)[0] == pr.rsplit(".", 1)[0] and pf.endswith(".fd") and pr.endswith(".fd_reg_id")):
                    pairs.append((cc, dc, pf))
        for cc, dc, pf in pairs:
            npair += 1
            r8.instance("%s: %s" % (f.qname, pf))
            cb, ci = f.where()[cc]
            db, di = f.where()[dc]
            close_first = (cb == db and ci < di) or (cb != db and db in C.reachable_blocks(f, cb))
            if not close_first:
                r8.ok("%s: %s is deregistered before it is closed" % (f.qname, pf), "order of the two calls on every path")
            elif (f.file, f.name) in EXEMPT:
                r8.ok("%s: closed before deregistered - exempt: %s" % (f.qname, EXEMPT[(f.file, f.name)]), "named exception")
            else:
                r8.violation("%s:close-before-deregister:%s" % (f.name, pf.rsplit(".", 1)[-1]), "%s closes %s and only then removes it from the epoll set: if a child process inherited the "
                             "descriptor, the registration survives the close, the removal fails with EBADF (ignored) and the hung-up file keeps xcm_fd() readable for ever" % (f.name, pf),
                             loc=f.loc(cc))
    if npair < 4:
        raise Broken("C16.R8: only %d close/deregister pairs found" % npair)

    # ------------------------------------------------------------------ R9
    # interest that has served its purpose is withdrawn by the update that follows every operation (C04.R1's engine):
    # without it EPOLLOUT stays armed after the last bytes were flushed and the idle descriptor is readable for nothing
    from . import C04 as c04
    r9 = ctx.rule("C16.R9", "send/receive/finish are followed by the socket's update on every path (stale interest is withdrawn)")
    c04.check_update_after_ops(P, r9, ops=("xcm_tp_socket_send", "xcm_tp_socket_receive", "xcm_tp_socket_finish"))

    # ------------------------------------------------------------------ R10
    r10 = ctx.rule("C16.R10", "a control client kept after a step waits for output exactly while a response is pending")
    check_ctl_client_interest(P, r10)

    # ------------------------------------------------------------------ R11
    r11 = ctx.rule("C16.R11", "a helper whose result was taken (connect tracker, resolver) is destroyed in the same call: its timers and descriptors leave the epoll set")
    check_helper_retired(P, r11)


def check_ctl_client_interest(P, rule):
    """the control clients are registered in the socket's own epoll set: a client registered for EPOLLOUT with nothing to
    send is always ready, so xcm_fd() is readable for ever although no XCM call has anything to do (and, the other way
    round, a pending response on an EPOLLIN registration is never sent).  In every function of ctl.c, on every path to
    a return that keeps the client (non-negative, or void), the mask last given to the client's registration and the
    flag last stored agree."""
    fns = [f for f in P.functions if f.file.endswith("ctl/ctl.c")]
    rec = P.record("client")
    flags = [fl["name"] for fl in rec["fields"] if (fl.get("t") or "") in ("_Bool", "bool")]
    if len(flags) != 1:
        raise Broken("C16.R10: the response-pending flag of struct client was not identified (%s)" % flags)
    flag = flags[0]
    EPOLLIN, EPOLLOUT = 1, 4
    nfn = 0
    for f in sorted(fns, key=lambda g: g.name):
        regs = [c for c in f.calls() if f.nodes[c].get("callee") in ("xpoll_fd_reg_mod", "xpoll_fd_reg_add") and "server" not in f.show(c)]
        if not regs:
            continue
        nfn += 1
        rule.instance("%s: %d registration calls for a client" % (f.qname, len(regs)))
        bad = []

        class Agree(S.SeqRule):
            max_depth = 1

            def user0(s2, fn):
                return (None, None)        # (mask last registered, flag last stored)

            def on_call(s2, fn, st, nid, callees, exts):
                if fn is f and nid in regs:
                    m = C.const_of(fn, fn.nodes[nid]["args"][-1])
                    return (m if m is not None else "?", st.user[1])
                return None

            def on_store(s2, fn, st, nid, lhs, rhs, op):
                ln = fn.sn(lhs)
                if fn is f and ln["k"] == "member" and ln.get("field") == flag:
                    v = C.const_of(fn, rhs)
                    return (st.user[0], "?" if v is None else bool(v))
                return None

            def on_exit(s2, fn, st, ret_nid, ret_cls, top):
                if not top or ret_cls == S.NEG:
                    return
                m, fl = st.user
                if m is None or m == "?" or fl == "?":
                    return
                want = bool(m & EPOLLOUT)
                if m & EPOLLOUT and m & EPOLLIN:
                    return
                if fl is None or fl != want:
                    bad.append((ret_nid, m, fl))
        S.run(Agree(P), f)
        if bad:
            ret, m, fl = bad[0]
            rule.violation("%s:interest-and-pending-flag-disagree" % f.name, "%s can keep the client (non-negative return) with its registration set to %s and %s %s: %s"
                           % (f.name, "EPOLLOUT" if m & EPOLLOUT else "EPOLLIN", flag, {None: "not stored", True: "true", False: "false"}[fl],
                              "the writable control connection keeps xcm_fd() readable although nothing is pending" if m & EPOLLOUT else "the pending response is never sent"),
                           loc=f.loc(ret) if ret is not None else f.file)
        else:
            rule.ok("%s: on every path that keeps the client, the registered mask and %s agree" % (f.qname, flag), "path exploration")
    if nfn < 3:
        raise Broken("C16.R10: only %d functions register control clients" % nfn)


def check_helper_retired(P, rule):
    """the connect tracker and the resolver are helper objects with descriptors and timers of their own in the socket's
    epoll set (the attempt's timerfd armed with tcp.connect_timeout, the resolver's channel descriptors).  When the
    transport has taken their result, nothing cancels those any more unless the helper is destroyed: an armed timer
    of a connect that SUCCEEDED expires seconds later and keeps xcm_fd() readable for the rest of the connection's
    life.  On every path on which the taking call succeeded, the helper's destroy function is called before the
    function returns."""
    PAIRS = (("tconnect_get_connected_fd", "tconnect_destroy"), ("xcm_dns_query_result", "xcm_dns_query_destroy"))
    n = 0
    for taker, destroyer in PAIRS:
        for f in P.functions:
            if not f.file.startswith("libxcm/tp/") or not any(True for _ in f.calls(taker)) or f.name == taker:
                continue
            if f.file.endswith(("tconnect.c", "xcm_dns_cares.c")):
                continue
            n += 1
            rule.instance("%s: %s -> %s" % (f.qname, taker, destroyer))
            bad = []

            class Retired(S.SeqRule):
                max_depth = 2

                def user0(s2, fn):
                    return (None, False)        # (the taking call, helper destroyed since)

                def inline(s2, fn, nid, callee):
                    return callee.static and callee.file == f.file and callee is not f        # the success tail may live in a helper

                def on_call(s2, fn, st, nid, callees, exts):
                    nm = fn.nodes[nid].get("callee") or ""
                    if nm == taker:
                        return (nid, False)
                    if nm == destroyer:
                        return (st.user[0], True)
                    return None

                def on_exit(s2, fn, st, ret_nid, ret_cls, top):
                    tk, des = st.user
                    if not top or fn is not f or tk is None or des or bad:
                        return
                    cls = [st.get(("call", tk))] + [st.get(k[1]) for k, v in st.vals if isinstance(k, tuple) and k[0] == "src" and v == ("call", tk)]
                    if any(c in (S.ZERO, S.NONNEG, S.POS) for c in cls):
                        bad.append(ret_nid)
            S.run(Retired(P), f)
            if bad:
                rule.violation("%s:%s-not-retired" % (f.name, destroyer), "%s can return after %s() succeeded without calling %s(): the helper's timer and descriptors stay in the "
                               "socket's epoll set, and when the (now pointless) timeout expires xcm_fd() is readable for ever with nothing to do" % (f.name, taker, destroyer),
                               loc=f.loc(bad[0]) if bad[0] is not None else f.file)
            else:
                rule.ok("%s: a successful %s() is followed by %s() on every path" % (f.qname, taker, destroyer), "path exploration")
    if n < 2:
        raise Broken("C16.R11: only %d result-taking sites found" % n)


def fold_btcp_ready(P, rule, bt):
    """exact folding of btcp's connection update in state `ready` over the awaited conditions 0..3 (SENDABLE and
    RECEIVABLE in every combination - the relay awaits both at once, the suite never does)"""
    cu = TP.conn_update_fn(P, bt)
    if len(cu) != 1:
        raise Broken("C16.R3: connection update helper of btcp not found")
    g = cu[0]
    en = [e for e in bt.unit.enums if e["name"] == "conn_state"]
    ready = [c["value"] for c in en[0]["constants"] if c["name"] == "conn_state_ready"] if en else []
    st = {g.show(n) for n, m in g.nodes.items() if m["k"] == "member" and m.get("field") == "state"}
    co = {g.show(n) for n, m in g.nodes.items() if m["k"] == "member" and m.get("field") == "condition"}
    if len(st) != 1 or len(co) != 1 or len(ready) != 1:
        raise Broken("C16.R3: inputs of %s not identified (state %s, condition %s)" % (g.qname, sorted(st), sorted(co)))
    rule.instance("%s folded over the awaited conditions in state ready" % g.qname)
    bad = []
    for c in range(4):
        rec = {}
        it = I.Interp(P, stubs={"xpoll_bell_reg_mod": lambda a, rec=rec: rec.__setitem__("bell", a[2]) or 0,
                                "xpoll_fd_reg_mod": lambda a, rec=rec: rec.__setitem__("ev", a[2]) or 0,
                                "__log_event": lambda a: 0, "log_is_enabled": lambda a: 0})
        it.record_calls = True
        it.opaque_decls = True
        it.mem = {list(st)[0]: ready[0], list(co)[0]: c}
        try:
            it.call(g, [1])
        except I.Unsupported as e:
            raise Broken("C16.R3: %s cannot be folded for condition %d: %s" % (g.qname, c, e))
        want = (EPOLLIN if c & RCV else 0) | (EPOLLOUT if c & SND else 0)
        if rec.get("ev") != want or rec.get("bell"):
            bad.append((c, rec.get("ev"), rec.get("bell"), want))
    if bad:
        c, ev, bell, want = bad[0]
        rule.violation("%s:ready-mask" % g.name, "%s in state ready with condition %d awaited registers epoll events %s%s (must be 0x%x, bell off): %s"
                       % (g.name, c, "none" if ev is None else "0x%x" % ev, ", bell on" if bell else "", want,
                          "an awaited condition gets no kernel interest - the wake-up for it never comes" if (ev or 0) & want != want else
                          "interest in something that was not awaited"), loc=g.file)
    else:
        rule.ok("%s: conditions 0..3 map to exactly the awaited events, bell off" % g.qname, "exact folding")
