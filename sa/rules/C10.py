"""C10 - attribute reads and writes are memory-safe and type-checked.

R1  every write into the caller's (value, capacity) buffer is bounded by
    capacity: all functions in the attr_node_value.get slot under the slot's
    contract, and the public xcm_attr_get* entry points down through the
    tree to the indirect call (E2).
R2  on success a getter returns the number of bytes it wrote.
R3  the set gate is exhaustive and ordered: length, syntax, existence, node
    kind, writability, type - each with the documented errno - before the
    setter runs; typed getters map EOVERFLOW to ENOENT and check the type.
R4  a setter registered for a fixed-size type reads at most sizeof(type).
R5  a setter that rejects (EINVAL/EACCES/ENOENT assigned by itself) has not
    modified the socket before.
R6  the attribute-name parser: every array access is within bounds.
"""
from .. import bounds as B
from .. import cfg as C
from .. import discr as D
from ..model import Program
from ..report import Broken

ERRNO = {"EINVAL": 22, "EACCES": 13, "ENOENT": 2, "EOVERFLOW": 75}
TYPE_SIZE = {"xcm_attr_type_bool": 1, "xcm_attr_type_int64": 8, "xcm_attr_type_double": 8}


def ptr(p):
    return (p.get("t") or "").rstrip().endswith("*")


def api_contract(f):
    """entry facts of a public getter: a typed pointer has room for its
    pointee; a (buffer, capacity) pair promises capacity bytes."""
    out = []
    ps = f.params
    for i, p in enumerate(ps):
        t = (p.get("t") or "")
        if not ptr(p) or "const" in t:
            continue
        if i + 1 < len(ps) and not ptr(ps[i + 1]) and "capacity" in ps[i + 1]["name"]:
            out.append((B.lin_term(ps[i + 1]["name"]), B.lin_term("cap(%s)" % p["name"])))
    return out


def unreachable_formatter(P, f, u):
    """One named exception, premise re-checked on every run: attr_path_to_str() accumulates snprintf results and
    relies on attr_path_len() having computed the exact total - an agreement the engine cannot prove.  The function has
    no caller in any product of the repository (the unit tests use it); should it gain one, the obligation is reported."""
    if not u["key"].endswith(":size-wraps") or f.name != "attr_path_to_str":
        return None
    if P.callers().get(f):
        return None
    return "%s has no caller in the library (unit-test helper); its size arithmetic rests on attr_path_len() being exact" % f.name


def report_bounds(rule, eng, roots, what):
    """requirements that reach a root and unproved goals in armed functions are violations"""
    seen = set()
    for g in roots:
        rq, unp = eng.analyse(g)
        for r in rq:
            k = r.origin["key"]
            if k in seen:
                continue
            seen.add(k)
            rule.violation(k, "%s: write of %s bytes needs %s <= %s, which no guard on the path from %s establishes (chain %s)"
                           % (what, B.show_lin(r.lhs), B.show_lin(r.lhs), B.show_lin(r.rhs), g.name, " -> ".join(r.origin["chain"])),
                           loc=r.origin["loc"], root=g.name, chain=r.origin["chain"])


def run(ctx):
    P = Program(("libxcm",))
    fp = P.fp()
    ctx.analysed = {"units": len(P.units), "functions": len(P.functions)}
    ctx.explanation = ("Bounded-write analysis (difference-constraint must-facts on the clang CFG, requirements abduced to "
                       "parameters and discharged at call sites, indirect calls resolved through the attribute slots), "
                       "switch exhaustiveness and guard-ordering checks, and a reject-before-mutate path rule on every setter.")
    ctx.trust("clang 14 AST/CFG; sizes of sinks in sa/bounds.py:SINKS (memcpy, strcpy, snprintf, ...) per their man pages")
    ctx.assume("pointer parameters of different names do not alias; a (value, capacity) pair passed by the application is honest")

    getters = sorted(fp.field("attr_node_value", "get"), key=lambda f: f.qname)
    setters = sorted(fp.field("attr_node_value", "set"), key=lambda f: f.qname)

    # ------------------------------------------------------------ R1
    r1 = ctx.rule("C10.R1", "every write into the caller's attribute buffer is bounded by capacity")
    eng = B.Engine(P)
    for g in getters:
        r1.instance("getter:" + g.qname)
        if len(g.params) != 4:
            raise Broken("getter %s does not have the (s, context, value, capacity) signature" % g.qname)
        v, c = g.params[2]["name"], g.params[3]["name"]
        eng.entry_contracts[g] = [(B.lin_term(c), B.lin_term("cap(%s)" % v))]
    r1.floor(40, "attribute getters")
    api = [f for f in P.fns_in("libxcm/core/xcm.c") if not f.static and f.name.startswith("xcm_attr_get")]
    for f in api:
        r1.instance("api:" + f.name)
        eng.entry_contracts[f] = api_contract(f)
        # typed getters: T *value has room for sizeof(T)
        for p in f.params:
            t = p.get("t") or ""
            if ptr(p) and "const" not in t and not t.startswith(("void", "char")):
                n = [x for x in f.nodes.values() if x["k"] == "ref" and x.get("did") == p["did"] and "psz" in x]
                if n:
                    eng.entry_contracts[f].append((B.lin_const(n[0]["psz"]), B.lin_term("cap(%s)" % p["name"])))
    if len(api) < 6:
        raise Broken("public xcm_attr_get* entry points not found")
    # scope: only writes whose capacity is the caller's buffer are claimed
    # here (requirements that reach a root); unproved goals on internal
    # buffers are reported in evidence only.
    report_bounds(r1, eng, getters + api, "attribute getter")
    nreq = 0
    for f, (rq, unp) in eng.memo.items():
        for u in unp:
            if "cap(" in (u["cap"] or "") and any(p["name"] in u["cap"] for p in f.params if ptr(p)):
                r1.violation(u["key"], "write into a caller-supplied buffer cannot be bounded: %s <= %s not provable in %s"
                             % (u["size"], u["cap"], f.name), loc=u["loc"])
            elif "/tp/" in f.file and f.file.endswith(".c") and "xcm_tp_" in f.file:
                # an internal buffer of a transport's getter path (the peer chooses what getpeername/getsockname return)
                r1.violation(u["key"], "attribute getter path: write into an internal buffer not provably within bounds: %s <= %s (in %s)"
                             % (u["size"], u["cap"], f.name), loc=u["loc"])
            else:
                r1.note("outside the claimed scope (internal buffer), unproved: %s %s <= %s at %s" % (u["key"], u["size"], u["cap"], u["loc"]))
    st = eng.stats
    r1.obligations += st["proved"]
    r1.discharged += st["proved"]
    for k, how, sz, cap in eng.sink_log[:8]:
        if how == "proved":
            r1.samples.append({"obligation": "%s: %s <= %s" % (k, sz, cap), "discharged_by": "difference facts on the path"})
    r1.note("sinks: %s" % dict(st))

    # ------------------------------------------------------------ R2
    r2 = ctx.rule("C10.R2", "a getter's positive return value equals the number of bytes it wrote")
    check_return_eq(P, eng, r2, getters)

    # ------------------------------------------------------------ R3
    r3 = ctx.rule("C10.R3", "the set gate is exhaustive and ordered; typed getters check the type")
    check_gate(P, r3)

    # ------------------------------------------------------------ R4
    r4 = ctx.rule("C10.R4", "a setter registered for a fixed-size type reads at most sizeof(type) from value")
    check_setter_reads(P, r4, setters)

    # ------------------------------------------------------------ R5
    r5 = ctx.rule("C10.R5", "a setter that rejects a value has not modified the socket before")
    check_reject_pure(P, eng, r5, setters)

    # ------------------------------------------------------------ R6
    r6 = ctx.rule("C10.R6", "attribute-name parser: every array access within bounds")
    eng6 = B.Engine(P)
    amax = 64
    eng6.invariants[("attr_path", "num_comps")] = (0, amax)
    rec = P.record("attr_path")
    comps = [x for x in rec["fields"] if x["name"] == "comps"]
    if not comps or comps[0].get("alen") != amax:
        eng6.invariants[("attr_path", "num_comps")] = (0, comps[0].get("alen") if comps else 0)
    r6.note("record invariant attr_path.num_comps <= %s assumed everywhere, checked at every store" % eng6.invariants[("attr_path", "num_comps")][1])
    roots6 = [f for f in P.fns_in("libxcm/core/attr_path.c") if not f.static]
    for f in P.fns_in("libxcm/core/attr_path.c"):
        r6.instance(f.name)
    r6.floor(15, "functions of attr_path.c")
    report_bounds(r6, eng6, roots6, "attribute path")
    for f, (rq, unp) in eng6.memo.items():
        if not f.file.endswith("attr_path.c"):
            continue
        for u in unp:
            why = unreachable_formatter(P, f, u)
            if why:
                r6.note("not armed: %s - %s" % (u["key"], why))
                continue
            r6.violation(u["key"], "array/buffer access not provably within bounds: %s <= %s (in %s)" % (u["size"], u["cap"], f.name), loc=u["loc"])
    r6.obligations += eng6.stats["proved"]
    r6.discharged += eng6.stats["proved"]
    for k, how, sz, cap in eng6.sink_log[:6]:
        if how == "proved":
            r6.samples.append({"obligation": "%s: %s <= %s" % (k, sz, cap), "discharged_by": "difference facts on the path"})
    if eng6.stats["cursor_lemma"]:
        ctx.assume("strlen(s + k) <= strlen(s): a parse cursor stays inside its string (used %d times)" % eng6.stats["cursor_lemma"])


    # ------------------------------------------------------------ R8
    r8 = ctx.rule("C10.R8", "no attribute name reaches an aborting accessor: tag-asserting accessors are called only under the matching tag test")
    dz = D.Discr(P, eng)
    scope = [f for f in P.fns_in("libxcm/core/attr_tree.c") if f.name in NAME_DRIVEN]
    for f in scope:
        r8.instance(f.name)
    r8.floor(11, "name-driven functions of attr_tree.c")
    npre = sum(len(dz.pre(g)) for g in P.fns_in("libxcm/core/attr_node.c") + P.fns_in("libxcm/core/attr_path.c"))
    if npre < 12:
        raise Broken("C10.R8: only %d tag-asserting accessors recognised (expected >= 12)" % npre)
    n = dz.check_scope(scope, r8)
    if n < 10:
        raise Broken("C10.R8: only %d guarded accessor calls found in scope" % n)
    r8.note("%d tag preconditions of accessors; %d accessor calls checked" % (npre, n))

    # ------------------------------------------------------------ R10
    r10 = ctx.rule("C10.R10", "the debug log that records a rejected attribute name writes within its buffer whatever the name's length")
    check_logging_bounded(P, r10)

    # ------------------------------------------------------------ R12
    r12 = ctx.rule("C10.R12", "attribute setters copy the caller's value into the socket only after its length was checked against the field it goes into")
    eng12 = B.Engine(P)
    nset = 0
    for g in setters:
        nset += 1
        r12.instance("setter:" + g.qname)
        rq, unp = eng12.analyse(g)
        for r in rq:
            lhs, rhs = B.show_lin(r.lhs), B.show_lin(r.rhs)
            if "num_clients" in lhs:
                continue        # the control interface's session table: C14.R2's invariant
            r12.violation(r.origin["key"], "attribute setter %s: write of %s bytes needs %s <= %s, which no check on the path from the setter establishes (chain %s): an "
                          "over-long value overruns the field" % (g.name, lhs, lhs, rhs, " -> ".join(r.origin["chain"])), loc=r.origin["loc"])
        for u in unp:
            r12.violation(u["key"], "attribute setter %s: write not provably within bounds: %s <= %s" % (g.name, u["size"], u["cap"]), loc=u["loc"])
    npr = sum(1 for k, how, sz, cap in eng12.sink_log if how == "proved")
    r12.obligations += npr
    r12.discharged += npr
    if nset < 20 or npr < 3:
        raise Broken("C10.R12: %d setters, %d writes proved" % (nset, npr))

    # ------------------------------------------------------------ R13
    r13 = ctx.rule("C10.R13", "an attribute name never aborts the process: the path-component accessor is called within its asserted range for every name, the empty one included")
    check_comp_index(P, r13)

    # ------------------------------------------------------------ R11
    r11 = ctx.rule("C10.R11", "the joined value of a list attribute (tls.peer_names) is built in a buffer that holds every element, every separator and the terminator")
    check_join_size(P, r11)

    # ------------------------------------------------------------ R9
    r9 = ctx.rule("C10.R9", "a TCP option value the kernel interface cannot represent is rejected before it is stored (no unguarded narrowing)")
    eng9 = B.Engine(P)
    eng9.narrow_scope = lambda f: f.file.endswith("tcp/tcp_attr.c")
    IM = 2147483647
    # invariants of struct tcp_opts: what effectuate_* can pass to setsockopt without loss
    scale = {}
    for f in P.fns_in("tcp/tcp_attr.c"):
        if f.name.startswith("effectuate_") and len(f.params) == 2 and f.params[1].get("t") == "int64_t":
            k = 1
            for nid, m in f.nodes.items():
                if m["k"] == "bin" and m["op"] == "*":
                    cv = C.const_of(f, m["r"])
                    if cv:
                        k = cv
            scale[f.name[len("effectuate_"):]] = k
    rec = P.record("tcp_opts")
    for fld in rec["fields"]:
        if fld["name"] in scale:
            eng9.invariants[("tcp_opts", fld["name"])] = (1, IM // scale[fld["name"]])
            r9.instance("tcp_opts.%s in [1, %d]" % (fld["name"], IM // scale[fld["name"]]))
    r9.floor(4, "scaled TCP options")
    roots9 = [f for f in P.fns_in("tcp/tcp_attr.c") if not f.static and not f.name.startswith("tcp_get_")]
    report_bounds(r9, eng9, roots9, "TCP option")
    for f, (rq, unp) in eng9.memo.items():
        if f.file.endswith("tcp/tcp_attr.c"):
            for u in unp:
                if "narrowing" in u["key"] or "invariant" in u["key"]:
                    r9.violation(u["key"], "value range not established: %s <= %s (in %s)" % (u["size"], u["cap"], f.name), loc=u["loc"])
    npr = sum(1 for k, how, sz, cap in eng9.sink_log if how == "proved" and ("narrowing" in k or "invariant" in k))
    r9.obligations += npr
    r9.discharged += npr
    for k, how, sz, cap in eng9.sink_log:
        if how == "proved" and "narrowing" in k and len(r9.samples) < 4:
            r9.samples.append({"obligation": "%s: %s <= %s" % (k, sz, cap), "discharged_by": "range facts / record invariant"})
    if npr < 8:
        raise Broken("C10.R9: only %d narrowing/invariant obligations found" % npr)


# ---------------------------------------------------------------------------
def check_join_size(P, rule):
    """A join-style helper measures first (a loop adding strlen of every element to a counter, then a correction), allocates
    that many bytes and then copies every element, separated by one character, into the buffer.  Whatever the shape of the
    copy loop, a terminated string of n >= 1 elements with separators between them needs  sum(strlen) + (n - 1) + 1  bytes.
    The measure side is read off the source: the counter's corrections must add up to at least n for every n >= 1.
    (A special-purpose lemma: the general proof needs a loop invariant over a sum, which the difference-constraint engine
    cannot express.  Functions that do not have this shape are not decided by it.)"""
    nrec = 0
    for f in P.fns_in("common/slist.c") + P.fns_in("common/util.c"):
        allocs = []
        for nid, n in f.nodes.items():
            if n["k"] == "call" and n.get("callee") in ("ut_malloc", "ut_calloc", "malloc", "calloc") and n["args"]:
                a = f.nodes[f._strip0(n["args"][-1] if n.get("callee") == "calloc" else n["args"][0])]
                if a["k"] == "ref" and a.get("dk") == "local":
                    allocs.append((nid, a.get("did"), a["name"]))
        for anid, did, vname in allocs:
            strlen_adds, corr, unknown = 0, [], False

            def lin(x):
                """(coefficient of the collection's length field, constant) or None"""
                x = f._strip0(x)
                m = f.nodes[x]
                cv = C.const_of(f, x)
                if cv is not None:
                    return (0, cv)
                if m["k"] == "member" and m.get("field") in ("len", "num", "count", "num_elems", "size"):
                    return (1, 0)
                if m["k"] == "bin" and m["op"] in ("+", "-"):
                    a, b = lin(m["l"]), lin(m["r"])
                    if a is None or b is None:
                        return None
                    sg = 1 if m["op"] == "+" else -1
                    return (a[0] + sg * b[0], a[1] + sg * b[1])
                return None
            for m in f.nodes.values():
                if m["k"] == "decl":
                    for v in m["vars"]:
                        if v.get("did") == did and v.get("init") is not None:
                            l0 = lin(v["init"])
                            if l0 is None:
                                unknown = True
                            else:
                                corr.append(l0)
                elif m["k"] == "bin" and m["op"] in ("+=", "=", "-=") and f.nodes[f._strip0(m["l"])].get("did") == did and f.nodes[f._strip0(m["l"])]["k"] == "ref":
                    r = f.nodes[f._strip0(m["r"])]
                    if m["op"] == "+=" and r["k"] == "call" and r.get("callee") in ("strlen", "__builtin_strlen"):
                        strlen_adds += 1
                        continue
                    l0 = lin(m["r"])
                    if l0 is None or m["op"] == "=":
                        unknown = True
                    else:
                        corr.append(l0 if m["op"] == "+=" else (-l0[0], -l0[1]))
            copies = [c for c in f.calls() if f.nodes[c].get("callee") in ("strcpy", "stpcpy", "strcat", "__builtin_strcpy", "__builtin_stpcpy")]
            seps = [e for b, i, e, lhs, rhs, op in f.stores() if op == "=" and rhs is not None and f.nodes[f._strip0(lhs)]["k"] in ("index", "un")
                    and f.nodes[f._strip0(rhs)]["k"] == "ref" and f.nodes[f._strip0(rhs)].get("dk") == "param" and "char" in (f.nodes[f._strip0(rhs)].get("t") or "")]
            if strlen_adds != 1 or not copies or not seps or unknown:
                continue        # not the measure-then-fill shape
            nrec += 1
            rule.instance("%s: %s bytes for the joined string" % (f.qname, vname))
            a = sum(x[0] for x in corr)
            c = sum(x[1] for x in corr)
            if a >= 1 and (a - 1) + c >= 0:
                rule.ok("%s allocates sum(strlen) + %d*n%+d bytes: room for n - 1 separators and the terminator" % (f.qname, a, c), "measure/fill agreement")
            else:
                rule.violation("%s:joined-size" % f.name, "%s allocates sum(strlen) + %d*n%+d bytes for n elements joined by a separator: the terminated result needs "
                               "sum(strlen) + n, so the last byte is written past the end of the heap block" % (f.name, a, c), loc=f.loc(anid))
    if nrec < 1:
        rule.note("no join-style helper of the measure-then-fill shape found: not decided here")
    return nrec


def check_logging_bounded(P, rule):
    """R10: an attribute name (however long) is also handed to the debug log before it is rejected; every write of the
    log formatter is within its buffer - including sizes computed as unsigned differences, which must not wrap"""
    eng = B.Engine(P)
    lf = [f for f in P.fns_in("libxcm/core/log.c")] + [g for g in (P.fn_opt("ut_vaprintf"), P.fn_opt("ut_aprintf")) if g]
    if len(lf) < 4:
        raise Broken("C10.R10: log formatter functions not found")
    nlit = 0
    for f in lf:
        rule.instance(f.qname)
        rq, unp = eng.analyse(f)
        for u in unp:
            rule.violation(u["key"], "log formatter: write not provably within its buffer: %s <= %s (in %s); a long attribute name reaches this code when debug "
                           "logging is on" % (u["size"], u["cap"], f.name), loc=u["loc"])
        if f.static:
            continue
        for r in rq:
            lhs, rhs = B.show_lin(r.lhs), B.show_lin(r.rhs)
            pn = [p["name"] for p in f.params]
            if "strlen(file)" in lhs and "file" in pn:
                # discharged at the call sites: the file argument is the __FILE__ literal
                fi = pn.index("file")
                for g in P.functions:
                    for c in g.calls(f.name):
                        a = g.sn(g.nodes[c]["args"][fi]) if fi < len(g.nodes[c]["args"]) else None
                        if a is None:
                            continue
                        nlit += 1
                        if not (a["k"] == "str" and a.get("len", 1 << 30) + 1 <= 256):
                            rule.violation("%s:file-argument" % g.name, "%s is called with a file name that is not a short literal" % f.name, loc=g.loc(c))
            elif "cap(" in rhs and lhs in pn:
                pass        # the (buffer, capacity) contract of an exported helper
            else:
                rule.violation(r.origin["key"], "log formatter: write of %s bytes needs %s <= %s, which nothing establishes" % (lhs, lhs, rhs), loc=r.origin["loc"])
    npr = sum(1 for k, how, sz, cap in eng.sink_log if how == "proved")
    rule.obligations += npr
    rule.discharged += npr
    if npr < 4:
        raise Broken("C10.R10: only %d formatter writes proved" % npr)
    rule.note("%d __log_event call sites pass a __FILE__ literal" % nlit)


# the functions of attr_tree.c that walk the tree along a name supplied from outside (xcm_attr_get/set, get-all); the
# tree *construction* functions are fed by the library's own names only
NAME_DRIVEN = ("node_lookup", "attr_tree_set_value", "attr_tree_get_value", "attr_tree_get_list_len",
               "visit_value", "visit_dict", "visit_list", "visit_node", "foreach_dict_key", "foreach_list_index",
               "attr_tree_get_all")


def check_return_eq(P, eng, rule, getters):
    """functions writing a constant number of bytes K to a pointer parameter
    return K on the path through the write"""
    seen = set()
    work = list(getters)
    while work:
        f = work.pop()
        if f in seen:
            continue
        seen.add(f)
        for c in f.calls():
            defs, exts = P.callees(f, c)
            for d in defs:
                if d.name.startswith(("xcm_tp_get_", "tcp_get_", "get_", "addr_to_attr")) and d not in seen:
                    work.append(d)
        fb = None
        pnames = {p["name"] for p in f.params if ptr(p)}
        for c in f.calls():
            n = f.nodes[c]
            if n.get("callee") not in ("memcpy", "strcpy"):
                continue
            dn = f.sn(n["args"][0])
            if not (dn["k"] == "ref" and dn["name"] in pnames):
                continue
            if fb is None:
                fb = B.FnBounds(eng, f)
            if n["callee"] == "memcpy":
                size = fb.lin(n["args"][2])
            else:
                size = B.lin_add(B.lin_term("strlen(%s)" % fb.term(n["args"][1])), B.lin_const(1))
            if size is None:
                continue
            rule.instance("%s:%s" % (f.qname, n["callee"]))
            # returns reachable after the write
            wb, wi = f.where()[c]
            reach = C.reachable_blocks(f, wb)
            ok = True
            nret = 0
            for b in reach:
                for i, e in enumerate(f.blocks[b].elems):
                    m = f.nodes[e]
                    if m["k"] != "return" or m.get("sub") is None:
                        continue
                    if b == wb and i < wi:
                        continue
                    rv = fb.lin(m["sub"])
                    F = fb.before.get(e, B.Facts())
                    if rv is not None and not rv[0] and rv[1] < 0:
                        continue     # failure return after the write (none expected)
                    nret += 1
                    rn = f.sn(m["sub"])
                    if rn["k"] == "ref" and rn["dk"] == "local":
                        # single-exit style: the definitions of the returned
                        # variable that reach the return from the write
                        bad = defs_after(f, fb, c, e, rn["did"], size)
                        if bad is None:
                            continue
                        if not bad:
                            continue
                    if rv is None or not (fb.prove_le(F, rv, size) and fb.prove_le(F, size, rv)):
                        ok = False
                        rule.violation("%s:return" % f.name, "returns %s after writing %s bytes" % (f.show(m["sub"]), B.show_lin(size)), loc=f.loc(e))
            if ok and nret:
                rule.ok("%s returns %s = bytes written" % (f.qname, B.show_lin(size)), "linear equality at the return")
    rule.floor(10, "writing getters")


def defs_after(f, fb, write_nid, ret_nid, did, size):
    """walk forward from the write; every definition of variable `did` that
    reaches the return must equal `size`.  Returns [] if all do, None if no
    definition lies between the write and the return, else the bad ones."""
    wb, wi = f.where()[write_nid]
    work = [(wb, wi + 1, None)]
    seen = set()
    bad = []
    found = False
    while work:
        b, i, last = work.pop()
        if (b, i, last) in seen:
            continue
        seen.add((b, i, last))
        blk = f.blocks[b]
        stop = False
        for j in range(i, len(blk.elems)):
            e = blk.elems[j]
            n = f.nodes[e]
            if n["k"] == "bin" and n["op"] == "=" and f.sn(n["l"]).get("did") == did:
                last = e
            if e == ret_nid:
                if last is None:
                    return None
                found = True
                m = f.nodes[last]
                rv = fb.lin(m["r"])
                F = fb.before.get(last, B.Facts())
                if rv is None or not (fb.prove_le(F, rv, size) and fb.prove_le(F, size, rv)):
                    bad.append(last)
                stop = True
                break
        if stop or blk.noreturn:
            continue
        for s2, lab in C.edges(f, blk):
            work.append((s2, 0, last))
    return bad if found else None


def check_gate(P, rule):
    # valid_set_attr_len: switch covers every enumerator of xcm_attr_type
    f = P.fn("valid_set_attr_len")
    en = P.enum("xcm_attr_type")
    cases = set()
    for b in f.blocks.values():
        if b.label and b.label["kind"] == "case":
            cases.add(b.label.get("value"))
    rule.instance("valid_set_attr_len")
    missing = [c["name"] for c in en["constants"] if c["value"] not in cases]
    if missing:
        rule.violation("valid_set_attr_len:switch", "no length rule for %s" % missing, loc=f.file)
    else:
        rule.ok("valid_set_attr_len handles all %d enumerators of xcm_attr_type" % len(en["constants"]), "switch exhaustiveness")
    # fixed-size types demand exactly sizeof(T)
    for b in f.blocks.values():
        if b.label and b.label["kind"] == "case" and b.label.get("name") in TYPE_SIZE:
            want = TYPE_SIZE[b.label["name"]]
            good = False
            for e in b.elems:
                n = f.nodes[e]
                if n["k"] == "bin" and n["op"] == "==":
                    cv = C.const_of(f, n["r"])
                    if cv == want:
                        good = True
            rule.instance("len(%s)" % b.label["name"])
            if good:
                rule.ok("%s demands len == %d" % (b.label["name"], want))
            else:
                rule.violation("valid_set_attr_len:%s" % b.label["name"], "length of a %s value is not compared with %d" % (b.label["name"], want), loc=f.file)
    # attr_tree_set_value: the setter call is dominated by the failing edges
    # of the five tests, each with its errno
    g = P.fn("attr_tree_set_value")
    expect = [("valid_set_attr_len", "EINVAL"), ("attr_path_parse", "EINVAL"), ("node_lookup", "ENOENT"),
              ("attr_node_is_value", "EACCES"), ("attr_node_value_is_writable", "EACCES"),
              ("attr_node_value_get_value_type", "EINVAL")]
    check_guard_ladder(P, rule, g, "attr_node_value_set", expect)
    g2 = P.fn("attr_tree_get_value")
    expect2 = [("attr_path_parse", "EINVAL"), ("node_lookup", "ENOENT"), ("attr_node_is_value", "EACCES"),
               ("attr_node_value_is_readable", "EACCES")]
    check_guard_ladder(P, rule, g2, "attr_node_value_get", expect2)
    # attr_get_with_type: type mismatch => ENOENT; EOVERFLOW => ENOENT
    h = P.fn("attr_get_with_type")
    rule.instance("attr_get_with_type")
    has_type_cmp = False
    maps_overflow = False
    for b in h.blocks.values():
        if b.term and b.term.get("cond") is not None:
            l, op, r = C.cond_atom(h, b.term["cond"], True)
            ls, rs = h.show(l), (h.show(r) if not isinstance(r, tuple) else str(r[1]))
            if op in ("!=", "==") and "actual_type" in (ls + rs) or ("type" in ls and "type" in rs):
                has_type_cmp = True
            if "errno" in ls and C.const_of(h, r) == ERRNO["EOVERFLOW"]:
                maps_overflow = True
    if has_type_cmp and maps_overflow:
        rule.ok("attr_get_with_type compares the actual type and maps EOVERFLOW to ENOENT")
    else:
        rule.violation("attr_get_with_type", "typed getter lacks the type comparison or the EOVERFLOW->ENOENT mapping", loc=h.file)
    # every typed public getter goes through a type test
    for f2 in P.fns_in("libxcm/core/xcm.c"):
        if f2.static or not f2.name.startswith("xcm_attr_get_") or f2.name in ("xcm_attr_get_all", "xcm_attr_get_list_len"):
            continue
        if f2.name.startswith("xcm_attr_getf"):
            continue
        rule.instance(f2.name)
        direct = any(f2.nodes[c].get("callee") == "attr_get_with_type" for c in f2.calls())
        cmp_ = False
        for b in f2.blocks.values():
            if b.term and b.term.get("cond") is not None:
                l, op, r = C.cond_atom(f2, b.term["cond"], True)
                if not isinstance(r, tuple) and op in ("!=", "==") and h.nodes is not None:
                    rn = f2.sn(r)
                    if rn["k"] == "ref" and rn["dk"] == "enumconst" and rn["name"].startswith("xcm_attr_type_"):
                        cmp_ = True
        if direct or cmp_:
            rule.ok("%s checks the value type" % f2.name)
        else:
            rule.violation("%s:type" % f2.name, "typed getter returns a value without checking its type", loc=f2.file)


def check_guard_ladder(P, rule, g, target, expect):
    """every path to the call `target` in g passes, in order, the success
    edges of the calls in expect; the failing edge of each assigns the errno
    and returns -1 without reaching target."""
    tgt = [c for c in g.calls(target)]
    if not tgt:
        raise Broken("anchor vanished: %s does not call %s" % (g.name, target))
    tb = g.where()[tgt[0]][0]
    dom = C.dominators(g)
    for name, err in expect:
        rule.instance("%s:%s" % (g.name, name))
        cs = list(g.calls(name))
        if not cs:
            rule.violation("%s:%s" % (g.name, name), "%s is no longer consulted before %s" % (name, target), loc=g.file)
            continue
        c = cs[0]
        cb = g.where()[c][0]
        # find the branch that tests the result: the first conditional block at/after cb dominated by cb that dominates tb
        ok = False
        for b in sorted(dom[tb]):
            pass
        # locate test block: walk forward from cb along unconditional edges
        b = cb
        steps = 0
        test = None
        while steps < 30:
            blk = g.blocks[b]
            es = C.edges(g, blk)
            if len(es) == 2 and es[0][1] in ("T", "F"):
                cond = blk.term.get("cond")
                # does the condition involve the call's value (directly or via the variable assigned)?
                test = b
                break
            if len(es) != 1:
                break
            b = es[0][0]
            steps += 1
        if test is None or test not in dom[tb]:
            rule.violation("%s:%s" % (g.name, name), "the result of %s does not guard the call of %s" % (name, target), loc=g.loc(c))
            continue
        # the edge that does not lead to target must set errno = err and return
        blk = g.blocks[test]
        es = C.edges(g, blk)
        fail_edges = [s for s, lab in es if tb not in C.reachable_blocks(g, s)]
        if len(fail_edges) != 1:
            rule.violation("%s:%s" % (g.name, name), "the test of %s does not separate a failure exit from %s" % (name, target), loc=g.loc(c))
            continue
        want = ERRNO[err]
        got = None
        for bb in C.reachable_blocks(g, fail_edges[0]):
            for e in g.blocks[bb].elems:
                n = g.nodes[e]
                if n["k"] == "bin" and n["op"] == "=" and g.show(n["l"]) == "errno":
                    got = C.const_of(g, n["r"])
                    break
            if got is not None:
                break
        if got == want:
            rule.ok("%s: failing %s => errno %s, %s not reached" % (g.name, name, err, target), "dominance + failure edge")
        else:
            rule.violation("%s:%s:errno" % (g.name, name), "failing %s reports errno %s instead of %s" % (name, got, err), loc=g.loc(c))


def check_setter_reads(P, rule, setters):
    # registration sites: attr_tree_add_value_node(tree, path, s, ctx, type, set, get)
    reg = {}
    for f in P.functions:
        for c in f.calls("attr_tree_add_value_node"):
            n = f.nodes[c]
            if len(n["args"]) < 7:
                continue
            tn = f.sn(n["args"][4])
            sn = f.sn(n["args"][5])
            if sn["k"] == "ref" and sn["dk"] == "function" and tn["k"] == "ref":
                d = P.resolve_direct(f, sn["name"])
                if d:
                    reg.setdefault(d, set()).add(tn["name"])
    for s in setters:
        types = reg.get(s, set())
        rule.instance("%s:%s" % (s.qname, ",".join(sorted(types)) or "?"))
        if not types:
            rule.violation("%s:unregistered" % s.name, "setter in the slot but no registration site with a constant type found", loc=s.file)
            continue
        limit = min((TYPE_SIZE[t] for t in types if t in TYPE_SIZE), default=None)
        if limit is None:
            rule.ok("%s: variable-size type %s (length passed along)" % (s.qname, sorted(types)))
            continue
        worst = max_read(P, s, 2, 0)
        if worst is None:
            rule.ok("%s (%s) does not read its value directly" % (s.qname, sorted(types)))
        elif worst <= limit:
            rule.ok("%s (%s) reads %d <= %d bytes" % (s.qname, sorted(types), worst, limit))
        else:
            rule.violation("%s:read" % s.name, "reads %d bytes from a %s value (gate guarantees %d)" % (worst, sorted(types), limit), loc=s.file)
    rule.floor(20, "attribute setters")


def max_read(P, f, pidx, depth):
    """largest constant number of bytes read through parameter pidx of f"""
    if depth > 3 or pidx >= len(f.params):
        return None
    did = f.params[pidx]["did"]
    worst = None

    def upd(v):
        nonlocal worst
        if v is not None:
            worst = v if worst is None else max(worst, v)
    par = f.parents()
    for nid, n in f.nodes.items():
        if n["k"] == "ref" and n.get("did") == did:
            # climb through casts
            x = nid
            while x in par and f.nodes[par[x]]["k"] in ("cast", "paren"):
                x = par[x]
            p = par.get(x)
            if p is None:
                continue
            pn = f.nodes[p]
            if pn["k"] == "un" and pn["op"] == "*":
                upd(f.nodes[x].get("psz"))
            elif pn["k"] == "call":
                ai = [i for i, a in enumerate(pn["args"]) if a == x]
                if not ai:
                    continue
                name = pn.get("callee")
                if name in ("memcpy", "memmove") and ai[0] == 1:
                    upd(C.const_of(f, pn["args"][2]))
                elif name:
                    d = P.resolve_direct(f, name)
                    if d:
                        upd(max_read(P, d, ai[0], depth + 1))
    return worst


def check_reject_pure(P, eng, rule, setters):
    """path rule: on a path where the function itself assigns errno in
    {EINVAL, EACCES, ENOENT} and returns a negative constant, nothing before
    the return has modified memory reachable from the socket."""
    todo = list(setters)
    seen = set()
    REJ = set(ERRNO[x] for x in ("EINVAL", "EACCES", "ENOENT"))
    while todo:
        f = todo.pop()
        if f in seen:
            continue
        seen.add(f)
        for c in f.calls():
            defs, _ = P.callees(f, c)
            for d in defs:
                if d.static and d.file == f.file and d not in seen and any(p["name"] == "s" or "xcm_socket" in (p.get("t") or "") for p in d.params):
                    todo.append(d)
        rule.instance(f.qname)
        local_objs = set()
        for nid, n in f.nodes.items():
            if n["k"] == "decl":
                for v in n["vars"]:
                    if v.get("init") is not None:
                        rn = f.sn(v["init"])
                        if rn["k"] == "call" and not rn.get("callee", "").startswith(("XCM_TP_GETPRIV",)):
                            cal = rn.get("callee") or ""
                            if cal.startswith(("slist_split", "slist_create", "ut_", "attr_path_parse", "xcm_attr_map_create")):
                                local_objs.add(v["did"])
                    if not ptr(v) and v.get("alen") is None:
                        local_objs.add(v["did"])
                    if v.get("alen") is not None:
                        local_objs.add(v["did"])

        def is_state_lvalue(nid):
            p = f.apath(nid)
            root = p[0]
            if root[0] != "var":
                return True
            if root[1] in local_objs:
                return False
            # plain local scalar
            rn = [m for m in f.nodes.values() if m["k"] == "ref" and m.get("did") == root[1]]
            if rn and rn[0]["dk"] == "local" and len(p) == 1:
                return False
            return len(p) > 1 or rn[0]["dk"] in ("global", "static_local")

        class R(C.Rule):
            def initial(self, fn):
                return (None, None)      # (first effect description, errno set by this function)

            def elem(self, fn, st, nid, blk, idx):
                eff, er = st
                n = fn.nodes[nid]
                k = n["k"]
                if k == "bin" and n["op"] in B_ASSIGN:
                    if fn.show(n["l"]) == "errno":
                        return (eff, C.const_of(fn, n["r"]))
                    if eff is None and is_state_lvalue(n["l"]):
                        return ("store to %s at %s" % (fn.show(n["l"]), fn.loc(nid)), er)
                elif k == "un" and n["op"] in ("++", "--", "post++", "post--"):
                    if eff is None and is_state_lvalue(n["sub"]):
                        return ("store to %s" % fn.show(n["sub"]), er)
                elif k == "call":
                    if n.get("callee") in B.PURE_EXT or (n.get("callee") or "").startswith("__"):
                        return None
                    if eng.is_pure(fn, nid):
                        return None
                    if eff is None:
                        for a in n["args"]:
                            t = fn.nodes[a].get("t") or ""
                            if t.rstrip().endswith("*") and "const" not in t.split("*")[0]:
                                an = fn.sn(a)
                                if an["k"] in ("ref", "member", "un") and is_state_lvalue(a if an["k"] != "un" else an["sub"]):
                                    # the raw socket pointer passed to a reader (TOBTLS) is not an effect
                                    if an["k"] == "ref" and an["dk"] == "param" and eng.is_pure(fn, nid):
                                        continue
                                    return ("call %s at %s" % (fn.show(nid)[:60], fn.loc(nid)), None)
                    # a non-pure call may set errno itself
                    return (eff, None)
                elif k == "return":
                    if n.get("sub") is not None:
                        v = C.const_of(fn, n["sub"])
                        if v is not None and v < 0 and er in REJ and eff is not None:
                            rule.violation("%s:reject-after-effect" % fn.name,
                                           "rejects with errno %d after %s" % (er, eff), loc=fn.loc(nid))
                return None
        C.explore(f, R())
        rule.ok("%s: no rejection after a modification" % f.qname, "path exploration")
    rule.floor(26, "setters and their helpers")


B_ASSIGN = {"=", "+=", "-=", "*=", "/=", "%=", "&=", "|=", "^=", "<<=", ">>="}


def check_comp_index(P, rule):
    """attr_path_get_comp(path, i) asserts i < path->num_comps (ut_assert aborts).  Every attribute name an application -
    or a control client - hands in reaches these call sites, so the assertion must be provable at each of them: the
    index below the number of components, and an index computed as an unsigned difference (`num - 1`) not wrapped
    (the empty name parses to a path of zero components)."""
    acc = P.fn("attr_path_get_comp")
    pre = None
    for b, cond in C.cond_blocks(acc):
        l, op, r = C.cond_atom(acc, cond, False)
        if isinstance(l, tuple) or isinstance(r, tuple):
            continue
        ln, rn = acc.nodes[acc._strip0(l)], acc.nodes[acc._strip0(r)]
        if ln["k"] == "ref" and ln.get("dk") == "param" and rn["k"] == "member" and op == "<":
            pre = ([i for i, p in enumerate(acc.params) if p["name"] == ln["name"]][0], rn["field"],
                   [i for i, p in enumerate(acc.params) if p["name"] == acc.sn(rn["base"]).get("name")][0])
    if pre is None:
        rule.note("attr_path_get_comp no longer asserts its index: nothing to prove")
        rule.instance("attr_path_get_comp (no asserted range)")
        rule.ok("no assertion on the index", "accessor body")
        return
    ii, fld, bi = pre
    eng = B.Engine(P)
    # the tree's query interface (names come from the application or a control client) and what it reaches; the
    # registration interface (attr_tree_add_*: names are the library's own literals) is C14.R3's business
    roots = [g for g in P.fns_in("libxcm/core/attr_tree.c") if not g.static and not g.name.startswith(("attr_tree_add", "attr_tree_create", "attr_tree_destroy"))]
    nd, work = set(roots), list(roots)
    while work:
        g = work.pop()
        for c in g.calls():
            nm = g.nodes[c].get("callee")
            d = P.resolve_direct(g, nm) if nm else None        # direct calls only: the value callbacks are not part of the walk
            if d is not None and d not in nd:
                nd.add(d)
                work.append(d)
    n = 0
    for f in P.functions:
        if not f.file.startswith("libxcm/") or f is acc or f not in nd:
            continue
        calls = list(f.calls(acc.name))
        if not calls:
            continue
        fb = B.FnBounds(eng, f)
        for c in calls:
            n += 1
            args = f.nodes[c]["args"]
            rule.instance("%s: %s" % (f.qname, f.show(c)[:50]))
            F = fb.before.get(c, B.Facts())
            idx = fb.lin(args[ii])
            num = B.lin_term("%s->%s" % (fb.term(args[bi]), fld))
            ok = idx is not None and fb.prove_le(F, B.lin_add(idx, B.lin_const(1)), num)
            wrap_ok = True
            o = f.nodes[f.origin(args[ii])]
            d = f.def_expr(f._strip0(args[ii])) if f.nodes[f._strip0(args[ii])]["k"] == "ref" else None
            for cand in (o, f.nodes[f._strip0(d)] if d is not None else None):
                if cand is not None and cand["k"] == "bin" and cand["op"] == "-" and (cand.get("uns") or "size_t" in (cand.get("t") or "") or "unsigned" in (cand.get("t") or "")):
                    a, b_ = fb.lin(cand["l"]), fb.lin(cand["r"])
                    # decided with the facts in front of the subtraction itself: afterwards the (unsigned, hence
                    # non-negative) result would "prove" its own precondition
                    x, par, w = cand["id"], f.parents(), f.where()
                    while x is not None and x not in w:
                        x = par.get(x)
                    Fd = fb.before.get(x, B.Facts()) if x is not None else B.Facts()
                    if a is None or b_ is None or not fb.prove_le(Fd, b_, a):
                        wrap_ok = False
            if ok and wrap_ok:
                rule.ok("%s: %s < %s at the call" % (f.name, f.show(args[ii])[:20], B.show_lin(num)), "difference constraints")
            elif not wrap_ok:
                rule.violation("%s:component-index-wraps" % f.name, "%s computes the component index `%s` as an unsigned difference that wraps when the path has no components "
                               "(the empty attribute name): attr_path_get_comp's assertion aborts the process" % (f.name, f.show(args[ii])[:30]), loc=f.loc(c))
            else:
                rule.violation("%s:component-index-unbounded" % f.name, "%s calls attr_path_get_comp(%s) without the index being below the number of components on every path: "
                               "the accessor's assertion aborts the process" % (f.name, f.show(args[ii])[:30]), loc=f.loc(c))
    if n < 1:
        raise Broken("C10.R13: no call of attr_path_get_comp on the query paths")
