"""C13 - name resolution and multi-address connect (structural clauses).

The algorithm's behaviour over resolver answers and peer reactions is a
relation on run-time histories and is not decided.  Decided:

R1  no address of an automatic object outlives its frame: no caller passes
    &local (or a pointer that may hold one) to a parameter that escapes into
    heap/global storage (whole libxcm; the connect tracker's borrowed
    local_ip is the instance the property names).
R2  every waiting loop can be left on failure: in every loop that contains a
    blocking wait, the failure outcome of each status call has a feasible
    path out of the loop (comparisons that cannot be true - an ordered
    comparison of a pointer with 0 - are dead edges).
R3  the errno of a failed attempt is recorded before the next address is
    tried and is captured fresh (C06.R3's engine on tconnect.c/btcp).
R4  algorithm dispatch: `single` hands exactly one address to the tracker,
    `sequential` all of them, an unknown algorithm is an error; the count and
    the list reach the tracker unchanged; the tracker walks the list forward
    from the current index.
R5  documented errnos: resolution failure/timeout => ENOENT, attempt timeout
    => ETIMEDOUT (stored on the expired edge of the attempt timer, followed
    by abort + next address), list exhausted without a reason => ENOENT.
R6  the configured timeouts are the ones armed: the attempt timer is
    scheduled with the socket's tcp.connect_timeout on the EINPROGRESS edge,
    the resolver's overall timer with the dns.timeout handed down.
R7  with a local address configured, every attempt binds before it connects
    and a failed bind never reaches connect().
"""
from .. import cfg as C
from .. import seq as S
from .. import escape as ESC
from .. import tp as TP
from ..model import Program
from ..report import Broken
from . import C06 as c06

BLOCKING_EXT = {"poll": 2, "ppoll": 2, "epoll_wait": 3, "epoll_pwait": 4, "select": 4, "pselect": 4}


def is_ptr_type(t):
    return bool(t) and t.rstrip().endswith("*")


def dead_cmp(f, cond):
    """edge label that can never be taken because the condition is an ordered
    comparison of a pointer with 0 (p < 0: never true; p >= 0: always true)"""
    l, op, r = C.cond_atom(f, cond, True)
    if isinstance(r, tuple):
        return None
    c = C.const_of(f, r)
    ln = f.sn(l)
    if c == 0 and is_ptr_type(ln.get("t")) and op in ("<", ">=", ">", "<="):
        # unsigned/pointer < 0 never holds; >= 0 always holds
        if op == "<":
            return "T"
        if op == ">=":
            return "F"
    return None


def blocking_leafs(P):
    out = set()
    for f in P.functions:
        for c in f.calls():
            n = f.nodes[c]
            defs, exts = P.callees(f, c)
            for x in exts:
                if x in BLOCKING_EXT:
                    ai = BLOCKING_EXT[x]
                    if ai < len(n["args"]) and C.const_of(f, n["args"][ai]) != 0:
                        out.add(f)
    return out


def result_holder(f, call):
    """('var', did, name) | ('call', nid) | None for an int-returning call
    whose value is kept or tested"""
    par = f.parents().get(call)
    x = call
    while par is not None and f.nodes[par]["k"] in ("paren", "cast", "opaque"):
        x = par
        par = f.parents().get(par)
    if par is None:
        return ("call", call)
    pn = f.nodes[par]
    if pn["k"] == "bin" and pn["op"] == "=" and f.strip(pn["r"]) == f.strip(x):
        ln = f.sn(pn["l"])
        if ln["k"] == "ref":
            return ("var", ln["did"], ln["name"])
        return None
    if pn["k"] == "decl":
        for v in pn["vars"]:
            if v.get("init") is not None and f.strip(v["init"]) == f.strip(x):
                return ("var", v["did"], v["name"])
    if pn["k"] == "bin" and pn["op"] in ("<", "<=", ">", ">=", "==", "!="):
        return ("call", call)
    if pn["k"] == "un" and pn["op"] == "!":
        return ("call", call)
    return None


def feasible_neg(op, c):
    """can `x op c` hold for some x < 0 ?"""
    if c is None:
        return True
    if op == "<":
        return True if c >= -2**31 else False
    if op == "<=":
        return True
    if op == ">":
        return c < -1
    if op == ">=":
        return c <= -1
    if op == "==":
        return c < 0
    if op == "!=":
        return True
    return True


def can_leave_on_failure(f, scc, call, holder):
    """search from the element after `call`, with the holder known negative,
    for a path that leaves the loop"""
    wb, wi = f.where()[call]
    seen = set()
    st = [(wb, True)]          # (block, first: start after the call element)
    # the way out must be found in the same iteration: re-entering the loop
    # header starts another evaluation of everything
    headers = {b for b in scc if any(p not in scc for p in f.blocks[b].preds)}
    while st:
        b, first = st.pop()
        if (b, first) in seen:
            continue
        seen.add((b, first))
        blk = f.blocks[b]
        # reassignment of the holder on this block (another evaluation of the call) ends the path
        killed = False
        elems = blk.elems[wi + 1:] if first and b == wb else blk.elems
        for e in elems:
            n = f.nodes[e]
            if e == call:
                killed = True
                break
            if holder[0] == "var":
                if n["k"] == "bin" and n["op"] == "=" and f.sn(n["l"]).get("did") == holder[1] and f.strip(n["r"]) != call:
                    killed = True
                    break
            if n["k"] == "return":
                return True
        if killed:
            continue
        if blk.noreturn:
            continue
        for s, lab in C.edges(f, blk):
            if lab in ("T", "F") and blk.term and blk.term.get("cond") is not None:
                cond = blk.term["cond"]
                if dead_cmp(f, cond) == lab:
                    continue
                l, op, r = C.cond_atom(f, cond, lab == "T")
                ln = f.sn(l)
                is_holder = (holder[0] == "var" and ln["k"] == "ref" and ln.get("did") == holder[1]) or \
                            (holder[0] == "call" and f.strip(l) == holder[1]) or \
                            (holder[0] == "var" and ln["k"] == "bin" and ln["op"] == "=" and f.sn(ln["l"]).get("did") == holder[1])
                if is_holder:
                    c = C.const_of(f, r)
                    if not feasible_neg(op, c):
                        continue
            if s not in scc or s == f.exit:
                return True
            if s in headers:
                continue
            st.append((s, False))
    return False


class BindRule(S.SeqRule):
    """R7: state = (local configured known, bind call nid | None)"""

    def __init__(self, prog, rule):
        super().__init__(prog)
        self.rule = rule
        self.nconn = 0
        self.bad = set()

    def user0(self, fn):
        return (None, None)

    def inline(self, fn, nid, callee):
        # a helper of the same unit that wraps bind() is looked into (its result is the bind's)
        return callee.static and callee.file == fn.file and callee is not fn and any(True for _ in callee.calls("bind")) and not any(True for _ in callee.calls("connect"))

    def call_class(self, fn, st, nid, callees, exts):
        return None

    def on_branch(self, fn, st, blk, cond, label):
        if label not in ("T", "F"):
            return None
        l, op, r = C.cond_atom(fn, cond, label == "T")
        if isinstance(r, tuple) or C.const_of(fn, r) == 0:
            fl = fn.fields_of(l)
            if fl and "local" in fl[-1] and ("ip" in fl[-1] or "addr" in fl[-1]):
                return (op == "!=", st.user[1])
        return None

    def on_call(self, fn, st, nid, callees, exts):
        if any(self.inline(fn, nid, d) for d in callees):
            return (st.user[0], ("via", nid))
        if "bind" in exts:
            if isinstance(st.user[1], tuple) and st.user[1][0] == "via":
                return None         # inside the wrapper: the caller tests the wrapper's result
            return (st.user[0], nid)
        if "connect" in exts:
            self.nconn += 1
            local, b = st.user
            if isinstance(b, tuple):
                b = b[1]
            if local and b is None:
                if "nobind" not in self.bad:
                    self.bad.add("nobind")
                    self.rule.violation("%s:connect-without-bind" % fn.name,
                                        "connect() is reached with a local address configured but without bind(): the attempt leaves from "
                                        "an address other than xcm.local_addr", loc=fn.loc(nid))
            elif b is not None and st.get(("call", b)) in (S.NEG,) or (b is not None and self._var_neg(fn, st, b)):
                if "failedbind" not in self.bad:
                    self.bad.add("failedbind")
                    self.rule.violation("%s:connect-after-failed-bind" % fn.name,
                                        "connect() is reached on the failure edge of bind()", loc=fn.loc(nid))
            else:
                self.rule.ok("%s: connect() %s" % (fn.name, "after a successful bind" if local else "without a configured local address"),
                             "path exploration")
        return None

    def _var_neg(self, fn, st, b):
        for k, v in st.vals:
            if isinstance(k, tuple) and k[0] == "src" and v == ("call", b):
                if st.get(k[1]) in (S.NEG,):
                    return True
        return False


def passes_param_unchanged(f, call, argi, pname):
    a = f.sn(f.nodes[call]["args"][argi])
    return a["k"] == "ref" and a["dk"] == "param" and a["name"] == pname


def run(ctx):
    P = Program(("libxcm",))
    ctx.analysed = {"units": len(P.units), "functions": len(P.functions)}
    ctx.explanation = ("Escape analysis of pointer parameters against address-of-local arguments (whole library), feasibility search for "
                       "failure exits of waiting loops with dead pointer comparisons removed, errno-source tracking on the connect tracker, "
                       "argument-flow and control-dependence checks on the algorithm dispatch, timers and documented errnos.")
    ctx.trust("clang 14 AST/CFG")
    ctx.trust("library functions other than those in escape.RETAINING_EXT do not keep their pointer arguments")

    # ------------------------------------------------------------------ R1
    r1 = ctx.rule("C13.R1", "no address of an automatic object is stored in memory that outlives the frame")
    E = ESC.Escape(P)
    nesc = 0
    for f in P.functions:
        for i in range(len(f.params)):
            if E.is_ptr_param(f, i) and E.escapes(f, i):
                nesc += 1
    ncalls = 0
    for f in P.functions:
        for c in f.calls():
            n = f.nodes[c]
            defs, exts = P.callees(f, c)
            for ai, a in enumerate(n["args"]):
                src = E.stack_sources(f, a)
                if not src:
                    continue
                ncalls += 1
                for d in defs:
                    if ai < len(d.params) and E.escapes(d, ai):
                        r1.violation("%s:&%s->%s" % (f.name, src[0][0], d.name),
                                     "the address of local `%s` is passed to %s(), whose parameter `%s` outlives the call (%s)"
                                     % (src[0][0], d.name, d.params[ai]["name"], E.why.get((d.key, ai), "")), loc=f.loc(c))
                for x in exts:
                    if ai in ESC.RETAINING_EXT.get(x, ()):
                        r1.violation("%s:&%s->%s" % (f.name, src[0][0], x), "the address of local `%s` is retained by %s()" % (src[0][0], x),
                                     loc=f.loc(c))
    # the tracker's local address: whatever field holds it must not be a borrowed pointer from a caller's frame
    tc = P.fn("track_create", "tcp/tconnect.c")
    r1.instance("track_create")
    for f in P.functions:
        for i in range(len(f.params)):
            if E.memo.get((f.key, i)):
                r1.instance("%s(%s)" % (f.name, f.params[i]["name"]))
    r1.ok("%d call arguments that may hold the address of a local checked against %d escaping parameters" % (ncalls, nesc), "escape analysis")
    r1.floor(40, "escaping parameters")
    if ncalls < 150:
        raise Broken("C13.R1: only %d address-of-local arguments found" % ncalls)
    # positive control: a compound-literal store through a pointer is an escape
    if not any(v for (k, i), v in E.memo.items() if k == ("timer_mgr_create",) and i == 0):
        raise Broken("C13.R1 self-check: timer_mgr_create's xpoll parameter is not recognised as escaping")

    # ------------------------------------------------------------------ R2
    r2 = ctx.rule("C13.R2", "every waiting loop can be left when a status call inside it fails")
    BL = blocking_leafs(P)
    nloops = 0
    for f in P.functions:
        if not f.blocks:
            continue
        loops = None
        for c in f.calls():
            n = f.nodes[c]
            defs, exts = P.callees(f, c)
            blocking = any(x in BLOCKING_EXT and C.const_of(f, n["args"][BLOCKING_EXT[x]]) != 0 for x in exts) or any(d in BL for d in defs)
            if not blocking:
                continue
            if loops is None:
                loops = C.sccs(f)
            wb = f.where()[c][0]
            for scc in loops:
                if wb not in scc:
                    continue
                key = (f.name, min(scc))
                if key in getattr(run, "_seen", set()):
                    continue
                run._seen = getattr(run, "_seen", set()) | {key}
                nloops += 1
                r2.instance("%s: loop at %s" % (f.qname, f.loc(f.blocks[min(scc)].elems[0]) if f.blocks[min(scc)].elems else f.file))
                for b in sorted(scc):
                    for e in f.blocks[b].elems:
                        m = f.nodes[e]
                        if m["k"] != "call":
                            continue
                        t = m.get("t") or ""
                        if t not in ("int", "ssize_t", "long"):
                            continue
                        name = m.get("callee") or f.show(m["fn"])
                        if name.startswith(("__builtin", "__errno")) or name in ("strcmp", "strlen", "memcmp"):
                            continue
                        h = result_holder(f, e)
                        if h is None:
                            continue
                        if can_leave_on_failure(f, scc, e, h):
                            r2.ok("%s: a failing %s() can leave the loop" % (f.qname, name), "feasible-path search, dead pointer comparisons removed")
                        else:
                            r2.violation("%s:%s:no-failure-exit" % (f.name, name),
                                         "inside the waiting loop a failure of %s() has no feasible way out (every exit test is unreachable "
                                         "for a negative result): the caller spins/blocks forever" % name, loc=f.loc(e))
    run._seen = set()
    r2.floor(4, "waiting loops")

    # ------------------------------------------------------------------ R3
    r3 = ctx.rule("C13.R3", "the errno of each failed attempt is captured fresh and recorded before the next address is tried")
    nst = 0
    for f in P.fns_in("tcp/tconnect.c") + [P.fn("try_finish_resolution"), P.fn("begin_connect")]:
        if not any(fl and fl[-1] == "badness_reason" for b, i, e, lhs, rhs, op in f.stores() for fl in [f.fields_of(lhs)]):
            continue
        r3.instance(f.qname)
        rr = c06.ReasonRule(P, f, r3)
        S.run(rr, f, S.St(user=()))
        nst += rr.n
    nretry = 0
    rh = c06.retry_helpers(P)
    for f in P.fns_in("tcp/tconnect.c"):
        if any(True for c in f.calls("track_connect_next")) or any((f.nodes[c].get("callee") or "") in rh for c in f.calls()):
            r3.instance("%s: retry" % f.name)
            rr = c06.RetryRule(r3, "track_connect_next", rh)
            C.explore(f, rr)
            nretry += rr.n
    if nst < 6 or nretry < 6:
        raise Broken("C13.R3: %d reason stores / %d retry sites found" % (nst, nretry))

    # ------------------------------------------------------------------ R4
    r4 = ctx.rule("C13.R4", "algorithm dispatch: single => one address, sequential => all, unknown => error; list and count reach the tracker unchanged")
    tcn = P.fn("tconnect_connect")
    sw = [b for b in tcn.blocks.values() if b.term and b.term["k"] == "SwitchStmt"]
    if len(sw) != 1 or "algorithm" not in tcn.show(sw[0].term["cond"]):
        raise Broken("C13.R4: tconnect_connect has no single switch on the algorithm")
    cases = {}
    for s, lab in C.edges(tcn, sw[0]):
        name = lab[2] if lab[0] == "case" else "default"
        calls = []
        for b in C.reachable_blocks(tcn, s, avoid={x for x, _ in C.edges(tcn, sw[0]) if x != s}):
            for e in tcn.blocks[b].elems:
                if tcn.nodes[e]["k"] == "call" and tcn.nodes[e].get("callee") and not tcn.nodes[e]["callee"].startswith("__"):
                    calls.append(e)
        cases[name] = (s, calls)
    algos = [c["name"] for c in P.enum("tconnect_algorithm")["constants"]]
    for a in ("tconnect_algorithm_single", "tconnect_algorithm_sequential", "tconnect_algorithm_happy_eyeballs"):
        if a not in algos or a not in cases:
            raise Broken("C13.R4: no case for %s" % a)
        r4.instance(a)
    cnt_param = [p["name"] for p in tcn.params if "num" in p["name"]]
    lst_param = [p["name"] for p in tcn.params if p["name"].startswith("remote_ip")]
    if len(cnt_param) != 1 or len(lst_param) != 1:
        raise Broken("C13.R4: cannot identify the address list / count parameters of tconnect_connect")
    cnt_param, lst_param = cnt_param[0], lst_param[0]

    def arg_positions(call):
        n = tcn.nodes[call]
        d = P.resolve_direct(tcn, n["callee"])
        if d is None:
            raise Broken("C13.R4: callee %s not found" % n["callee"])
        ci = [i for i, p in enumerate(d.params) if "num" in p["name"]]
        li = [i for i, p in enumerate(d.params) if p["name"].startswith("remote_ip")]
        if len(ci) != 1 or len(li) != 1:
            raise Broken("C13.R4: cannot identify list/count parameters of %s" % d.name)
        return d, ci[0], li[0]

    for a, want in (("tconnect_algorithm_single", 1), ("tconnect_algorithm_sequential", None), ("tconnect_algorithm_happy_eyeballs", None)):
        s, calls = cases[a]
        if len(calls) != 1:
            r4.violation("tconnect_connect:%s:calls" % a, "case %s makes %d calls (expected one hand-over to a connect strategy)" % (a, len(calls)), loc=tcn.file)
            continue
        d, ci, li = arg_positions(calls[0])
        n = tcn.nodes[calls[0]]
        if not passes_param_unchanged(tcn, calls[0], li, lst_param):
            r4.violation("tconnect_connect:%s:list" % a, "case %s does not pass the resolver's list from its start: %s" % (a, tcn.show(n["args"][li])), loc=tcn.loc(calls[0]))
        cv = C.const_of(tcn, n["args"][ci])
        if want == 1:
            if cv == 1:
                r4.ok("single: exactly one address is handed to %s" % d.name, "constant argument")
            else:
                r4.violation("tconnect_connect:single:count", "algorithm `single` hands %s addresses to the tracker (must be exactly 1)" % tcn.show(n["args"][ci]), loc=tcn.loc(calls[0]))
        else:
            if passes_param_unchanged(tcn, calls[0], ci, cnt_param):
                r4.ok("%s: all addresses are handed to %s" % (a.replace("tconnect_algorithm_", ""), d.name), "argument flow")
            else:
                r4.violation("tconnect_connect:%s:count" % a, "algorithm %s hands %s addresses to the tracker (must be all of them)" % (a, tcn.show(n["args"][ci])), loc=tcn.loc(calls[0]))
        # the strategy passes list and count on to every track it creates
        ntc = 0
        for c2 in d.calls("track_create"):
            ntc += 1
            tcd = P.resolve_direct(d, "track_create")
            ci2 = [i for i, p in enumerate(tcd.params) if "num" in p["name"]][0]
            li2 = [i for i, p in enumerate(tcd.params) if p["name"].startswith("remote_ip")][0]
            if passes_param_unchanged(d, c2, ci2, d.params[ci]["name"]) and passes_param_unchanged(d, c2, li2, d.params[li]["name"]):
                r4.ok("%s passes list and count unchanged to track_create" % d.name, "argument flow")
            else:
                r4.violation("%s:track_create:args" % d.name, "%s hands (%s, %s) to the track instead of its own list and count"
                             % (d.name, d.show(d.nodes[c2]["args"][li2]), d.show(d.nodes[c2]["args"][ci2])), loc=d.loc(c2))
        if ntc == 0:
            raise Broken("C13.R4: %s creates no track" % d.name)
    # default: error
    s, calls = cases.get("default", (None, []))
    ok_default = False
    if s is not None:
        for b in C.reachable_blocks(tcn, s, avoid={x for x, _ in C.edges(tcn, sw[0]) if x != s}):
            for e in tcn.blocks[b].elems:
                m = tcn.nodes[e]
                if m["k"] == "return" and m.get("sub") is not None and (C.const_of(tcn, m["sub"]) or 0) < 0:
                    ok_default = True
    if ok_default and not calls:
        r4.ok("an unknown algorithm is refused", "switch default returns -1")
    else:
        r4.violation("tconnect_connect:default", "an unknown algorithm is not refused", loc=tcn.file)
    # happy eyeballs: one track per family present, v4 delayed only if v6 present
    he = P.fn("tconnect_connect_happy")
    r4.instance("happy_eyeballs: tracks")
    tcs = list(he.calls("track_create"))
    fams = []
    for c2 in tcs:
        a0, a1 = he.nodes[c2]["args"][0], he.nodes[c2]["args"][1]
        fams.append((C.const_of(he, a0) == -1, C.const_of(he, a1) == -1))
    if sorted(fams) == [(False, True), (True, False)]:
        r4.ok("happy eyeballs creates one IPv4-only and one IPv6-only track", "constant -1 in the other family's descriptor slot")
    else:
        r4.violation("tconnect_connect_happy:tracks", "happy eyeballs does not create one track per family (descriptor slots: %s)" % fams, loc=he.file)
    # track_create stores what it is given; the tracker walks forward
    tcd = P.fn("track_create")
    r4.instance("track_create: fields")
    want_fields = {"remote_ips": None, "num_remote_ips": None}
    stored = {}
    for nid, n in tcd.nodes.items():
        if n["k"] == "init" and n.get("fields"):
            for fld, e in zip(n["fields"], n["elems"]):
                stored[fld] = tcd.show(e)
    if stored.get("num_remote_ips") == [p["name"] for p in tcd.params if "num" in p["name"]][0] and "dup_ips(remote_ips, num_remote_ips)" == stored.get("remote_ips"):
        r4.ok("the track keeps a private copy of the whole list and its length", "initialiser fields")
    else:
        r4.violation("track_create:fields", "the track stores remote_ips=%s num_remote_ips=%s" % (stored.get("remote_ips"), stored.get("num_remote_ips")), loc=tcd.file)
    nx = P.fn("track_connect_next")
    r4.instance("track_connect_next: walk")
    # the loop: idx starts at ip_idx + 1, runs while idx < num_remote_ips, ip_idx = idx on the hit
    txts = [nx.show(e) for b, i, e in nx.elems()]
    conds = [nx.show(c) for b, c in C.cond_blocks(nx)]
    if any(t.replace(" ", "") == "idx=track->ip_idx+1" for t in txts) and any(c.replace(" ", "") == "idx<track->num_remote_ips" for c in conds) \
            and any(t.replace(" ", "") == "track->ip_idx=idx" for t in txts):
        r4.ok("the next candidate is searched forward from the current index and the index is advanced to the hit", "loop shape")
    else:
        r4.note("track_connect_next's loop shape not recognised (not a verdict: the walk may be written differently)")

    # ------------------------------------------------------------------ R5
    r5 = ctx.rule("C13.R5", "documented errnos: resolution failure/timeout => ENOENT, attempt timeout => ETIMEDOUT")
    ENOENT, ETIMEDOUT, EAGAIN = 2, 110, 11
    qr = P.fn("xcm_dns_query_result")
    sw = [b for b in qr.blocks.values() if b.term and b.term["k"] == "SwitchStmt"]
    if len(sw) != 1:
        raise Broken("C13.R5: xcm_dns_query_result has no single switch")
    found = {}
    exits_by_case = {}

    class CaseExits(S.SeqRule):
        def user0(s2, fn):
            return None

        def inline(s2, fn, nid, callee):
            return False

        def on_branch(s2, fn, st, blk, cond, label):
            if fn is qr and isinstance(label, tuple) and label[0] == "case":
                return label[2]
            return None

        def on_exit(s2, fn, st, ret_nid, ret_cls, top):
            if top and st.user is not None:
                e = st.efact
                exits_by_case.setdefault(st.user, set()).add((e[1] if e and e[0] == "eq" else None, -1 if ret_cls == S.NEG else ret_cls))
    S.run(CaseExits(P), qr)
    for cs, outs in exits_by_case.items():
        found[cs] = next(iter(outs)) if len(outs) == 1 else tuple(sorted(outs, key=str))
    r5.instance("xcm_dns_query_result")
    if found.get("query_state_failed") == (ENOENT, -1):
        r5.ok("a failed/timed-out query answers -1/ENOENT", "switch case")
    else:
        r5.violation("xcm_dns_query_result:failed", "a failed query answers %s" % (found.get("query_state_failed"),), loc=qr.file)
    if found.get("query_state_in_progress") == (EAGAIN, -1):
        r5.ok("a query in progress answers -1/EAGAIN", "switch case")
    else:
        r5.violation("xcm_dns_query_result:in_progress", "a query in progress answers %s" % (found.get("query_state_in_progress"),), loc=qr.file)

    def expiry_edges(f):
        for b, cond in C.cond_blocks(f):
            for x in f.walk(cond):
                m = f.nodes[x]
                if m["k"] == "call" and m.get("callee") == "timer_mgr_has_expired":
                    l, op, r = C.cond_atom(f, cond, True)
                    # the call may be the right operand of && : its true edge is the T edge of the block holding the call as condition
                    yield b, ("T" if op == "!=" else "F"), x

    pip = P.fn("process_in_progress")
    r5.instance("process_in_progress: overall timeout")
    okp = False
    for b, lab, call in expiry_edges(pip):
        if "overall" not in pip.show(call):
            continue
        only = C.only_via_edge(pip, b, lab)
        for bb in only:
            for e in pip.blocks[bb].elems:
                m = pip.nodes[e]
                if m["k"] == "bin" and m["op"] == "=" and pip.fields_of(m["l"])[-1:] == ("state",) and c06.enum_name(pip, m["r"]) == "query_state_failed":
                    okp = True
    # ... and only a query that has not succeeded: the resolver's callback may have stored the answer in the same
    # pass (ares_process just before); a success is never overwritten
    guarded = False
    for b, i, e, lhs, rhs, op in pip.stores():
        if rhs is not None and pip.fields_of(lhs)[-1:] == ("state",) and c06.enum_name(pip, rhs) == "query_state_failed":
            for bb, cond in C.cond_blocks(pip):
                l, op2, r = C.cond_atom(pip, cond, True)
                if isinstance(r, tuple) or pip.fields_of(l)[-1:] != ("state",):
                    continue
                en = c06.enum_name(pip, r)
                for lab in ("T", "F"):
                    holds = op2 if lab == "T" else {"==": "!=", "!=": "=="}.get(op2)
                    if b.id in C.only_via_edge(pip, bb, lab) and ((en == "query_state_successful" and holds == "!=") or (en == "query_state_in_progress" and holds == "==")):
                        guarded = True
    r5.instance("process_in_progress: success is final")
    if guarded:
        r5.ok("the timeout marks the query failed only if it has not succeeded in the same pass", "control dependence on the state test")
    else:
        r5.violation("process_in_progress:timeout-overwrites-success", "the overall timeout stores `failed` without testing that the query has not just succeeded: "
                     "an answer processed in the same pass as the deadline (an application that serves the socket late) is turned into ENOENT", loc=pip.file)
    if okp:
        r5.ok("expiry of the overall resolver timer marks the query failed (=> ENOENT)", "control dependence on the expired edge")
    else:
        r5.violation("process_in_progress:overall-timeout", "expiry of the overall resolver timer does not mark the query failed", loc=pip.file)

    tpc = P.fn("track_process_connecting")
    rh5 = c06.retry_helpers(P)
    r5.instance("track_process_connecting: attempt timeout")
    okt = False
    for b, lab, call in expiry_edges(tpc):
        only = C.only_via_edge(tpc, b, lab)
        st_reason = nxt = ab = False
        for bb in only:
            for e in tpc.blocks[bb].elems:
                m = tpc.nodes[e]
                if m["k"] == "bin" and m["op"] == "=" and tpc.fields_of(m["l"])[-1:] == ("badness_reason",) and C.const_of(tpc, m["r"]) == ETIMEDOUT:
                    st_reason = True
                if m["k"] == "call" and m.get("callee") == "track_connect_next":
                    nxt = True
                if m["k"] == "call" and m.get("callee") == "track_abort_connect":
                    ab = True
                # a helper that records the reason it is given, aborts and moves on: track_fail_connect(track, ETIMEDOUT)
                if m["k"] == "call" and (m.get("callee") or "") in rh5:
                    hd = P.resolve_direct(tpc, m["callee"])
                    if any(C.const_of(tpc, a) == ETIMEDOUT for a in m["args"]):
                        st_reason = True
                    if hd is not None and any(True for _ in hd.calls("track_connect_next")):
                        nxt = True
                    if hd is not None and any(True for _ in hd.calls("track_abort_connect")):
                        ab = True
        if st_reason and nxt and ab:
            okt = True
    if okt:
        r5.ok("expiry of the attempt timer records ETIMEDOUT, aborts the attempt and moves to the next address", "control dependence on the expired edge")
    else:
        r5.violation("track_process_connecting:timeout", "expiry of the attempt timer does not (record ETIMEDOUT, abort, try the next address)", loc=tpc.file)
    # exhausted list without a recorded reason => ENOENT
    r5.instance("track_connect_next: exhausted")
    oke = False
    for b, cond in C.cond_blocks(nx):
        l, op, r = C.cond_atom(nx, cond, True)
        if nx.fields_of(l)[-1:] == ("badness_reason",) and not isinstance(r, tuple) and C.const_of(nx, r) == 0:
            lab = "T" if op == "==" else "F"
            for bb in C.only_via_edge(nx, b, lab):
                for e in nx.blocks[bb].elems:
                    m = nx.nodes[e]
                    if m["k"] == "bin" and m["op"] == "=" and nx.fields_of(m["l"])[-1:] == ("badness_reason",) and C.const_of(nx, m["r"]) == ENOENT:
                        oke = True
    if oke:
        r5.ok("an exhausted list without a recorded reason reports ENOENT and keeps a recorded reason otherwise", "guarded store")
    else:
        r5.violation("track_connect_next:exhausted", "an exhausted address list does not default to ENOENT only when no reason was recorded", loc=nx.file)
    # tconnect_get_connected_fd: EAGAIN only while a track is in progress, otherwise the last errno
    gf = P.fn("tconnect_get_connected_fd")
    r5.instance("tconnect_get_connected_fd")
    outcomes = []
    for b, i, e in gf.elems():
        m = gf.nodes[e]
        if m["k"] == "bin" and m["op"] == "=" and gf.show(m["l"]) == "errno":
            outcomes.append((gf.show(m["r"]), b.id))
    dom = C.dominators(gf)
    ok_g = 0
    for txt, bid in outcomes:
        conds = []
        for bb, cond in C.cond_blocks(gf):
            for lab in ("T", "F"):
                if bid in C.only_via_edge(gf, bb, lab):
                    conds.append((gf.show(cond), lab))
        if txt in ("11", "EAGAIN") and ("in_progress", "T") in conds:
            ok_g += 1
        elif txt == "fatal_errno" and ("in_progress", "F") in conds:
            ok_g += 1
    if ok_g >= 2:
        r5.ok("EAGAIN is reported only while some track is in progress, otherwise the recorded errno", "control dependence")
    else:
        r5.violation("tconnect_get_connected_fd:result", "errno selection does not follow (in progress => EAGAIN, else last errno): %s" % outcomes, loc=gf.file)

    # ------------------------------------------------------------------ R6
    r6 = ctx.rule("C13.R6", "the timers are armed with the configured timeouts")
    r6.instance("track_connect_next: attempt timer")
    ok6 = False
    for c in nx.calls("timer_mgr_schedule"):
        a = nx.nodes[c]["args"][1]
        if nx.fields_of(a)[-1:] == ("tcp_connect_timeout",):
            ok6 = True
    if ok6:
        r6.ok("the attempt timer is scheduled with the track's tcp_connect_timeout", "argument")
    else:
        r6.violation("track_connect_next:timer", "the attempt timer is not scheduled with tcp_connect_timeout", loc=nx.file)
    # the value flows: btcp conn.tcp_connect_timeout -> tconnect_connect -> strategy -> track_create -> field
    r6.instance("tcp.connect_timeout flow")
    bc = P.fn("begin_connect")
    flow_ok = False
    for c in bc.calls("tconnect_connect"):
        pi = [i for i, p in enumerate(tcn.params) if p["name"] == "tcp_connect_timeout"]
        if pi and bc.fields_of(bc.nodes[c]["args"][pi[0]])[-1:] == ("tcp_connect_timeout",):
            flow_ok = True
    for a in ("tconnect_algorithm_single", "tconnect_algorithm_sequential", "tconnect_algorithm_happy_eyeballs"):
        s, calls = cases[a]
        for call in calls:
            d = P.resolve_direct(tcn, tcn.nodes[call]["callee"])
            pi = [i for i, p in enumerate(d.params) if p["name"] == "tcp_connect_timeout"]
            if not pi or not passes_param_unchanged(tcn, call, pi[0], "tcp_connect_timeout"):
                flow_ok = False
            for c2 in d.calls("track_create"):
                pj = [i for i, p in enumerate(tcd.params) if p["name"] == "tcp_connect_timeout"]
                if not pj or not passes_param_unchanged(d, c2, pj[0], "tcp_connect_timeout"):
                    flow_ok = False
    if stored.get("tcp_connect_timeout") != "tcp_connect_timeout":
        flow_ok = False
    if flow_ok:
        r6.ok("the socket's tcp.connect_timeout reaches every track unchanged", "argument flow through 3 call levels")
    else:
        r6.violation("tcp_connect_timeout:flow", "the configured tcp.connect_timeout does not reach the tracks unchanged", loc=tcn.file)
    r6.instance("xcm_dns_resolve: overall timer")
    dr = P.fn("xcm_dns_resolve")
    ok_d = False
    for c in dr.calls("timer_mgr_schedule"):
        a = dr.sn(dr.nodes[c]["args"][1])
        if a["k"] == "ref" and a["name"] == "timeout":
            ok_d = True
    if ok_d:
        r6.ok("the resolver's overall timer is scheduled with the timeout handed down (default when <= 0)", "argument")
    else:
        r6.violation("xcm_dns_resolve:timer", "the overall resolver timer is not scheduled with the given timeout", loc=dr.file)
    r6.instance("btcp_connect: dns.timeout")
    bcon = [t for t in TP.ops_tables(P) if t.proto == "btcp"][0].slots["connect"]
    ok_c = False
    for c in bcon.calls("xcm_dns_resolve"):
        a = bcon.nodes[c]["args"][2]
        if "timeout" in bcon.show(a) and "dns" in bcon.show(a):
            ok_c = True
    if ok_c:
        r6.ok("the asynchronous resolution is started with the socket's dns timeout", "argument")
    else:
        r6.violation("btcp_connect:dns-timeout", "xcm_dns_resolve is not given the socket's dns.timeout", loc=bcon.file)

    # ------------------------------------------------------------------ R7
    r7 = ctx.rule("C13.R7", "with a local address configured every attempt binds before it connects; a failed bind never reaches connect()")
    r7.instance("track_connect_next")
    br = BindRule(P, r7)
    S.run(br, nx)
    if br.nconn < 2:
        raise Broken("C13.R7: connect() not reached in track_connect_next on both local-address outcomes (%d)" % br.nconn)
    # ... and every attempt track gets the configured local address: the creator's local-address parameter is fed, at every
    # call site up to the public entry, with the caller's own parameter unchanged (an attempt created without it connects unbound)
    tc = P.fn("track_create")
    lidx = None
    for b, cond in C.cond_blocks(tc):
        l, op, r = C.cond_atom(tc, cond, True)
        ln = tc.sn(l)
        if ln["k"] == "ref" and ln.get("dk") == "param" and "*" in (ln.get("t") or "") and (isinstance(r, tuple) or C.const_of(tc, r) == 0):
            lab = "T" if op == "!=" else "F"
            for bb in C.only_via_edge(tc, b, lab):
                for e in tc.blocks[bb].elems:
                    m = tc.nodes[e]
                    if m["k"] == "bin" and m["op"] == "=":
                        fl = tc.fields_of(m["l"])
                        if fl and "local" in fl[-1] and ("ip" in fl[-1] or "addr" in fl[-1]):
                            lidx = [i for i, p in enumerate(tc.params) if p["name"] == ln["name"]][0]
    if lidx is None:
        raise Broken("C13.R7: the local-address parameter of track_create was not identified")
    work, seen7, nsite = [(tc, lidx)], set(), 0
    while work:
        g, j = work.pop()
        if (g.key, j) in seen7:
            continue
        seen7.add((g.key, j))
        for h, call in P.callers().get(g, []):
            nsite += 1
            r7.instance("%s -> %s(local address)" % (h.qname, g.name))
            a = h.nodes[h.origin(h.nodes[call]["args"][j])]
            if a["k"] == "ref" and a.get("dk") == "param":
                k = [i for i, p in enumerate(h.params) if p["name"] == a["name"]][0]
                r7.ok("%s hands its own local-address parameter to %s" % (h.qname, g.name), "value origin of the argument")
                if h.static:
                    work.append((h, k))
            elif a["k"] == "member" and "local" in (a.get("field") or ""):
                r7.ok("%s hands the socket's configured local address to %s" % (h.qname, g.name), "value origin of the argument")
            else:
                r7.violation("%s:local-address-not-passed" % h.name, "%s creates an attempt with `%s` in place of the configured local address: an attempt that is not given the "
                             "address connects unbound, and a connection from another source can win" % (h.name, h.show(h.nodes[call]["args"][j])[:60]), loc=h.loc(call))
    if nsite < 3:
        raise Broken("C13.R7: only %d call sites pass the local address down" % nsite)

    # ------------------------------------------------------------------ R10
    r10 = ctx.rule("C13.R10", "an attempt that failed or timed out is dissolved before the next address is tried on the same descriptor")
    check_attempt_dissolved(P, r10, nx)

    # ------------------------------------------------------------------ R11
    r11 = ctx.rule("C13.R11", "every change of the timer manager's list of pending timers re-evaluates the timer descriptor before returning")
    check_timer_rearm(P, r11)

    # ------------------------------------------------------------------ R8
    r8 = ctx.rule("C13.R8", "the resolver reports the number of addresses it handed out: the result never exceeds the caller's capacity")
    from .. import bounds as B
    eng = B.Engine(P)
    qr = P.fn("xcm_dns_query_result")
    caps = [p["name"] for i, p in enumerate(qr.params) if i > 0 and "*" not in (p.get("t") or "") and "*" in (qr.params[i - 1].get("t") or "")]
    if len(caps) != 1:
        raise Broken("C13.R8: capacity parameter of xcm_dns_query_result not identified")
    fb = B.FnBounds(eng, qr)
    npos = 0
    for nid, n in qr.nodes.items():
        if n["k"] != "return" or n.get("sub") is None:
            continue
        cv = C.const_of(qr, n["sub"])
        if cv is not None and cv <= 0:
            continue
        npos += 1
        r8.instance("%s: %s" % (qr.qname, qr.show(nid)))
        v = fb.lin(n["sub"])
        if v is not None and fb.prove_le(fb.before.get(nid, B.Facts()), v, B.lin_term(caps[0])):
            r8.ok("%s <= %s" % (qr.show(n["sub"]), caps[0]), "difference constraints (min idiom)")
        else:
            r8.violation("xcm_dns_query_result:count-exceeds-capacity", "the number of addresses reported (%s) is not bounded by the caller's capacity: a caller that asked for "
                         "k addresses and waits for exactly k (the synchronous resolver: 1) never sees its answer, and one that trusts the count reads beyond what was copied"
                         % qr.show(n["sub"]), loc=qr.loc(nid))
    if npos < 1:
        raise Broken("C13.R8: no successful return in xcm_dns_query_result")

    # ------------------------------------------------------------------ R9
    r9 = ctx.rule("C13.R9", "configured timeouts keep their fractional part: no floating-point value is implicitly truncated into a stored integer field")
    check_no_float_truncation(P, r9)


def check_no_float_truncation(P, rule):
    """dns.timeout and tcp.connect_timeout are doubles from the attribute down to the timer.  An implicit conversion of a
    floating-point value into an integer that is then STORED in a record (a field of integer type) silently changes the
    configured value (0.5 s becomes 0, which the resolver reads as `use the default`).  Conversions into a struct
    timespec/timeval (seconds and nanoseconds are split on purpose) and into local counters are not storage."""
    from .. import anchors as A
    own = set((A.load().get("//records") or {}).keys())
    n = 0
    for f in P.functions:
        if not f.file.startswith(("libxcm/", "common/")):
            continue
        par = None
        for nid, m in f.nodes.items():
            if m["k"] != "cast" or not m.get("implicit") or m.get("ck") != "FloatingToIntegral":
                continue
            n += 1
            par = par or f.parents()
            p = par.get(nid)
            while p is not None and f.nodes[p]["k"] in ("paren", "cast"):
                p = par.get(p)
            pn = f.nodes.get(p, {})
            fld, rec = None, None
            if pn.get("k") == "bin" and pn["op"] == "=" and f.sn(pn["l"])["k"] == "member":
                fld, rec = f.sn(pn["l"]).get("field"), f.sn(pn["l"]).get("record")
            elif pn.get("k") == "init" and pn.get("fields"):
                idx = [i for i, e in enumerate(pn["elems"]) if e == nid or f.strip(e) == f.strip(nid)]
                fld = pn["fields"][idx[0]] if idx and idx[0] < len(pn["fields"]) else None
                rec = pn.get("record")
            if rec not in own:
                fld = None          # a field of somebody else's record (struct ares_options.tries is a count, not a stored time)
            rule.instance("%s: (%s) %s" % (f.qname, m.get("t"), f.show(m["sub"])[:40]))
            if fld is not None and fld not in ("tv_sec", "tv_nsec", "tv_usec"):
                rule.violation("%s:float-truncated-into:%s" % (f.name, fld), "%s stores the floating-point value `%s` into the integer field %s: the fractional part of a configured "
                               "time is lost (a timeout below one second becomes 0)" % (f.name, f.show(m["sub"])[:50], fld), loc=f.loc(nid))
            else:
                rule.ok("%s: conversion of `%s` is not a stored configuration value" % (f.qname, f.show(m["sub"])[:40]), "destination of the conversion")
    if n < 2:
        raise Broken("float-truncation: only %d floating-to-integer conversions found (timespec conversion expected)" % n)


def check_timer_rearm(P, rule):
    """every timeout of the library (dns.timeout, tcp.connect_timeout, the happy-eyeballs delays) is an entry in the
    timer manager's list, and the one timer descriptor is armed for the earliest entry.  A function that changes the
    list and returns without re-evaluating the descriptor leaves it armed for an entry that is gone or not armed for
    the new earliest one: the timeout never fires.  Exempt: functions whose only callers close the descriptor."""
    fns = [f for f in P.functions if f.file.endswith("core/timer_mgr.c")]
    if not fns:
        raise Broken("timer-rearm: timer_mgr.c not analysed")
    LISTF = ("lh_first", "le_next", "le_prev")
    cg = P.callers()
    arms = set()
    changed = True
    while changed:
        changed = False
        for f in fns:
            if f in arms:
                continue
            for c in f.calls():
                ds, exts = P.callees(f, c)
                if "timerfd_settime" in exts or any(d in arms for d in ds):
                    arms.add(f)
                    changed = True
                    break
    if not arms:
        raise Broken("timer-rearm: no function arms the timer descriptor")

    def closes_fd(g):
        return any(g.nodes[c].get("callee") in ("ut_close", "close") and "timer_fd" in g.show(g.nodes[c]["args"][0]) for c in g.calls() if g.nodes[c].get("args"))
    nchk = 0
    for f in sorted(fns, key=lambda g: g.name):
        stores = [nid for nid, n in f.nodes.items() if n["k"] == "bin" and n["op"] == "=" and any(x in f.show(n["l"]) for x in LISTF)]
        if not stores:
            continue
        if any(True for _ in f.calls("timerfd_create")) and all(C.const_of(f, f.nodes[nid]["r"]) == 0 for nid in stores):
            rule.note("%s: initialises the empty list of a descriptor it has just created (disarmed)" % f.name)
            continue
        callers = {g for g, c in cg.get(f, [])}
        if callers and all(closes_fd(g) for g in callers):
            rule.note("%s: only called where the timer descriptor is closed (%s)" % (f.name, ", ".join(sorted(g.name for g in callers))))
            continue
        nchk += 1
        rule.instance("%s changes the list of pending timers" % f.qname)
        bad = []

        class Rearm(S.SeqRule):
            max_depth = 1

            def user0(s2, fn):
                return False

            def on_store(s2, fn, st, nid, lhs, rhs, op):
                if fn is f and any(x in fn.show(lhs) for x in LISTF):
                    return True
                return None

            def on_call(s2, fn, st, nid, callees, exts):
                if any(d in arms for d in callees):
                    return False
                return None

            def on_exit(s2, fn, st, ret_nid, ret_cls, top):
                if top and st.user and not bad:
                    bad.append(ret_nid)
        S.run(Rearm(P), f)
        if bad:
            rule.violation("%s:list-changed-descriptor-not-updated" % f.name, "%s can return after changing the list of pending timers without re-evaluating the timer descriptor "
                           "(%s): the descriptor stays armed for an earlier state of the list, and a timeout scheduled now (dns.timeout, tcp.connect_timeout, an "
                           "address-family delay) does not wake the application" % (f.name, ", ".join(sorted(g.name for g in arms if g.static))[:80]),
                           loc=f.loc(bad[0]) if bad[0] is not None else f.file)
        else:
            rule.ok("%s: every path from a change of the list to the return re-evaluates the descriptor" % f.qname, "path exploration")
    if nchk < 2:
        raise Broken("timer-rearm: only %d list-changing functions found" % nchk)


def check_attempt_dissolved(P, rule, nx):
    """before the tracker starts the next attempt on a descriptor it dissolves the one in progress (connect() to an
    AF_UNSPEC address): a socket left in SYN_SENT answers the next connect() with EALREADY, for ever"""
    aborters = [g for g in P.fns_in(nx.file.split("/")[-1]) if g.file == nx.file and g.static and g is not nx and any(True for _ in g.calls("connect"))]
    if not aborters:
        # the dissolving connect() is gone: the helper is the one the attempt function itself calls to take an attempt
        # down (it cancels the attempt's timer)
        aborters = [g for g in {d for c in nx.calls() for d in P.callees(nx, c)[0]} if g.static and g.file == nx.file and g is not nx
                    and any("cancel" in (g.nodes[c].get("callee") or "") for c in g.calls())]
    if len(aborters) != 1:
        raise Broken("attempt-dissolved: the helper that dissolves an attempt was not identified (%s)" % [g.name for g in aborters])
    ab = aborters[0]
    nsite = 0
    for F in sorted({g for g, c in P.callers().get(ab, [])}, key=lambda g: g.name):
        if not any(True for _ in F.calls(nx.name)):
            continue
        rule.instance("%s: %s then %s" % (F.qname, ab.name, nx.name))
        bad = []
        cnt = [0]

        class Dis(S.SeqRule):
            max_depth = 2

            def user0(s2, fn):
                return (False, False)        # (abort helper entered, dissolving connect done)

            def inline(s2, fn, nid, callee):
                return callee is ab

            def on_call(s2, fn, st, nid, callees, exts):
                ent, dis = st.user
                if ab in callees:
                    return (True, dis)
                if "connect" in exts and fn is ab:
                    return (ent, True)
                if nx in callees:
                    cnt[0] += 1
                    if ent and not dis and not bad:
                        bad.append(nid)
                    return (False, False)
                return None
        S.run(Dis(P), F)
        nsite += cnt[0]
        if bad:
            rule.violation("%s:next-attempt-without-dissolving" % F.name, "%s can start the next attempt (%s) on a path through %s on which the attempt in progress was not "
                           "dissolved: the descriptor stays in SYN_SENT and every later connect() on it fails with EALREADY although another address would accept"
                           % (F.name, nx.name, ab.name), loc=F.loc(bad[0]))
        else:
            rule.ok("%s: the attempt in progress is dissolved on every path before %s" % (F.qname, nx.name), "path exploration with the helper inlined and out-parameter constants")
    if nsite < 2:
        raise Broken("attempt-dissolved: only %d next-attempt sites explored" % nsite)
