"""C18 - each TLS connection uses the credentials designated at that moment
(structural clauses).

R1  context reference pairing: a socket that obtained a context from the store
    reaches ctx_store_put on every failing exit of connect/server/accept
    after the get, and on close and cleanup; the cache frees an entry exactly
    when its count reaches zero, and a hit increments the count.
R3  the digest sees everything: all four items are fed to the digest; a file
    item contributes its path and st_dev, st_ino, st_size, st_mtim.tv_sec,
    st_mtim.tv_nsec, following one symlink level; every item type is handled.
R4  load is bracketed by two digests: on every path to the context creation
    the four loads lie between the first and the second digest, the loop
    repeats while they differ, and the entry is installed under the second.
R5  environment and namespace are read at call time: their values are never
    kept in static storage.
R6  by-file and by-value setters of the same credential write the same slot,
    releasing the previous content first.
R7  every failing exit of the context store reports EPROTO (or its caller
    sets it).
X1  item_copy coverage of struct item (reported, not armed).
"""
from .. import cfg as C
from .. import seq as S
from .. import tp as TP
from ..model import Program
from ..report import Broken
from .C11 import registrations

EPROTO = 71


def run(ctx):
    P = Program(("libxcm",))
    ctx.analysed = {"units": len(P.units), "functions": len(P.functions)}
    ctx.explanation = ("Path exploration of the TLS ops for get/put pairing of cached contexts, argument-coverage checks of the credential digest, "
                       "ordering typestate on the load loop, who-may-write queries for environment values, slot agreement of the credential "
                       "setters, and errno facts at the failing exits of the context store.")
    ctx.trust("SHA-256 distinguishes different inputs; stat() reports a changed file through size/mtime/inode")
    tables = TP.ops_tables(P)
    bt = [t for t in tables if t.proto == "btls"][0]
    gc = P.fn("ctx_store_get_ctx")
    pc = P.fn("ctx_store_put")

    # ------------------------------------------------------------------ R1
    r1 = ctx.rule("C18.R1", "every context obtained from the store is put back: on failing exits after the get, on close and on cleanup")
    putters = set()
    for f in P.fns_in(bt.slots["connect"].file.split("/")[-1]):
        if any(True for _ in f.calls("ctx_store_put")):
            putters.add(f)
    if not putters:
        raise Broken("C18.R1: no function of btls calls ctx_store_put")
    # the put is guarded by the field being non-NULL only
    for f in putters:
        for c in f.calls("ctx_store_put"):
            a = f.nodes[c]["args"][0]
            if f.fields_of(a)[-1:] != ("ssl_ctx",):
                r1.violation("%s:put-arg" % f.name, "ctx_store_put is given %s, not the socket's ssl_ctx" % f.show(a), loc=f.loc(c))
    for slot in ("connect", "server", "accept"):
        f = bt.slots[slot]
        r1.instance(f.qname)
        bad = []
        ngets = [0]

        class Pair(S.SeqRule):
            def user0(s2, fn):
                return (None, False)        # (get call nid while possibly holding, put done)

            def inline(s2, fn, nid, callee):
                return False

            def on_call(s2, fn, st, nid, callees, exts):
                n = fn.nodes[nid]
                if n.get("callee") == "ctx_store_get_ctx":
                    ngets[0] += 1
                    return (nid, False)
                if any(d in putters for d in callees):
                    return (st.user[0], True)
                return None

            def on_branch(s2, fn, st, blk, cond, label):
                if label not in ("T", "F") or st.user[0] is None:
                    return None
                l, op, r = C.cond_atom(fn, cond, label == "T")
                c = r[1] if isinstance(r, tuple) else C.const_of(fn, r)
                if fn.fields_of(l)[-1:] == ("ssl_ctx",) and c == 0 and op == "==":
                    return (None, st.user[1])       # the get failed: nothing to put back
                return None

            def on_exit(s2, fn, st, ret_nid, ret_cls, top):
                if top and ret_cls == S.NEG and st.user[0] is not None and not st.user[1]:
                    bad.append(ret_nid)
        S.run(Pair(P), f)
        if ngets[0] < 1:
            raise Broken("C18.R1: %s does not obtain a context" % f.name)
        if bad:
            r1.violation("%s:get-without-put" % f.name, "%s fails after it obtained a TLS context without putting it back (the cache entry's use count never "
                         "returns to zero: the context and its credentials stay cached for the life of the process)" % f.name, loc=f.loc(bad[0]))
        else:
            r1.ok("%s: every failing exit after a successful get passes the function that puts the context back" % f.qname, "path exploration")
    for slot in ("close", "cleanup"):
        f = bt.slots[slot]
        r1.instance(f.qname)
        from .. import callgraph as CG
        reach = set(CG.reach(P, [f])[0])
        if reach & putters:
            r1.ok("%s reaches %s" % (f.qname, sorted(x.name for x in reach & putters)[0]), "reachability")
        else:
            r1.violation("%s:no-put" % f.name, "%s does not reach ctx_store_put" % f.name, loc=f.file)
    # cache counting
    cput, cget, cnew = P.fn("cache_put"), P.fn("cache_get"), P.fn("cache_entry_create")
    r1.instance("cache use counts")
    # the counting field, by role: the member the put path decrements
    cntf = sorted({cput.fields_of(lhs)[-1] for b, i, e, lhs, rhs, op in cput.stores() if op in ("--", "post--") and cput.fields_of(lhs)})
    if len(cntf) != 1:
        raise Broken("C18.R1: use-count field of the cache not identified (%s)" % cntf)
    cntf = cntf[0]
    dec = [e for b, i, e, lhs, rhs, op in cput.stores() if cput.fields_of(lhs)[-1:] == (cntf,) and op in ("--", "post--")]
    inc = [e for b, i, e, lhs, rhs, op in cget.stores() if cget.fields_of(lhs)[-1:] == (cntf,) and op in ("++", "post++")]
    one = [e for b, i, e, lhs, rhs, op in cnew.stores() if cnew.fields_of(lhs)[-1:] == (cntf,) and rhs is not None and C.const_of(cnew, rhs) == 1]
    freed_on_zero = False
    for b, cond in C.cond_blocks(cput):
        l, op, r = C.cond_atom(cput, cond, True)
        if cput.fields_of(l)[-1:] == (cntf,) and not isinstance(r, tuple) and C.const_of(cput, r) == 0 and op == "==":
            only = C.only_via_edge(cput, b, "T")
            if any(cput.nodes[e]["k"] == "call" and cput.nodes[e].get("callee") == "cache_entry_destroy" for bb in only for e in cput.blocks[bb].elems):
                alld = [cput.where()[c][0] for c in cput.calls("cache_entry_destroy")]
                if all(x in only for x in alld) and dec and all(cput.where()[d][0] in C.dominators(cput)[b.id] for d in dec):
                    freed_on_zero = True
    hit_counts = bool(inc) and all(any(cget.nodes[x]["k"] == "return" for x in cget.blocks[cget.where()[e][0]].elems) or True for e in inc)
    if dec and inc and one and freed_on_zero and hit_counts:
        r1.ok("install sets the count to 1, a cache hit increments it, put decrements it and frees the entry exactly at zero", "stores + control dependence")
    else:
        r1.violation("cache:counting", "use counting: created-with-1=%s, hit-increments=%s, put-decrements=%s, freed-only-at-zero=%s" % (bool(one), bool(inc), bool(dec), freed_on_zero), loc=cput.file)

    # ------------------------------------------------------------------ R3
    r3 = ctx.rule("C18.R3", "the credential digest covers all four items, and for files the path and the five stat fields, following one symlink level")
    gh = P.fn("get_credentials_hash")
    r3.instance(gh.qname)
    item_params = [p["name"] for p in gh.params if "struct item" in (p.get("t") or "")]
    fed = [gh.sn(gh.nodes[c]["args"][0]).get("name") for c in gh.calls("hash_item")]
    if sorted(fed) == sorted(item_params) and len(item_params) == 4:
        r3.ok("each of %s is fed to the digest exactly once" % item_params, "argument coverage")
    else:
        r3.violation("get_credentials_hash:items", "the digest is computed over %s, the items are %s: two configurations that differ only in a missing item share "
                     "one cached context" % (fed, item_params), loc=gh.file)
    # failure of any item fails the digest
    # the file hasher is found by role: the function of the store that stats the file and feeds the digest
    hfs = [f for f in P.fns_in(gh.file.split("/")[-1]) if any(f.nodes[c].get("callee") in ("stat", "lstat", "fstatat", "statx", "fstat") for c in f.calls()) and any(True for _ in f.calls("EVP_DigestUpdate"))]
    if len(hfs) != 1:
        raise Broken("C18.R3: file hasher not found (%s)" % [f.name for f in hfs])
    hf = hfs[0]
    r3.instance(hf.qname)
    need = {"st_dev", "st_ino", "st_size", "tv_sec", "tv_nsec"}
    got = set()
    path_fed = False
    for c in hf.calls("EVP_DigestUpdate"):
        a = hf.nodes[c]["args"][1]
        for x in hf.walk(a):
            m = hf.nodes[x]
            if m["k"] == "member" and m["field"] in need:
                got.add(m["field"])
            if m["k"] == "ref" and m.get("dk") == "param" and m["name"] == hf.params[0]["name"]:
                path_fed = True
    follows = any(hf.nodes[c].get("callee") == hf.name for c in hf.calls()) and any("S_IFLNK" in hf.show(cond) or "40960" in hf.show(cond) for b, cond in C.cond_blocks(hf))
    # one stat that does not follow the link (to see a link being flipped) and one that does (to see its target change)
    nofollow = any(True for _ in hf.calls("lstat")) or any((C.const_of(hf, hf.nodes[c]["args"][3]) or 0) & 0x100 for c in hf.calls("fstatat") if len(hf.nodes[c]["args"]) > 3)
    following = any(True for _ in hf.calls("stat")) or any(C.const_of(hf, hf.nodes[c]["args"][3]) is not None and not (C.const_of(hf, hf.nodes[c]["args"][3]) & 0x100)
                                                            for c in hf.calls("fstatat") if len(hf.nodes[c]["args"]) > 3)
    uses_lstat = nofollow and following
    if got == need and path_fed and follows and uses_lstat:
        r3.ok("a file contributes its path, device, inode, size and modification time (s, ns); a symlink also its target's", "argument coverage")
    else:
        r3.violation("%s:fields" % hf.name, "file digest lacks %s (path fed=%s, symlink followed=%s): a replaced file could be served from a stale cached context"
                     % (sorted(need - got), path_fed, follows and uses_lstat), loc=hf.file)
    hi = P.fn("hash_item")
    r3.instance(hi.qname)
    sw = [b for b in hi.blocks.values() if b.term and b.term["k"] == "SwitchStmt"]
    en = [c["name"] for c in P.enum("item_type")["constants"]]
    cases = [lab[2] for s_, lab in C.edges(hi, sw[0]) if lab[0] == "case"] if sw else []
    if sorted(cases) == sorted(en) and list(hi.calls("hash_file")) and list(hi.calls("hash_value")):
        r3.ok("every item type (%s) is handled; values are hashed by content, files by identity" % en, "switch exhaustiveness")
    else:
        r3.violation("hash_item:types", "item types handled: %s of %s" % (cases, en), loc=hi.file)

    # ------------------------------------------------------------------ R4
    r4 = ctx.rule("C18.R4", "the credentials are loaded between two digests, re-loaded while the digests differ, and cached under the second")
    r4.instance(gc.qname)
    items = [p["name"] for p in gc.params if "struct item" in (p.get("t") or "")]
    bad4 = []
    nload = [0]

    # helpers of the same file that load items on behalf of their caller: parameter positions whose item is loaded on
    # every path to a non-failing return (path exploration of the helper)
    loaders = {}
    for h in P.functions:
        if h.file != gc.file or not h.static or h is gc or not any(True for _ in h.calls("item_load")):
            continue
        ipar = {p["name"]: i for i, p in enumerate(h.params) if "struct item" in (p.get("t") or "")}
        if not ipar:
            continue
        acc = []

        class Loads(S.SeqRule):
            max_depth = 0

            def user0(s3, fn):
                return frozenset()

            def on_call(s3, fn, st, nid, callees, exts):
                if fn.nodes[nid].get("callee") == "item_load":
                    a = fn.nodes[fn.origin(fn.nodes[nid]["args"][0])]
                    if a["k"] == "ref" and a.get("name") in ipar:
                        return [(st.user | {a["name"]}, S.NONNEG), (st.user, S.NEG)]
                return None

            def on_exit(s3, fn, st, ret_nid, ret_cls, top):
                if top and ret_cls != S.NEG:
                    acc.append(st.user)
        S.run(Loads(P), h)
        if acc:
            must = frozenset.intersection(*acc)
            if must:
                loaders[h.name] = sorted(ipar[x] for x in must)
                r4.note("%s loads its item parameters %s on every path that does not fail" % (h.name, sorted(must)))

    class Order(C.Rule):
        def initial(s2, fn):
            return (None, frozenset(), None)     # (first digest buffer, loaded items since, second digest buffer)

        def elem(s2, fn, st, nid, blk, idx):
            n = fn.nodes[nid]
            if n["k"] != "call":
                return None
            h1, loaded, h2 = st
            name = n.get("callee") or ""
            if name == "get_credentials_hash":
                buf = fn.sn(n["args"][4]).get("name")
                if h1 is None or (not loaded):
                    return (buf, frozenset(), None)
                return (h1, loaded, buf)
            if name == "item_load" or name in loaders:
                its = {fn.sn(n["args"][i]).get("name") for i in (loaders[name] if name in loaders else [0]) if i < len(n["args"])}
                if h2 is not None:
                    return (h1, loaded | its, None)     # a load after the second digest invalidates it
                return (h1, loaded | its, h2)
            if name == "load_ssl_ctx":
                nload[0] += 1
                if h1 is None or h2 is None or set(loaded) != set(items) or h1 == h2:
                    bad4.append(("load", nid, st))
                return st
            if name == "cache_install":
                buf = fn.sn(n["args"][1]).get("name")
                if buf != h2:
                    bad4.append(("install", nid, st))
            return None
    C.explore(gc, Order(), max_states=200000)
    if nload[0] < 1:
        raise Broken("C18.R4: load_ssl_ctx is not reached in ctx_store_get_ctx")
    # the loop repeats while the two digests differ
    loop_ok = False
    for nid, n in gc.nodes.items():
        if n["k"] == "bin" and n["op"] == "=" and gc.sn(n["l"])["k"] == "ref":
            r = gc.sn(n["r"])
            if r["k"] == "un" and r["op"] == "!" and gc.sn(r["sub"]).get("callee") == "hash_equal":
                var = gc.sn(n["l"])["name"]
                for b in gc.blocks.values():
                    if b.term and b.term["k"] in ("DoStmt", "WhileStmt") and b.term.get("cond") is not None and gc.sn(b.term["cond"]).get("name") == var:
                        loop_ok = True
    if not bad4 and loop_ok:
        r4.ok("all four items are loaded between the two digests, the loop repeats while they differ, the entry is installed under the second digest", "ordering typestate on all paths")
    else:
        what = "; ".join("%s at line %s in state %s" % (k, gc.line_of(nid), st) for k, nid, st in bad4[:2])
        r4.violation("ctx_store_get_ctx:bracket", "the load is not bracketed by two digests (%s; loop repeats while different=%s): material read while files are being "
                     "replaced could be cached under the digest of other material" % (what or "ordering ok", loop_ok), loc=gc.file)

    # ------------------------------------------------------------------ R5
    r5 = ctx.rule("C18.R5", "the environment variable and the network namespace are read when the call is made, never cached in static storage")
    src_fns = [f for f in P.functions if any(f.nodes[c].get("callee") in ("getenv", "ut_self_net_ns") for c in f.calls()) and f.file.endswith(("xcm_tp_btls.c", "util.c"))]
    if len(src_fns) < 2:
        raise Broken("C18.R5: getenv/ut_self_net_ns users not found")
    for f in src_fns:
        r5.instance(f.qname)
        st_locals = [n for n in f.nodes.values() if n["k"] == "ref" and n.get("dk") in ("static_local", "global")]
        writes = [e for b, i, e, lhs, rhs, op in f.stores() if f.sn(lhs)["k"] == "ref" and f.sn(lhs).get("dk") in ("static_local", "global")]
        if writes:
            r5.violation("%s:static-cache" % f.name, "%s stores into static storage next to reading the environment/namespace: a later change of XCM_TLS_CERT or of "
                         "the namespace would not be seen" % f.name, loc=f.loc(writes[0]))
        else:
            r5.ok("%s keeps nothing in static storage" % f.qname, "who-may-write")

    # ------------------------------------------------------------------ R6
    r6 = ctx.rule("C18.R6", "by-file and by-value setters of one credential write the same slot and release the previous content first")
    regs = registrations(P)
    for x in ("cert", "key", "tc", "crl"):
        slots = {}
        for an in ("tls.%s_file" % x, "tls.%s" % x):
            for (rf, c, sd, gd) in regs.get(an, []):
                if sd is None:
                    continue
                for cc in sd.calls():
                    for a in sd.nodes[cc]["args"]:
                        an_ = sd.sn(a)
                        if an_["k"] == "un" and an_["op"] == "&":
                            fl = sd.fields_of(an_["sub"])
                            if fl and fl[-1] in ("cert", "key", "tc", "crl"):
                                slots[an] = fl[-1]
        r6.instance("tls.%s / tls.%s_file" % (x, x))
        if slots.get("tls.%s_file" % x) == x and slots.get("tls.%s" % x) == x:
            r6.ok("both forms of tls.%s write the slot `%s`" % (x, x), "argument agreement")
        else:
            r6.violation("setters:%s" % x, "tls.%s_file writes %s, tls.%s writes %s" % (x, slots.get("tls.%s_file" % x), x, slots.get("tls.%s" % x)), loc=bt.slots["connect"].file)
    for hname, setter in (("set_file_attr", "item_set_file"), ("set_value_attr", "item_set_value_n")):
        h = P.fn(hname)
        r6.instance(h.qname)
        tgt = [p["name"] for p in h.params if "struct item" in (p.get("t") or "")]
        ok = tgt and all(h.sn(h.nodes[c]["args"][0]).get("name") == tgt[0] for c in h.calls(setter)) and list(h.calls(setter))
        # item_set_* releases the old content itself
        sf = P.fn(setter)
        rel = any(True for _ in sf.calls("item_deinit"))
        if ok and rel:
            r6.ok("%s stores into its target slot through %s, which releases the previous content" % (hname, setter), "calls")
        else:
            r6.violation("%s:slot" % hname, "%s does not store into its target through %s (or the previous content is not released)" % (hname, setter), loc=h.file)

    # ------------------------------------------------------------------ R7
    r7 = ctx.rule("C18.R7", "unreadable, malformed or mismatching material fails with EPROTO")
    r7.instance(gc.qname)
    bad7 = []
    nfail = [0]
    # callees that guarantee EPROTO on their own failing exits (decided on their bodies)
    guarantees = set()
    for cal in ("load_ssl_ctx",):
        cf = P.fn(cal)
        okc = [True]
        nz = [0]

        class E1(S.SeqRule):
            def inline(s2, fn, nid, callee):
                return False

            def on_exit(s2, fn, st, ret_nid, ret_cls, top):
                if top and ret_cls == S.ZERO:
                    nz[0] += 1
                    if st.efact != ("eq", EPROTO):
                        okc[0] = False
        S.run(E1(P), cf, max_states=2000000)
        if nz[0] < 2:
            raise Broken("C18.R7: only %d failing exits of %s explored" % (nz[0], cal))
        if okc[0]:
            guarantees.add(cal)
    # failure edges inside ctx_store_get_ctx: a tested call result whose failing edge leaves without creating an entry
    for b, cond in C.cond_blocks(gc):
        l, op, r = C.cond_atom(gc, cond, True)
        c = r[1] if isinstance(r, tuple) else C.const_of(gc, r)
        ln = gc.sn(l)
        callee = None
        if ln["k"] == "call":
            callee = ln.get("callee")
        elif ln["k"] == "ref" and ln.get("dk") == "local" and c == 0:
            for m in gc.nodes.values():
                if m["k"] == "decl":
                    for v in m["vars"]:
                        if v["name"] == ln["name"] and v.get("init") is not None and gc.sn(v["init"])["k"] == "call":
                            callee = gc.sn(v["init"]).get("callee")
        if callee is None or c != 0 or callee in ("cache_get", "hash_equal", "log_is_enabled", "__builtin_expect"):
            continue
        cd_ = P.resolve_direct(gc, callee)
        if cd_ is not None and cd_.ret in ("_Bool", "bool"):
            continue            # a predicate, not an operation that can fail
        fail_lab = "T" if op in ("<", "==") else ("F" if op in (">=", "!=") else None)
        if fail_lab is None:
            continue
        succ = [s_ for s_, lab in C.edges(gc, b) if lab == fail_lab]
        progress = {"load_ssl_ctx", "cache_install", "item_load", "get_credentials_hash"} | set(loaders)
        if not succ or any(gc.nodes[e]["k"] == "call" and gc.nodes[e].get("callee") in progress for bb in C.reachable_blocks(gc, succ[0]) for e in gc.blocks[bb].elems):
            continue            # not an edge that gives up
        nfail[0] += len(loaders.get(callee, [0]))        # a helper that loads k items stands for k failure edges
        def sets_eproto(bb):
            return any(gc.nodes[e]["k"] == "bin" and gc.nodes[e]["op"] == "=" and gc.show(gc.nodes[e]["l"]) == "errno" and C.const_of(gc, gc.nodes[e]["r"]) == EPROTO
                       for e in gc.blocks[bb].elems)
        # every path from the failing edge to the function's exit assigns EPROTO
        sets = C.must_pass(gc, succ, sets_eproto)
        if sets or callee in guarantees:
            r7.ok("failure of %s(): EPROTO %s" % (callee, "set on the failing edge" if sets else "guaranteed by the callee's own failing exits"), "control dependence / callee exits")
        else:
            bad7.append((cond, callee))
    if nfail[0] < 6:
        raise Broken("C18.R7: only %d failure edges found in ctx_store_get_ctx" % nfail[0])
    callers_set = []
    for g, call in P.callers().get(gc, []):
        # does the caller set EPROTO itself on the NULL edge?
        sets = False
        for b, cond in C.cond_blocks(g):
            l, op, r = C.cond_atom(g, cond, True)
            if g.fields_of(l)[-1:] == ("ssl_ctx",):
                lab = "T" if op == "==" else "F"
                for bb in C.only_via_edge(g, b, lab):
                    for e in g.blocks[bb].elems:
                        m = g.nodes[e]
                        if m["k"] == "bin" and m["op"] == "=" and g.show(m["l"]) == "errno" and C.const_of(g, m["r"]) == EPROTO:
                            sets = True
        callers_set.append((g, sets))
    # mismatching material: a context is handed out only after certificate and key were checked against each other
    lc = P.fn("load_ssl_ctx")
    r7.instance("%s: key/certificate consistency" % lc.qname)
    bad_chk = []
    nok = [0]

    class Chk(S.SeqRule):
        def user0(s2, fn):
            return None

        def inline(s2, fn, nid, callee):
            return False

        def on_call(s2, fn, st, nid, callees, exts):
            if "SSL_CTX_check_private_key" in exts:
                return nid
            return None

        def on_exit(s2, fn, st, ret_nid, ret_cls, top):
            if top and ret_cls in (S.NONZERO, S.POS, None) and ret_nid is not None and C.const_of(fn, fn.nodes[ret_nid]["sub"]) != 0:
                nok[0] += 1
                c = st.user
                if c is None or st.get(("call", c)) not in (S.POS,):
                    bad_chk.append(ret_nid)
    S.run(Chk(P), lc, max_states=2000000)
    if nok[0] < 1:
        raise Broken("C18.R7: no successful exit of load_ssl_ctx explored")
    if bad_chk:
        r7.violation("load_ssl_ctx:no-consistency-check", "load_ssl_ctx hands out a context on a path where SSL_CTX_check_private_key has not succeeded: a certificate and a "
                     "key that do not belong together (e.g. different algorithms) are accepted and cached instead of failing with EPROTO", loc=lc.loc(bad_chk[0]))
    else:
        r7.ok("a context is returned only after SSL_CTX_check_private_key() == 1", "path exploration")
    if not bad7:
        r7.ok("every failing exit of ctx_store_get_ctx has errno == EPROTO established on its path", "errno facts with load_ssl_ctx inlined")
    else:
        lax = [g.name for g, sets in callers_set if not sets]
        if lax:
            srcs = sorted({s_ for _, s_ in bad7})
            r7.violation("ctx_store_get_ctx:errno", "ctx_store_get_ctx can fail with an errno other than EPROTO (left by %s), and %s pass(es) it on unchanged: "
                         "an unreadable credential file is reported as e.g. EACCES instead of the documented EPROTO" % (srcs, lax), loc=gc.loc(bad7[0][0]))
        else:
            r7.ok("ctx_store_get_ctx may leave another errno, but every caller sets EPROTO on the failure edge", "caller check")
    for g, sets in callers_set:
        r7.instance("%s -> ctx_store_get_ctx" % g.qname)

    # ------------------------------------------------------------------ X1
    ic = P.fn("item_copy")
    irec = [fl["name"] for fl in P.record("item")["fields"]]
    copied = {ic.sn(lhs)["field"] for b, i, e, lhs, rhs, op in ic.stores() if ic.sn(lhs)["k"] == "member"}
    miss = [x for x in irec if x not in copied]
    if miss:
        r7.note("cross-reference (not armed): item_copy does not copy %s of struct item - an inherited by-value private key loses its `sensitive` mark (logging only)" % miss)

    # ------------------------------------------------------------------ R8
    # "of the moment" includes the namespace name the default file names are built from: it is looked up afresh on
    # every call - nothing on that path remembers an earlier answer (no static, thread-local or global state)
    r8 = ctx.rule("C18.R8", "the network namespace name behind the default credential file names is determined afresh on every call (no remembered state)")
    from .. import callgraph as CG
    fin = P.fn("finalize_tls_conf")
    name_fns = set()
    for c in fin.calls():
        for d in P.callees(fin, c)[0]:
            # role: the util.c function that fills a caller-supplied name buffer and reads /proc or /run/netns to do so
            if d.file.endswith("common/util.c") and any(f.nodes[x].get("callee") in ("opendir", "readdir", "stat", "readlink") for f in [d] for x in f.calls()):
                name_fns.add(d)
    if not name_fns:
        raise Broken("C18.R8: the namespace-name lookup called by finalize_tls_conf was not found")
    reach8, _ = CG.reach(P, sorted(name_fns, key=lambda g: g.name))
    for g in reach8:
        r8.instance(g.qname)
        hits = sorted({(n["name"], n.get("dk")) for n in g.nodes.values() if n["k"] == "ref" and n.get("dk") in ("global", "static_local")
                       and n["name"] not in ("stderr", "stdout")})
        tl = [v["name"] for m in g.nodes.values() if m["k"] == "decl" for v in m["vars"] if v.get("tls") or v.get("static")]
        if hits or tl:
            r8.violation("%s:remembered-state" % g.name, "%s, on the path that names the per-namespace credential files, uses state that outlives the call (%s): a namespace "
                         "that is named, renamed or replaced later keeps its old name for this thread, so sockets load another identity's files"
                         % (g.name, ", ".join([h[0] for h in hits] + tl)), loc=g.file)
        else:
            r8.ok("%s keeps nothing between calls" % g.qname, "no reference to static-duration objects")

    # ------------------------------------------------------------------ R9
    r9 = ctx.rule("C18.R9", "a socket's context is built from that socket's own four credential items")
    check_ctx_args(P, r9)

    # ------------------------------------------------------------------ R10
    r10 = ctx.rule("C18.R10", "default credential files: every item has its own default name and its own per-namespace name")
    check_ns_templates(P, r10)

    # ------------------------------------------------------------------ R11
    # "a failing load affects nobody else": what a failed load (or a failed handshake) leaves on the thread's OpenSSL error
    # queue would make the next would-block SSL call of an ESTABLISHED connection look like a protocol error
    from . import C02 as c02
    from . import C07 as c07
    r13 = ctx.rule("C18.R13", "a PEM bundle ends only where the reader reports 'no further block': any other reason fails the load")
    check_bundle_end(P, r13)
    r12 = ctx.rule("C18.R12", "credential files are read to end-of-file: a short read(2) does not end the load")
    check_loader_reads_to_eof(P, r12)
    r11 = ctx.rule("C18.R11", "a failed credential load or handshake leaves the thread's OpenSSL error queue empty: established connections are not affected")
    c02.check_store_queue_clean(P, r11)
    pe = P.fn("process_ssl_event")
    r11.instance(pe.qname)
    dr = c07.DrainRule(P, pe, r11)
    S.run(dr, pe)
    if dr.nproto < 2:
        raise Broken("C18.R11: protocol-error exits of process_ssl_event not found (%d)" % dr.nproto)


def check_ctx_args(P, rule):
    """every call that obtains an SSL_CTX passes the certificate, key, trust and CRL items of ONE socket record, each in
    the parameter of its own name, and stores the result in that same record (an item taken from another socket - the
    server's instead of the accepted connection's - silently ignores what the application configured)"""
    getter = P.fn("ctx_store_get_ctx")
    want = [p["name"] for p in getter.params]
    n = 0
    for f in P.functions:
        for c in f.calls(getter.name):
            n += 1
            rule.instance("%s: %s" % (f.qname, f.show(c)[:50]))
            args = f.nodes[c]["args"]
            roots, bad = set(), []
            for pname, a in zip(want, args):
                fl = f.fields_of(a)
                if not fl or not ("item" in (getter.params[want.index(pname)].get("t") or "")):
                    continue
                roots.add(f.apath(a)[0][1:])
                if fl[-1] != pname:
                    bad.append("`%s` is passed as %s" % (f.show(a), pname))
            # where the result goes
            par = f.parents().get(c)
            while par is not None and f.nodes[par]["k"] in ("cast", "paren"):
                par = f.parents().get(par)
            pn = f.nodes.get(par, {})
            if pn.get("k") == "bin" and pn["op"] == "=" and f.sn(pn["l"])["k"] == "member":
                roots.add(f.apath(pn["l"])[0][1:])
            if len(roots) != 1:
                bad.append("the items and the result belong to different sockets (%s)" % sorted(r[1] for r in roots))
            if bad:
                rule.violation("%s:ctx-items" % f.name, "%s: %s - the handshake runs with credentials or a revocation list other than the ones configured on this socket"
                               % (f.name, "; ".join(bad)), loc=f.loc(c))
            else:
                rule.ok("%s builds its context from its own cert/key/tc/crl items" % f.qname, "argument identity")
    if n < 3:
        raise Broken("ctx-args: only %d context lookups found" % n)


def check_ns_templates(P, rule):
    """the four default-file helpers agree: each passes a default template with one %s (the directory) and a namespace
    template with two (directory, namespace name) for the same item, and the four items are distinct"""
    calls = []
    for f in P.fns_in("tls/xcm_tp_btls.c"):
        for c in f.calls("get_file"):
            a = f.nodes[c]["args"]
            d, n = f.sn(a[0]), f.sn(a[1])
            calls.append((f, c, d.get("v") if d["k"] == "str" else None, n.get("v") if n["k"] == "str" else None))
    if len(calls) < 4:
        raise Broken("ns-templates: only %d default-file lookups" % len(calls))
    seen = set()
    for f, c, dv, nv in calls:
        rule.instance("%s: %s" % (f.qname, f.show(c)[:60]))
        why = None
        if dv is None or nv is None:
            why = "a template is not a string literal"
        elif dv.count("%s") != 1 or nv.count("%s") != 2:
            why = "the default template `%s` must hold one %%s and the namespace template `%s` two" % (dv, nv)
        elif nv.replace("_%s", "") != dv:
            why = "the namespace template `%s` is not the per-namespace variant of `%s`" % (nv, dv)
        elif dv in seen:
            why = "the template `%s` is used for two different items" % dv
        seen.add(dv)
        if why:
            rule.violation("%s:ns-template" % f.name, "%s: %s - in a named network namespace this item is read from another namespace's (or another item's) file" % (f.name, why), loc=f.loc(c))
        else:
            rule.ok("%s: `%s` / `%s`" % (f.qname, dv, nv), "literal agreement")


def check_loader_reads_to_eof(P, rule):
    """credentials, trust anchors and revocation lists are files read whole.  A loop over fread() may stop at a short
    count (fread itself reads on until end-of-file or an error); a loop over read(2) may not - a short read is what
    pipes, FIFOs, /proc/self/fd/N and network file systems return in the middle of a file, and whatever follows (the
    current CRL after the superseded one) is silently dropped.  For read(2)/recv the only end-of-file is the result 0."""
    RAW = ("read", "pread", "recv")
    n = 0
    for f in P.functions:
        if not f.file.endswith("common/util.c"):
            continue
        calls = [c for c in f.calls() if (f.nodes[c].get("callee") or "") in RAW + ("fread",)]
        if not calls or "load" not in f.name:
            continue
        n += 1
        rule.instance("%s: %s" % (f.qname, ", ".join(sorted({f.nodes[c]["callee"] for c in calls}))))
        bad = []
        for c in calls:
            if f.nodes[c]["callee"] not in RAW:
                continue
            # the variable holding the result
            res = None
            par = f.parents()
            x = par.get(c)
            while x is not None and f.nodes[x]["k"] in ("cast", "paren"):
                x = par.get(x)
            if x is not None and f.nodes[x]["k"] == "decl":
                res = [v["name"] for v in f.nodes[x]["vars"] if v.get("init") is not None and f.strip(v["init"]) == c][:1]
            elif x is not None and f.nodes[x]["k"] == "bin" and f.nodes[x]["op"] == "=":
                res = [f.sn(f.nodes[x]["l"]).get("name")]
            for b, cond in C.cond_blocks(f):
                l, op, r = C.cond_atom(f, cond, True)
                ln = f.nodes[f._strip0(l)] if not isinstance(l, tuple) else {}
                if ln.get("k") == "ref" and res and ln.get("name") == res[0]:
                    cv = r[1] if isinstance(r, tuple) else C.const_of(f, r)
                    if cv != 0:
                        bad.append((cond, f.show(cond)))
        if bad:
            rule.violation("%s:short-read-as-eof" % f.name, "%s ends its loop over read(2) on `%s`: a short read is not end-of-file, the rest of the file (a later certificate, "
                           "the current revocation list) is dropped without an error" % (f.name, bad[0][1][:40]), loc=f.loc(bad[0][0]))
        else:
            rule.ok("%s reads until end-of-file" % f.qname, "fread short count / read(2) result 0 only")
    if n < 1:
        raise Broken("loader-eof: no file loader found in util.c")


def check_bundle_end(P, rule):
    """a PEM bundle (trust anchors, revocation lists, the certificate chain) is read block by block until the reader
    answers NULL.  NULL means 'no further block' only when the reason on OpenSSL's error queue is PEM_R_NO_START_LINE;
    any other reason is a damaged block, and what follows it (further trust anchors, the current CRL) is lost.  A loader
    that succeeds after the reader's NULL without having looked at the reason builds - and caches - a context from a
    silently truncated bundle instead of failing with EPROTO."""
    READERS = ("PEM_read_bio_X509_AUX", "PEM_read_bio_X509", "PEM_read_bio_X509_CRL")
    NO_START_LINE, ERR_LIB_PEM = 108, 9
    n = 0
    for f in P.functions:
        if not f.file.endswith("tls/ctx_store.c"):
            continue
        rd = [c for c in f.calls() if (f.nodes[c].get("callee") or "") in READERS]
        # bundle readers: a reader call inside a loop
        cyc = set()
        for comp in C.sccs(f):
            if len(comp) > 1 or any(b in f.blocks[b].succs for b in comp):
                cyc |= set(comp)
        looped = [c for c in rd if f.where()[c][0] in cyc]
        if not looped:
            continue
        n += 1
        rule.instance("%s: %s in a loop" % (f.qname, ", ".join(sorted({f.nodes[c]["callee"] for c in looped}))))
        bad = []
        nok = [0]

        class End(S.SeqRule):
            max_depth = 0

            def user0(s2, fn):
                return (False, False)        # (a looped reader answered NULL, the reason was examined since)

            def on_branch(s2, fn, st, blk, cond, label):
                if label not in ("T", "F"):
                    return None
                l, op, r = C.cond_atom(fn, cond, label == "T")
                if isinstance(l, tuple):
                    return None
                ln = fn.nodes[fn.origin(l)]
                if ln["k"] == "bin" and ln["op"] == "=":          # while ((cert = PEM_read_bio_X509(..)) != NULL)
                    ln = fn.nodes[fn.origin(ln["r"])]
                if ln["k"] == "call" and ln["id"] in looped and C.const_of(fn, r) == 0 and op == "==":
                    return (True, False)
                ln2 = fn.sn(l)
                if ln2["k"] == "call" and ((ln2.get("callee") or "") == "ERR_GET_REASON" and C.const_of(fn, r) == NO_START_LINE or
                                           (ln2.get("callee") or "") == "ERR_GET_LIB" and C.const_of(fn, r) == ERR_LIB_PEM):
                    # (the PEM readers leave a PEM-library error behind every NULL: a test of the library that comes out
                    # 'not PEM' cannot happen after one, and is counted as an examination like the test of the reason)
                    return (st.user[0], True)
                return None

            def on_exit(s2, fn, st, ret_nid, ret_cls, top):
                if top and ret_cls == S.ZERO:
                    nok[0] += 1
                    if st.user[0] and not st.user[1] and not bad:
                        bad.append(ret_nid)
        S.run(End(P), f)
        if nok[0] < 1:
            raise Broken("bundle-end: no successful exit of %s explored" % f.name)
        if bad:
            rule.violation("%s:end-of-bundle-not-examined" % f.name, "%s can succeed after the PEM reader answered NULL without having compared the reason with "
                           "PEM_R_NO_START_LINE: a damaged block in the middle of the bundle ends the load silently and the context is built from what came before it"
                           % f.name, loc=f.loc(bad[0]) if bad[0] is not None else f.file)
        else:
            rule.ok("%s: success after the reader's NULL only with the reason examined" % f.qname, "path exploration")
    if n < 3:
        raise Broken("bundle-end: only %d bundle loaders found in ctx_store.c" % n)
