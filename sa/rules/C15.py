"""C15 - threads using different sockets do not interfere: data-race freedom
of the library's process-wide state.

R1  every mutable object with static storage in libxcm/libxcmctl is in
    exactly one class, decided from all its access sites (direct, or through
    pointer parameters bound to it):
      init-only   every write lies in a function reachable only from
                  __attribute__((constructor)) functions
      atomic      every access is an operand of an __atomic builtin
      locked      the must-lockset at every access contains one fixed mutex
      never-written
      mutex       only handed to the lock primitives
    __thread objects and const objects are not shared mutable state; objects
    spelled in a system header belong to that library.
R2  every lock acquired in a function is released on every non-aborting exit
    (unless the function is a lock wrapper by design: its net effect is the
    acquisition on all paths); no blocking primitive inside a critical
    section.
R3  a pointer obtained from locked storage is not dereferenced after the
    unlock, except for reference-counted records.
"""
from .. import callgraph as CG
from .. import cfg as C
from .. import lockset as L
from ..model import Program
from ..report import Broken
from .C05 import ALWAYS_BLOCK, TIMEOUT_ARG


def ctor_only(P, f, memo, stack=()):
    """f is reachable only from constructor functions"""
    if f in memo:
        return memo[f]
    if "constructor" in f.attrs:
        memo[f] = True
        return True
    if f in stack:
        return True
    cs = P.callers().get(f, [])
    if not cs:
        memo[f] = False
        return False
    r = all(ctor_only(P, g, memo, stack + (f,)) for g, _ in cs)
    memo[f] = r
    return r


def access_kind(f, nid):
    """classify the use of the object-designating expression whose innermost
    ref is nid: 'atomic' | 'mutex' | 'admin' | 'write' | 'read' | ('pass', call nid, arg index)"""
    par = f.parents()
    x = nid
    top = nid
    t0 = f.nodes[nid].get("t") or ""
    addr = "[" in t0            # arrays decay to their address
    while True:
        p = par.get(x)
        if p is None:
            return "read", top
        n = f.nodes[p]
        k = n["k"]
        if k == "atomic":
            return "atomic", p
        if k == "un" and n["op"] == "&":
            addr = True
        elif k == "un" and n["op"] == "*":
            addr = False
        elif k in ("member", "index"):
            addr = "[" in (n.get("t") or "")
        if k in ("member", "index", "paren", "cast", "opaque"):
            if k == "index" and f.strip(n["idx"]) == f.strip(x) and f.strip(n["base"]) != f.strip(x):
                return "read", top
            x = p
            top = p
            continue
        if k == "un" and n["op"] in ("&", "*"):
            x = p
            top = p
            continue
        if k == "un" and n["op"] in ("++", "--", "post++", "post--"):
            return "write", p
        if k == "bin" and n["op"] in ("=", "+=", "-=", "|=", "&=", "^=", "*=", "/=", "<<=", ">>=") and f.strip(n["l"]) == f.strip(x):
            return "write", p
        if k == "call":
            cal = n.get("callee") or ""
            if f.strip(n["fn"]) == f.strip(x):
                return "read", top
            ai = [i for i, a in enumerate(n["args"]) if f.strip(a) == f.strip(x)]
            if cal in L.LOCK_FNS:
                return "mutex", p
            if cal in L.MUTEX_ADMIN:
                return "admin", p
            if cal.startswith("__atomic") or cal.startswith("__sync"):
                return "atomic", p
            if not addr:
                return "read", top          # the object's value is passed, not its address
            return ("pass", p, ai[0] if ai else -1), p
        return "read", top


def param_use(P, d, i, depth=0):
    """how a callee uses *param i: 'atomic' (only as operand of __atomic builtins),
    'read', 'write' (or unknown)"""
    if depth > 4 or i >= len(d.params):
        return "write"
    pname = d.params[i]["name"]
    kinds = set()
    for nid, n in d.nodes.items():
        if n["k"] == "ref" and n["dk"] == "param" and n["name"] == pname:
            k, at = access_kind(d, nid)
            if k == "read" and at == nid:
                continue            # the pointer value itself
            if isinstance(k, tuple):
                _, call, ai = k
                defs, exts = P.callees(d, call)
                if exts or not defs:
                    kinds.add("write")
                for dd in defs:
                    kinds.add(param_use(P, dd, ai, depth + 1))
            else:
                kinds.add(k)
    if not kinds:
        return "read"
    if kinds <= {"atomic"}:
        return "atomic"
    if kinds <= {"read", "atomic"}:
        return "read"
    return "write"


def collect_objects(P):
    objs = {}
    for g in P.globals:
        if g.get("const") or g.get("tls") or g.get("sysspelled"):
            continue
        if g.get("function"):
            oid = (g["file"], g["function"] + "::" + g["name"])
        else:
            oid = (g["file"], g["name"])
        objs[oid] = g
    if len(objs) < 12:
        raise Broken("C15.R1: only %d mutable globals found" % len(objs))
    return objs


def classify(P, LS, r1, objs, memo):
    bind = LS.binding()
    # collect accesses
    acc = {o: [] for o in objs}       # oid -> list of (fn, node, kind, lockset)
    for f in P.functions:
        b = bind.get(f.key, {})
        bound_params = {f.params[i]["name"]: p for i, p in b.items() if i < len(f.params)}
        for nid, n in f.nodes.items():
            if n["k"] != "ref":
                continue
            oid = None
            if n["dk"] in ("global", "static_local"):
                oid = LS.gobj(f, n)
            elif n["dk"] == "param" and n["name"] in bound_params:
                oid = bound_params[n["name"]][0]
            if oid is None or oid not in objs:
                continue
            kind, at = access_kind(f, nid)
            if n["dk"] == "param":
                # the parameter itself is a pointer: reading it is no access; member/deref through it is
                pn = f.nodes.get(f.parents().get(nid, -1), {})
                if kind == "read" and at == nid:
                    continue
            acc[oid].append((f, at, kind, LS.held_before(f, nid)))
    nacc = 0
    for oid, g in sorted(objs.items()):
        lst = acc[oid]
        name = "%s (%s)" % (oid[1], oid[0])
        r1.instance(name)
        nacc += len(lst)
        t = g.get("t") or ""
        kinds = [k if isinstance(k, str) else "pass" for (_, _, k, _) in lst]
        writes = [(f, at, k, h) for (f, at, k, h) in lst if k == "write" or k == "admin" or (not isinstance(k, str))]
        # mutexes
        if "pthread_mutex_t" in t:
            bad = [(f, at) for (f, at, k, h) in lst if k not in ("mutex", "admin")]
            if bad:
                r1.violation("%s:mutex-misuse" % oid[1], "mutex %s is used other than through the lock primitives in %s" % (oid[1], bad[0][0].name), loc=bad[0][0].loc(bad[0][1]))
            else:
                r1.ok("%s: mutex, %d lock/unlock sites" % (name, len(lst)), "class mutex")
            continue
        # `pass` of the object's address to a callee: const parameter => read; bound parameter => followed; else treated as write
        real_writes = []
        atomic_pass = set()
        handled = set()
        for (f, at, k, h) in lst:
            if k in ("write",):
                real_writes.append((f, at, k, h))
            elif k == "admin":
                real_writes.append((f, at, k, h))
            elif not isinstance(k, str):
                _, call, ai = k
                defs, exts = P.callees(f, call)
                followed = all(ai in bind.get(d.key, {}) for d in defs) and defs
                if followed:
                    handled.add((f, at))        # the callee's accesses through the bound parameter are listed themselves
                    continue
                if defs and not exts:
                    uses = {param_use(P, d, ai) for d in defs}
                    if uses <= {"atomic"}:
                        atomic_pass.add((f, at))
                        continue
                    if uses <= {"read", "atomic"}:
                        continue
                constp = all(ai < len(d.params) and "const" in (d.params[ai].get("t") or "").split("*")[0] for d in defs) and not exts
                if exts and all(x in ("memcmp", "strcmp", "strlen", "__log_event", "log_is_enabled", "snprintf") for x in exts) and not defs:
                    constp = True
                if constp:
                    continue
                real_writes.append((f, at, "write-through-pointer", h))
        if not lst:
            r1.ok("%s: never accessed" % name, "no access site")
            continue
        if all(k == "atomic" or (not isinstance(k, str) and (f, at) in atomic_pass) for (f, at, k, h) in lst):
            r1.ok("%s: %d accesses, all operands of __atomic builtins" % (name, len(lst)), "class atomic")
            continue
        if any(k == "atomic" or (f, at) in atomic_pass for (f, at, k, h) in lst):
            plain = [(f, at, k, h) for (f, at, k, h) in lst if not (k == "atomic" or (f, at) in atomic_pass or (f, at) in handled)]
            f, at, k, h = plain[0]
            r1.violation("%s:%s:plain-access-to-atomic" % (oid[1], f.name),
                         "%s is accessed with __atomic builtins elsewhere but plainly in %s: the plain access races with the atomic stores" % (oid[1], f.name),
                         loc=f.loc(at))
            continue
        if not real_writes:
            r1.ok("%s: never written after its static initialiser (%d read sites)" % (name, len(lst)), "class never-written")
            continue
        if all(ctor_only(P, f, memo) for (f, at, k, h) in real_writes):
            r1.ok("%s: written only from constructor-reachable functions (%s); %d read sites" % (name, sorted({f.name for f, _, _, _ in real_writes}), len(lst) - len(real_writes)),
                  "class init-only")
            continue
        # locked: one lock common to every access outside constructors
        shared = [(f, at, k, h) for (f, at, k, h) in lst if not ctor_only(P, f, memo) and k not in ("mutex", "admin") and (f, at) not in handled]
        common = None
        for (f, at, k, h) in shared:
            common = set(h) if common is None else (common & set(h))
        if common:
            r1.ok("%s: all %d shared accesses hold %s" % (name, len(shared), sorted("/".join(map(str, x[1:] if isinstance(x[0], tuple) else x)) if isinstance(x, tuple) else str(x) for x in common)[0]), "class locked (must-lockset)")
            continue
        # report the offending access: one whose lockset lacks the lock most others hold
        from collections import Counter
        cnt = Counter(l for (_, _, _, h) in shared for l in h)
        best = cnt.most_common(1)[0][0] if cnt else None
        off = [(f, at, k, h) for (f, at, k, h) in shared if best not in h] if best else shared
        f, at, k, h = off[0]
        r1.violation("%s:%s:unprotected" % (oid[1], f.name),
                     "global %s is %s in %s without %s (it is neither init-only, atomic-only nor consistently locked): a data race between threads using different sockets"
                     % (oid[1], "written" if (f, at, k, h) in real_writes or k == "write" else "read", f.name,
                        ("lock " + "/".join(map(str, best[1:] if isinstance(best[0], tuple) else best))) if best else "any lock"), loc=f.loc(at))
    r1.note("access sites classified: %d" % nacc)
    if nacc < 40:
        raise Broken("C15.R1: only %d access sites classified" % nacc)



def run(ctx):
    P = Program(("libxcm", "libxcmctl"))
    ctx.analysed = {"units": len(P.units), "functions": len(P.functions)}
    ctx.explanation = ("Classification of every mutable static-storage object of the library from the complete set of its access sites "
                       "(constructor-only writers, atomic-only accesses, or a common lock in the must-lockset at every access; pointer "
                       "parameters bound to a global are followed), lock/unlock pairing on all paths with lock-wrapper summaries, and a "
                       "check for dereferences of locked storage after the unlock.")
    ctx.trust("OpenSSL >= 1.1, c-ares (one channel per query) and glibc are thread-safe for distinct objects; getenv vs. the application's setenv")
    ctx.trust("constructors run before any other thread uses the library")
    LS = L.LockSets(P, exported=P.api_symbols())
    LS.entry()
    memo = {}

    r1 = ctx.rule("C15.R1", "every mutable global is init-only, atomic-only, lock-protected, never written or a mutex")
    objs = collect_objects(P)
    classify(P, LS, r1, objs, memo)
    # positive control: without the lock in the socket-id allocator the counter must be reported
    victim = [f for f in P.functions if any((LS.lock_event(f, c) or ("", ()))[0] == "lock" for c in f.calls()) and
              any(n["k"] == "un" and n["op"] in ("++", "post++") and f.sn(n["sub"]).get("dk") == "global" for n in f.nodes.values())]
    if not victim:
        # any function that takes a lock and touches a shared object will do
        victim = [f for f in P.functions if any((LS.lock_event(f, c) or ("", ()))[0] == "lock" for c in f.calls()) and
                  any(n["k"] == "ref" and n["dk"] in ("global", "static_local") and LS.gobj(f, n) in objs and "pthread_mutex_t" not in (n.get("t") or "")
                      for n in f.nodes.values())]
    if not victim:
        ctx.broken.append("C15.R1 self-check: no function that accesses a shared object under a lock found")
        victim = None
    LS2 = L.LockSets(P, exported=P.api_symbols(), ignore_in={victim[0].name}) if victim else None

    class Probe:
        def __init__(self):
            self.v = []
            self.instances = []

        def instance(self, x):
            pass

        def ok(self, *a, **k):
            pass

        def note(self, *a):
            pass

        def violation(self, key, msg, loc=None, **kw):
            self.v.append(key)
    pr = Probe()
    if victim:
        LS2.entry()
        classify(P, LS2, pr, objs, {})
        if not pr.v:
            raise Broken("C15.R1 self-check: removing the lock in %s is not reported" % victim[0].name)
        r1.ok("self-check: with the lock calls of %s hidden the rule reports %s" % (victim[0].name, pr.v[0]), "positive control")

    # ------------------------------------------------------------------ R2
    r2 = ctx.rule("C15.R2", "every lock is released on every non-aborting exit; no blocking call inside a critical section")
    nlock = 0
    for f in P.functions:
        evs = [LS.lock_event(f, c) for c in f.calls() if LS.lock_event(f, c)]
        calls_wrappers = False
        for c in f.calls():
            defs, _ = P.callees(f, c)
            for d in defs:
                s = LS.summary(d)
                if s and s[0]:
                    calls_wrappers = True
        if f.name in L.LOCK_FNS or f.name in L.MUTEX_ADMIN:
            continue            # the primitives' own bodies (pthread wrappers) are the trusted base
        if not evs and not calls_wrappers:
            continue
        nlock += 1
        r2.instance(f.qname)
        ent = LS.entry().get(f.key, frozenset())
        exits = LS.exit_locksets(f)
        s = LS.summary(f)
        leaked = [h - ent for h in exits if h - ent]
        if not leaked:
            r2.ok("%s: every exit releases what the function acquired" % f.qname, "must-lockset at exits")
        elif s and s[0] and all(h - ent == s[0] for h in exits):
            # a wrapper: acquires on every path; its callers are checked with the summary applied
            r2.ok("%s: lock wrapper (acquires %d lock on every path); pairing checked in its callers" % (f.qname, len(s[0])), "wrapper summary")
        else:
            # must-analysis: a lock held on some exits only shows as held at those exits
            r2.violation("%s:unreleased" % f.name, "%s returns with a lock still held on some path (held at exits: %s)"
                         % (f.name, sorted({str(sorted(map(str, h - ent))) for h in exits})), loc=f.file)
        # may-analysis for "some exit still holds": explore paths with the held set
        class Pair(C.Rule):
            def initial(self, fn):
                return frozenset()

            def elem(self, fn, st, nid, blk, idx):
                n = fn.nodes[nid]
                if n["k"] != "call":
                    return None
                ev = LS.lock_event(fn, nid)
                if ev:
                    return st | {ev[1]} if ev[0] == "lock" else st - {ev[1]}
                defs, exts = P.callees(fn, nid)
                h = st
                for d in defs:
                    sm = LS.summary(d)
                    if sm:
                        h = (h - sm[1]) | sm[0]
                if st:
                    for x in exts:
                        if x in ALWAYS_BLOCK or (x in TIMEOUT_ARG and C.const_of(fn, n["args"][TIMEOUT_ARG[x]]) != 0):
                            r2.violation("%s:%s-in-critical-section" % (fn.name, x), "%s() may wait for an external event while %s is held" % (x, sorted(map(str, st))), loc=fn.loc(nid))
                return h if h != st else None

            def at_exit(self, fn, st, blk):
                sm = LS.summary(fn)
                if st and not (sm and sm[0] and st == sm[0]):
                    r2.violation("%s:unreleased-path" % fn.name, "a path through %s reaches an exit with %s still held" % (fn.name, sorted(map(str, st))), loc=fn.file)
        try:
            C.explore(f, Pair(), max_states=50000)
        except RuntimeError:
            r2.note("%s: path exploration exceeded its budget; the dataflow verdict stands" % f.qname)
    r2.floor(6, "functions that take or release a lock")

    # ------------------------------------------------------------------ R3
    r3 = ctx.rule("C15.R3", "pointers into locked storage are not dereferenced after the unlock (reference-counted records excepted)")
    refcounted = {name for name, r in P.records.items() if any(fl["name"].endswith("_cnt") or fl["name"] in ("refcnt", "cnt") for fl in r["fields"])}

    def touches_shared(d, depth=0):
        for m in d.nodes.values():
            if m["k"] == "ref" and m["dk"] in ("global", "static_local") and LS.gobj(d, m) in objs:
                return True
        return False
    n3 = 0
    for f in P.functions:
        unlocks = [c for c in f.calls() if (LS.lock_event(f, c) or ("", ""))[0] == "unlock" or any((LS.summary(d) or (0, 0))[1] for d in P.callees(f, c)[0])]
        if not unlocks:
            continue
        ent = LS.entry().get(f.key, frozenset())
        # locals of pointer type assigned while a lock is held from a call that receives a bound object, or from locked storage
        tracked = {}
        for nid, n in f.nodes.items():
            init = None
            did = None
            if n["k"] == "decl":
                for v in n["vars"]:
                    if v.get("init") is not None and "*" in (v.get("t") or ""):
                        init, did, vt = v["init"], v["did"], v.get("t")
            elif n["k"] == "bin" and n["op"] == "=" and f.sn(n["l"])["k"] == "ref" and f.sn(n["l"])["dk"] == "local" and "*" in (f.sn(n["l"]).get("t") or ""):
                init, did, vt = n["r"], f.sn(n["l"])["did"], f.sn(n["l"]).get("t")
            if init is None:
                continue
            held = LS.held_before(f, nid)
            if not held:
                continue
            src = f.sn(init)
            from_locked = False
            if src["k"] == "call":
                for a in src["args"]:
                    p = LS.opath(f, a)
                    if p and p[0] in objs:
                        from_locked = True
                for d in P.callees(f, src["id"])[0]:
                    if "*" in (d.ret or "") and touches_shared(d):
                        from_locked = True
            elif LS.opath(f, init) and LS.opath(f, init)[0] in objs:
                from_locked = True
            if from_locked:
                tracked[did] = (vt, held)
        if not tracked:
            continue
        n3 += 1
        r3.instance(f.qname)
        bad = False
        for nid, n in f.nodes.items():
            if n["k"] == "member" and n.get("arrow"):
                b = f.sn(n["base"])
                if b["k"] == "ref" and b.get("did") in tracked:
                    vt, held0 = tracked[b["did"]]
                    held = LS.held_before(f, nid)
                    if not (held & held0):
                        rec = (vt or "").replace("struct ", "").replace("*", "").replace("const", "").strip()
                        if rec in refcounted:
                            r3.ok("%s: %s dereferenced after unlock, but struct %s is reference-counted (the caller holds a count)" % (f.qname, b["name"], rec), "exception: reference-counted record")
                        else:
                            bad = True
                            r3.violation("%s:%s:deref-after-unlock" % (f.name, b["name"]), "%s points into storage protected by %s and is dereferenced after the unlock"
                                         % (b["name"], sorted(map(str, held0))), loc=f.loc(nid))
        if not bad:
            r3.ok("%s: no unprotected dereference of locked storage" % f.qname, "lockset at dereference")
    if n3 < 1:
        raise Broken("C15.R3: no function holding pointers into locked storage found")


    # ------------------------------------------------------------------ R4
    r4 = ctx.rule("C15.R4", "atomic objects are updated by single atomic operations; thread-local objects are scratch buffers only")
    n4 = 0
    for f in P.functions:
        loads = {}      # object -> set of local names holding a loaded value
        stores_ = []
        for nid, n in f.nodes.items():
            if n["k"] != "atomic" and not (n["k"] == "call" and (n.get("callee") or "").startswith("__atomic")):
                continue
            args = n["args"]
            if not args:
                continue
            tgt = LS.opath(f, args[0])
            if not tgt or tgt[0] not in objs:
                continue
            n4 += 1
            par = f.parents().get(nid)
            while par is not None and f.nodes[par]["k"] in ("cast", "paren"):
                par = f.parents().get(par)
            pn = f.nodes.get(par, {})
            nm = (n.get("name") or n.get("callee") or n.get("op") or "")
            holder = None
            if pn.get("k") == "decl":
                holder = [v["name"] for v in pn["vars"] if v.get("init") is not None and nid in set(f.walk(v["init"]))]
                holder = holder[0] if holder else None
            elif pn.get("k") == "bin" and pn["op"] == "=" and f.sn(pn["l"])["k"] == "ref":
                holder = f.sn(pn["l"])["name"]
            if holder and len(args) <= 2:
                loads.setdefault(tgt[0], set()).add(holder)
            elif len(args) >= 3 or "store" in nm:
                stores_.append((tgt[0], nid, args))
        for obj, nid, args in stores_:
            r4.instance("%s: atomic store to %s" % (f.qname, obj[1]))
            dep = False
            for a in args[2:]:      # clang orders AtomicExpr operands (ptr, order, value...)
                for x in f.walk(a):
                    m = f.nodes[x]
                    if m["k"] == "ref" and m["name"] in loads.get(obj, ()):
                        # ... unless the variable was given a freshly computed value in between (idempotent cache fill)
                        redefined = any(q["k"] == "bin" and q["op"] == "=" and f.sn(q["l"])["k"] == "ref" and f.sn(q["l"])["name"] == m["name"]
                                        and f.sn(q["r"])["k"] != "atomic" for q in f.nodes.values())
                        if not redefined:
                            dep = True
            if dep:
                r4.violation("%s:%s:split-rmw" % (f.name, obj[1]), "%s loads %s atomically and stores a value computed from it with a separate atomic store: "
                             "two threads can read the same value (lost update / duplicate value)" % (f.name, obj[1]), loc=f.loc(nid))
            else:
                r4.ok("%s: the value stored to %s does not depend on a separately loaded one" % (f.qname, obj[1]), "data dependence")
    for g in P.globals:
        if not g.get("tls") or g.get("sysspelled") or g.get("const"):
            continue
        t = g.get("t") or ""
        r4.instance("thread-local %s (%s)" % (g["name"], g["file"]))
        if t.startswith("char[") or t.startswith("char ["):
            r4.ok("thread-local %s is a character scratch buffer" % g["name"], "type")
        else:
            r4.violation("tls:%s" % g["name"], "thread-local object %s of type %s holds state per thread: a socket created in one thread and used or closed in "
                         "another (a documented use) would not find it" % (g["name"], t), loc="%s:%s" % (g["file"], g.get("line")))
    if n4 < 2:
        raise Broken("C15.R4: only %d atomic accesses to shared objects found" % n4)
