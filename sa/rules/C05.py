"""C05 - non-blocking sockets never put the calling thread to sleep.

R1: no blocking primitive is reachable in the resolved call graph from any
    non-blocking API entry, with every test of xcm_socket.is_blocking taken as
    false (E6).
R2: every kernel object libxcm creates is created non-blocking, nothing
    switches a descriptor back to blocking mode, and the BIO below OpenSSL is
    the library's own (so OpenSSL never touches a descriptor itself).
"""
from .. import callgraph as CG
from .. import cfg as C
from ..model import Program

# blocking table (trusted model): function -> index of the timeout argument
# (None: always blocking)
TIMEOUT_ARG = {"poll": 2, "ppoll": 2, "epoll_wait": 3, "epoll_pwait": 4, "select": 4, "pselect": 4}
ALWAYS_BLOCK = {"sleep", "usleep", "nanosleep", "clock_nanosleep", "pause", "sigsuspend", "sigwait",
                "sigwaitinfo", "sigtimedwait", "wait", "waitpid", "waitid", "wait4",
                "pthread_cond_wait", "pthread_cond_timedwait", "sem_wait", "sem_timedwait",
                "pthread_join", "getaddrinfo", "gethostbyname", "gethostbyname2", "gethostbyaddr",
                "gethostbyname_r", "getnameinfo", "system", "popen", "flock", "lockf",
                "ares_gethostbyname_file", "SSL_set_fd", "BIO_new_socket", "BIO_s_socket",
                "BIO_new_connect", "BIO_do_connect", "mq_receive", "mq_send", "msgrcv", "msgsnd",
                "pthread_barrier_wait", "sigpause", "readv_blocking"}

API_EXCLUDED = {"xcm_server", "xcm_server_a"}     # not in the property's list (may resolve synchronously)

NONBLOCK_FLAG = {"socket": (1, 0o4000, "SOCK_NONBLOCK"), "accept4": (3, 0o4000, "SOCK_NONBLOCK"),
                 "ut_accept": (3, 0o4000, "SOCK_NONBLOCK"), "eventfd": (1, 0o4000, "EFD_NONBLOCK"),
                 "timerfd_create": (1, 0o4000, "TFD_NONBLOCK"), "socketpair": (1, 0o4000, "SOCK_NONBLOCK"),
                 "pipe2": (1, 0o4000, "O_NONBLOCK"), "signalfd": (2, 0o4000, "SFD_NONBLOCK"),
                 "inotify_init1": (0, 0o4000, "IN_NONBLOCK")}
BLOCKING_CREATORS = {"pipe", "accept", "open", "openat", "creat", "inotify_init", "mq_open"}


def api_roots(P):
    roots = []
    for f in P.functions:
        if f.static or not f.file.startswith("libxcm/core/"):
            continue
        if not f.name.startswith("xcm_"):
            continue
        if f.file.endswith(("xcm.c", "xcm_compat.c")) and f.name not in API_EXCLUDED:
            roots.append(f)
    return roots


def flag_has(fn, nid, bit):
    """does the constant-folded argument contain `bit`; None if not constant"""
    n = fn.nodes[nid]
    v = n.get("cv")
    if v is None:
        v = fn.sn(nid).get("cv")
    if v is None:
        return None
    return bool(v & bit)


def run(ctx):
    P = Program(("libxcm",))
    ctx.analysed = {"units": len(P.units), "functions": len(P.functions)}
    ctx.explanation = ("Call-graph reachability (direct calls by declaration, indirect calls by field-based function-pointer "
                       "propagation, library callbacks by a model table) from every non-blocking API entry to a table of "
                       "blocking primitives, with branches on xcm_socket.is_blocking folded to false; plus flag checks on "
                       "every descriptor-creating call.")
    ctx.trust("a libc/OpenSSL/c-ares function not in the blocking table does not wait for an external event")
    ctx.trust("clang 14 AST/CFG")
    callbacks = CG.library_callbacks(P)
    guard = CG.FieldFalse("xcm_socket", "is_blocking", False)

    # ---------------- R1 -------------------------------------------------
    r1 = ctx.rule("C05.R1", "no blocking primitive reachable from a non-blocking API entry (is_blocking folded to false)")
    roots = api_roots(P)
    # ops-table slots and attribute callbacks are reachable through indirect
    # calls already; add them as roots too so that a slot that lost its caller
    # is still covered
    fp = P.fp()
    slot_roots = []
    ops = P.record("xcm_tp_ops")
    for fld in ops["fields"]:
        if fld["name"] == "server":
            continue
        slot_roots += sorted(fp.field("xcm_tp_ops", fld["name"]), key=lambda f: f.qname)
    attr_roots = sorted(fp.field("attr_node_value", "get") | fp.field("attr_node_value", "set"), key=lambda f: f.qname)
    for f in roots:
        r1.instance("api:" + f.name)
    for f in slot_roots:
        r1.instance("slot:" + f.qname)
    for f in attr_roots:
        r1.instance("attr:" + f.qname)
    r1.floor(30 + 80 + 70, "roots")

    def skip(f, e, d):
        # documented hand-over to blocking mode: xcm_set_blocking(s, true) on a
        # non-blocking socket finishes outstanding work first (xcm.h)
        return f.name == "xcm_set_blocking" and d.name == "socket_finish"

    parent, edges_of = CG.reach(P, roots + slot_roots + attr_roots, guard=guard, skip_edge=skip, callbacks=callbacks)
    nsinks = 0
    for f, es in edges_of.items():
        for e, defs, exts in es:
            n = f.nodes[e]
            for x in exts:
                bad = None
                if x in ALWAYS_BLOCK:
                    bad = "%s() waits for an external event" % x
                elif x in TIMEOUT_ARG:
                    ai = TIMEOUT_ARG[x]
                    tv = C.const_of(f, n["args"][ai]) if ai < len(n["args"]) else None
                    if tv != 0:
                        bad = "%s() with timeout %s" % (x, f.show(n["args"][ai]) if ai < len(n["args"]) else "?")
                    else:
                        r1.ok("%s: %s has timeout 0" % (f.qname, x), "literal 0 timeout")
                if bad:
                    nsinks += 1
                    chain = [g.name for g in CG.path_to(parent, f)]
                    # key: sink function + primitive + the edge that enters the sink function
                    via = chain[-2] if len(chain) > 1 else "root"
                    r1.violation("%s:%s|via %s" % (f.name, x, via), bad + "; reachable: " + " -> ".join(chain),
                                 loc=f.loc(e), chain=chain)
    r1.ok("%d functions reachable from %d roots, %d blocking sinks" % (len(parent), len(roots) + len(slot_roots) + len(attr_roots), nsinks),
          "reachability")
    r1.note("reachable functions: %d" % len(parent))
    # positive control: the blocking-mode wait must be found when the guard is off
    parent2, edges2 = CG.reach(P, roots, guard=None, callbacks=callbacks)
    sw = P.fn("socket_wait")
    found = any(x == "poll" and C.const_of(f, f.nodes[e]["args"][2]) != 0
                for f, es in edges2.items() for e, d, xs in es for x in xs if f is sw)
    if not found:
        from ..report import Broken
        raise Broken("C05.R1 self-check: the blocking poll() of socket_wait is not found with the guard off")
    r1.ok("self-check: socket_wait's poll(-1) is found when is_blocking is not folded", "positive control")

    # ---------------- R2 -------------------------------------------------
    r2 = ctx.rule("C05.R2", "every descriptor is created non-blocking; none is switched to blocking; OpenSSL uses the library's BIO")
    for f in P.functions:
        for c in f.calls():
            n = f.nodes[c]
            defs, exts = P.callees(f, c)
            names = [d.name for d in defs] + list(exts)
            for x in names:
                if x in NONBLOCK_FLAG:
                    ai, bit, nm = NONBLOCK_FLAG[x]
                    if f.name == "ut_accept" and x == "accept4":
                        # wrapper: flags come from the caller, checked at ut_accept's call sites
                        a = f.sn(n["args"][ai])
                        if a["k"] == "ref" and a["dk"] == "param":
                            r2.instance("%s:%s(wrapper)" % (f.qname, x))
                            r2.ok("%s passes its flags parameter to accept4" % f.qname, "wrapper")
                            continue
                    r2.instance("%s:%s" % (f.qname, x))
                    h = flag_has(f, n["args"][ai], bit) if ai < len(n["args"]) else None
                    if h:
                        r2.ok("%s: %s has %s" % (f.qname, f.show(c)[:70], nm), "constant flag")
                    else:
                        r2.violation("%s:%s" % (f.name, x), "%s without %s: %s" % (x, nm, f.show(c)[:100]), loc=f.loc(c))
                elif x in BLOCKING_CREATORS and x != "open":
                    r2.violation("%s:%s" % (f.name, x), "%s creates a blocking descriptor" % x, loc=f.loc(c))
                elif x == "ut_set_blocking":
                    v = C.const_of(f, n["args"][1]) if len(n["args"]) > 1 else None
                    r2.instance("%s:ut_set_blocking" % f.qname)
                    if v != 0:
                        r2.violation("%s:ut_set_blocking" % f.name, "descriptor switched to blocking mode", loc=f.loc(c))
                    else:
                        r2.ok("%s: ut_set_blocking(false)" % f.qname)
                elif x == "fcntl" and f.name not in ("ut_set_blocking", "ut_is_blocking"):
                    cmd = C.const_of(f, n["args"][1]) if len(n["args"]) > 1 else None
                    if cmd == 4:   # F_SETFL
                        r2.violation("%s:fcntl" % f.name, "fcntl(F_SETFL) outside ut_set_blocking", loc=f.loc(c))
                elif x == "setsockopt" and len(n["args"]) > 3:
                    lvl, opt = C.const_of(f, n["args"][1]), C.const_of(f, n["args"][2])
                    if lvl == 1 and opt == 13:      # SOL_SOCKET, SO_LINGER
                        r2.instance("%s:SO_LINGER" % f.qname)
                        r2.violation("%s:SO_LINGER" % f.name, "SO_LINGER makes close() wait for unacknowledged data even on a non-blocking "
                                     "descriptor: xcm_close() on a non-blocking socket would sleep", loc=f.loc(c))
                    if lvl == 1 and opt in (20, 21):    # SO_RCVTIMEO / SO_SNDTIMEO are harmless on O_NONBLOCK descriptors
                        pass
                elif x == "SSL_set_bio":
                    r2.instance("%s:SSL_set_bio" % f.qname)
                    ok = True
                    for a in n["args"][1:3]:
                        if not bio_is_own(P, f, a):
                            ok = False
                    if ok:
                        r2.ok("%s: SSL_set_bio gets a BIO made from the library's method" % f.qname, "value origin")
                    else:
                        r2.violation("%s:SSL_set_bio" % f.name, "BIO not created from the library's own BIO method", loc=f.loc(c))
    r2.floor(9 + 2, "descriptor-creating call sites")
    _extra_rules(ctx, P)
    # the BIO callbacks only talk to the sub-socket
    for f in sorted(callbacks.get("openssl", ()), key=lambda f: f.name):
        if f.name in ("bio_btcp_read", "bio_btcp_write"):
            r2.instance("bio:" + f.name)
            bad = []
            for c in f.calls():
                defs, exts = P.callees(f, c)
                for x in exts:
                    if x in ("read", "write", "recv", "send", "recvmsg", "sendmsg", "readv", "writev"):
                        bad.append(x)
            if bad:
                r2.violation("%s:raw-io" % f.name, "BIO callback does raw I/O %s instead of going through the sub-socket" % bad, loc=f.file)
            else:
                r2.ok("%s does I/O only through xcm_tp_socket_*" % f.name)
    return


def bio_is_own(P, f, nid):
    """the argument is a local assigned from BIO_new(<static BIO_METHOD global
    filled by BIO_meth_new in this unit>)"""
    n = f.sn(nid)
    if n["k"] != "ref":
        return False
    did = n["did"]
    for nid2, m in f.nodes.items():
        init = None
        if m["k"] == "decl":
            for v in m["vars"]:
                if v["did"] == did and v.get("init") is not None:
                    init = v["init"]
        elif m["k"] == "bin" and m["op"] == "=" and f.sn(m["l"]).get("did") == did:
            init = m["r"]
        if init is None:
            continue
        c = f.sn(init)
        if c["k"] == "call" and c.get("callee") == "BIO_new":
            a = f.sn(c["args"][0])
            if a["k"] == "ref" and a["dk"] in ("global", "static_local"):
                return True
        return False
    return False


def _extra_rules(ctx, P):
    # the mode asked for in an attribute map (xcm.blocking=false, what XCM_NONBLOCK becomes) must reach the socket before
    # the connect: the map walk may stop only by failing the call (C11.R10's engine)
    from . import C11 as c11
    r3 = ctx.rule("C05.R3", "xcm.blocking=false from the attribute map is applied before the connect: no setter can stop the map walk without failing the call")
    c11.check_setter_status(P, r3)

    # a switch to blocking mode that FAILS (the pending work could not be finished: EINTR, a connection error) must leave
    # the socket non-blocking: the application was told so and keeps using the non-blocking calls
    from .. import seq as S
    r4 = ctx.rule("C05.R4", "xcm_set_blocking changes the mode only when it succeeds: no failing exit has stored the blocking flag")
    sb = P.fn("xcm_set_blocking")
    r4.instance(sb.qname)
    bad4 = []
    nst = [0]

    class Mode(S.SeqRule):
        def user0(s2, fn):
            return False

        def inline(s2, fn, nid, callee):
            return False

        def on_store(s2, fn, st, nid, lhs, rhs, op):
            if fn.fields_of(lhs)[-1:] == ("is_blocking",):
                nst[0] += 1
                return True
            return None

        def on_exit(s2, fn, st, ret_nid, ret_cls, top):
            if top and ret_cls == S.NEG and st.user and not bad4:
                bad4.append(ret_nid)
    S.run(Mode(P), sb)
    if nst[0] < 1:
        from ..report import Broken
        raise Broken("C05.R4: xcm_set_blocking does not store the blocking flag")
    if bad4:
        r4.violation("xcm_set_blocking:mode-changed-on-failure", "xcm_set_blocking can fail after it has already stored the new mode: the caller is told the socket is still "
                     "non-blocking while the library treats it as blocking - the next xcm_receive()/xcm_send() sleeps in poll()", loc=sb.loc(bad4[0]) if bad4[0] else sb.file)
    else:
        r4.ok("every failing exit of xcm_set_blocking leaves the flag as it was", "path exploration")

    # a busy-wait is a wait: a loop that can go round without changing anything its condition reads spins until
    # something outside the process happens (the control client reads, the peer sends) - inside a non-blocking call
    r5 = ctx.rule("C05.R5", "every counted loop of the library changes something its condition reads on each way round (no busy-wait for an external event)")
    check_loop_progress(P, r5)


def check_loop_progress(P, rule):
    """loops whose condition compares integer variables / fields / constants (`i < ctl->num_clients`, `sent < len`): on
    every path from the condition round to the condition a store to one of those variables or fields happens - in the
    function itself or in a same-file helper it calls (explored inline).  A structural necessary condition of
    termination without waiting; loops over linked structures and loops that re-read memory through calls are not
    concerned (no alarm)."""
    from .. import seq as S
    from ..report import Broken
    CMP = ("<", "<=", ">", ">=", "!=")

    def side(f, x):
        n = f.nodes[f._strip0(x)]
        if "cv" in n:
            return ("const", None)
        if n["k"] == "ref" and n.get("dk") in ("local", "param") and "*" not in (n.get("t") or ""):
            return ("var", n.get("did"))
        if n["k"] == "member" and n.get("field") and "*" not in (n.get("t") or ""):
            return ("fld", n["field"])
        return None
    # a way round that sleeps in the kernel is a wait, not a busy-wait (whether it may wait at all is R1's question)
    def sleeps(g, c, exts):
        for x in exts:
            if x in ALWAYS_BLOCK:
                return True
            if x in TIMEOUT_ARG:
                ai = TIMEOUT_ARG[x]
                if ai >= len(g.nodes[c]["args"]) or C.const_of(g, g.nodes[c]["args"][ai]) != 0:
                    return True
        return False
    waiters = set()
    changed = True
    while changed:
        changed = False
        for g in P.functions:
            if g in waiters:
                continue
            for c in g.calls():
                ds, exts = P.callees(g, c)
                if sleeps(g, c, exts) or any(d in waiters for d in ds):
                    waiters.add(g)
                    changed = True
                    break
    nloops = 0
    for f in P.functions:
        if not f.file.startswith(("libxcm/", "common/")):
            continue
        for b in f.blocks.values():
            if not b.term or b.term.get("cond") is None or b.term["k"] not in ("ForStmt", "WhileStmt", "DoStmt"):
                continue
            n = f.nodes[f._strip0(b.term["cond"])]
            if not (n["k"] == "bin" and n["op"] in CMP):
                continue
            sides = [side(f, n["l"]), side(f, n["r"])]
            if None in sides or all(s_[0] == "const" for s_ in sides):
                continue
            vars_ = {s_[1] for s_ in sides if s_[0] == "var"}
            flds = {s_[1] for s_ in sides if s_[0] == "fld"}
            nloops += 1
            rule.instance("%s: %s (%s)" % (f.qname, f.show(b.term["cond"])[:50], b.term["k"]))
            H = b.id
            bad = []

            class Round(S.SeqRule):
                max_depth = 2

                def user0(s2, fn):
                    return (False, False)        # (inside an iteration, a condition operand was stored since the last test)

                def inline(s2, fn, nid, callee):
                    return callee.static and callee.file == f.file and callee is not f

                def on_store(s2, fn, st, nid, lhs, rhs, op):
                    ln = fn.nodes[fn._strip0(lhs)]
                    if (ln["k"] == "ref" and fn is f and ln.get("did") in vars_) or (ln["k"] == "member" and ln.get("field") in flds):
                        return (st.user[0], True)
                    return None

                def on_call(s2, fn, st, nid, callees, exts):
                    if sleeps(fn, nid, exts) or any(d in waiters for d in callees):
                        return (st.user[0], True)
                    return None

                def on_branch(s2, fn, st, blk, cond, label):
                    if fn is f and blk.id == H and label in ("T", "F"):
                        inside, stored = st.user
                        if inside and not stored and not bad:
                            bad.append(blk.term.get("cond"))
                        return (label == "T", False)
                    return None
            try:
                S.run(Round(P), f)
            except RuntimeError:
                rule.note("%s: not explored within the state budget" % f.qname)
                continue
            if bad:
                rule.violation("%s:loop-without-progress" % f.name, "the loop `%s` of %s can go round without a store to anything its condition reads: it repeats the same "
                               "step until something outside the process changes (a busy-wait inside a call that must not wait)"
                               % (f.show(b.term["cond"])[:50], f.name), loc=f.loc(b.term["cond"]))
            else:
                rule.ok("%s: every way round `%s` stores to an operand of the condition" % (f.qname, f.show(b.term["cond"])[:40]), "path exploration")
    if nloops < 20:
        raise Broken("C05.R5: only %d counted loops found" % nloops)
