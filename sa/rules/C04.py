"""C04 - event-loop liveness: wake-up obligations (necessary conditions).

Liveness over schedules is not a static property.  What is in the code shape
is the list of duties without which some schedule hangs; each is a path rule.

R1  update after every op: the xcm_tp.c wrappers call the socket's update
    after the transport op on every return path they must (send, receive,
    finish: always; connect, server, accept: on success; accept updates the
    server always); await() updates after storing the condition; top-level
    sockets are created with auto_update on.
R2  wrappers propagate: the update op of every transport that owns
    sub-sockets either rings its bell or assigns the sub-socket's condition
    and updates it, on every path (utls servers: both legs).
R3  pending output forces write interest in the framing transports.
R4  terminal states ring the bell; every connection state is handled; a
    resolving connection rings when the query completed.
R5  decrypted data counts as receivable: SSL_has_pending is consulted before
    the bell is cleared while RECEIVABLE is awaited in state ready.
R6  OpenSSL's wish is honoured: WANT_READ/WANT_WRITE store the matching
    ssl_wants, which the handshaking state hands to the sub-socket.
R7  a connect in progress is watched: descriptor registered for EPOLLOUT
    before connect(); timer armed on EINPROGRESS and for a delayed track.
R8  resolver progress is watched: the resolver's entry points end in
    update_xpoll, which arms a zero timer once the query is finished.
R9  the blocking forms wait on the socket's own descriptor after await().
R10 the btls ready-state decision table, folded exactly over its 48 inputs:
    decrypted bytes ring the bell when RECEIVABLE is awaited; an awaited
    direction OpenSSL was not asked about since is either signalled (bell)
    or watched on the sub-socket; a direction OpenSSL was asked about waits
    for what OpenSSL said it wants.
R11 the data ops advance the connection before they look at its state: in a
    transport whose connections pass through transitional states (resolving,
    connecting, handshaking), send, receive and finish each call the helper
    that consumes the pending event and moves the state machine before the
    first test of the state.  (The descriptor stays readable until somebody
    consumes the event: an op that answers EAGAIN from a stale state makes the
    application spin, or hang when it only ever calls that op.)
"""
from .. import cfg as C
from .. import seq as S
from .. import tp as TP
from .. import btlsfold as BF
from ..model import Program
from ..report import Broken
from .C06 import enum_name

XCM_SO_RECEIVABLE, XCM_SO_SENDABLE, XCM_SO_ACCEPTABLE = 1, 2, 4
EPOLLIN, EPOLLOUT = 1, 4
EINPROGRESS = 115


def has_call(f, blk, name):
    return any(f.nodes[x]["k"] == "call" and f.nodes[x].get("callee") == name for x in f.blocks[blk].elems)


def check_update_after_ops(P, r1, ops=None):
    """the framework wrappers bring the socket's interest set up to date after the transport op (C04.R1; the same
    obligation is a necessary condition of C01 - a buffered frame is flushed - and of C16 - EPOLLOUT is dropped)"""
    table = (("xcm_tp_socket_send", "always"), ("xcm_tp_socket_receive", "always"), ("xcm_tp_socket_finish", "always"),
             ("xcm_tp_socket_connect", "success"), ("xcm_tp_socket_server", "success"), ("xcm_tp_socket_accept", "success"))
    for name, when in table:
        if ops is not None and name not in ops:
            continue
        f = P.fn(name)
        r1.instance(name)
        bad = []
        nexit = [0]

        class Upd(S.SeqRule):
            def user0(s2, fn):
                return (False, False, False)      # op called, updated (first param), server updated

            def inline(s2, fn, nid, callee):
                return False

            def on_call(s2, fn, st, nid, callees, exts):
                n = fn.nodes[nid]
                op, up, sup = st.user
                if not n.get("callee"):
                    return (True, up, sup)       # XCM_TP_CALL: the transport op
                if n["callee"] in ("consider_auto_update", "xcm_tp_socket_update") and n["args"]:
                    a = fn.sn(n["args"][0])
                    if a.get("name") == fn.params[0]["name"]:
                        return (op, True, sup)
                    if len(fn.params) > 1 and a.get("name") == fn.params[1]["name"]:
                        return (op, up, True)
                return None

            def on_exit(s2, fn, st, ret_nid, ret_cls, top):
                if not top:
                    return
                nexit[0] += 1
                op, up, sup = st.user
                if not op:
                    return
                need = when == "always" or ret_cls == S.ZERO       # connect/server/accept answer 0 or -1 (xcm_tp.h)
                if need and not up:
                    bad.append("returns%s without updating the socket" % ("" if when == "always" else " success"))
                if name == "xcm_tp_socket_accept" and not sup:
                    bad.append("returns without updating the server socket")
        S.run(Upd(P), f)
        if nexit[0] < 1:
            raise Broken("C04.R1: no exit explored in %s" % name)
        if bad:
            r1.violation("%s:no-update" % name, "%s %s: the epoll registrations keep the interest of the state before the call (a wake-up can be lost)" % (name, bad[0]), loc=f.file)
        else:
            r1.ok("%s: update follows the transport op on every %s path" % (name, "return" if when == "always" else "successful"), "path exploration")


def run(ctx):
    P = Program(("libxcm",))
    ctx.analysed = {"units": len(P.units), "functions": len(P.functions)}
    ctx.explanation = ("Must-follow / must-pass path rules on the framework wrappers and on every transport's update op, switch-case typestate on the "
                       "connection state, constant-flag checks on the registrations of the connect tracker and the resolver.")
    ctx.trust("epoll reports a registered descriptor's readiness; OpenSSL reports WANT_READ/WANT_WRITE truthfully")
    tables = TP.ops_tables(P)

    # ------------------------------------------------------------------ R1
    r1 = ctx.rule("C04.R1", "the socket's interest set is brought up to date after every operation")
    check_update_after_ops(P, r1)
    cau = P.fn("consider_auto_update")
    r1.instance("consider_auto_update")
    okc = any(cau.fields_of(cond)[-1:] == ("auto_update",) and any(has_call(cau, bb, "xcm_tp_socket_update") for bb in C.only_via_edge(cau, b, "T")) for b, cond in C.cond_blocks(cau))
    sc = P.fn("socket_create")
    okt = any(C.const_of(sc, sc.nodes[c]["args"][4]) == 1 for c in sc.calls("xcm_tp_socket_create"))
    if okc and okt:
        r1.ok("auto_update sockets are updated; the API's own sockets are created with auto_update on", "control dependence + constant argument")
    else:
        r1.violation("auto_update", "consider_auto_update updates under the flag=%s; top-level sockets created with the flag=%s" % (okc, okt), loc=cau.file)
    aw = P.fn("await")
    r1.instance("await")
    ok_aw = False

    class Aw(C.Rule):
        def initial(s2, fn):
            return False

        def elem(s2, fn, st, nid, blk, idx):
            nonlocal ok_aw
            n = fn.nodes[nid]
            if n["k"] == "bin" and n["op"] == "=" and fn.fields_of(n["l"])[-1:] == ("condition",):
                return True
            if n["k"] == "call" and n.get("callee") == "xcm_tp_socket_update" and st:
                ok_aw = True
            return None
    C.explore(aw, Aw())
    if ok_aw:
        r1.ok("await stores the condition and then updates the socket", "path exploration")
    else:
        r1.violation("await:no-update", "await() does not update the socket after storing the awaited condition", loc=aw.file)

    # ------------------------------------------------------------------ R2 + R3
    r2 = ctx.rule("C04.R2", "the update op of a transport with sub-sockets rings its bell or updates every live sub-socket with a freshly assigned condition")
    r3 = ctx.rule("C04.R3", "a pending outbound frame forces write interest on the sub-socket")
    for t in tables:
        f = t.slots.get("update")
        if f is None or t.proto in ("btcp", "ux", "uxf"):
            continue
        if f.qname in [str(i) for i in r2.instances]:
            continue
        r2.instance(f.qname)
        bad2 = []
        nx = [0]

        class Prop(S.SeqRule):
            max_depth = 3

            def user0(s2, fn):
                return (False, 0, frozenset(), None)     # bell rung true, number of sub updates, conditions assigned (text), server?

            def inline(s2, fn, nid, callee):
                return callee.static and callee.file == f.file and callee is not f

            def on_branch(s2, fn, st, blk, cond, label):
                if isinstance(label, tuple) and label[0] == "case" and fn.fields_of(cond)[-1:] == ("type",):
                    return (st.user[0], st.user[1], st.user[2], label[2] == "xcm_socket_type_server")
                if label in ("T", "F"):
                    l, op, r = C.cond_atom(fn, cond, label == "T")
                    if not isinstance(r, tuple) and fn.fields_of(l)[-1:] == ("type",) and enum_name(fn, r) == "xcm_socket_type_conn":
                        return (st.user[0], st.user[1], st.user[2], op == "!=")
                return None

            def on_store(s2, fn, st, nid, lhs, rhs, op):
                if fn.fields_of(lhs)[-1:] == ("condition",) and fn.sn(lhs)["k"] == "member":
                    base = fn.show(fn.sn(lhs)["base"])
                    return (st.user[0], st.user[1], st.user[2] | {base}, st.user[3])
                return None

            def on_call(s2, fn, st, nid, callees, exts):
                n = fn.nodes[nid]
                bell, nu, conds, srv = st.user
                if n.get("callee") == "xpoll_bell_reg_mod" and S.truth(fn, st, n["args"][2]) == 1:
                    return (True, nu, conds, srv)
                if n.get("callee") == "xcm_tp_socket_update" and fn is not P.fn("xcm_tp_socket_update"):
                    tgt = fn.show(n["args"][0])
                    if tgt not in conds:
                        bad2.append("updates %s without having assigned its condition" % tgt)
                    return (bell, nu + 1, conds, srv)
                return None

            def on_exit(s2, fn, st, ret_nid, ret_cls, top):
                if not top:
                    return
                nx[0] += 1
                bell, nu, conds, srv = st.user
                need = 2 if (t.proto == "utls" and srv) else 1
                if not bell and nu < need:
                    bad2.append("a path updates %d sub-socket(s) (needs %d) and does not ring the bell" % (nu, need))
        S.run(Prop(P), f)
        if nx[0] < 1:
            raise Broken("C04.R2: no exit explored in %s" % f.name)
        if bad2:
            r2.violation("%s:propagation" % f.name, "%s: %s: the sub-socket keeps a stale interest set and a wake-up is lost" % (f.name, bad2[0]), loc=f.file)
        else:
            r2.ok("%s: every path rings the bell or updates its sub-socket(s) after assigning their condition" % f.qname, "path exploration with helpers inlined")
        # R3 for the framing transports
        if t.proto in ("tcp", "tls"):
            r3.instance(f.qname)
            bad3 = []
            seen3 = [0]

            class Pend(C.Rule):
                def initial(s2, fn):
                    return (None, False)      # pending known, SENDABLE or-ed into the value that will be stored

                def branch(s2, fn, st, blk, cond, label):
                    if label not in ("T", "F"):
                        return None
                    l, op, r = C.cond_atom(fn, cond, label == "T")
                    ln = fn.sn(l)
                    if ln["k"] == "call" and ln.get("callee") == "mbuf_is_empty" and TP.mentions_field(fn, ln["args"][0], "send_mbuf"):
                        return (op == "==", st[1])          # mbuf_is_empty(...) == 0  => pending
                    return None

                def elem(s2, fn, st, nid, blk, idx):
                    n = fn.nodes[nid]
                    if n["k"] == "bin" and n["op"] == "|=" and (C.const_of(fn, n["r"]) or 0) & XCM_SO_SENDABLE:
                        return (st[0], True)
                    if n["k"] == "bin" and n["op"] == "=" and fn.fields_of(n["l"])[-1:] == ("condition",) and fn.sn(n["l"])["k"] == "member" and "socket" in fn.show(fn.sn(n["l"])["base"]):
                        seen3[0] += 1
                        if st[0] and not st[1] and not ((C.const_of(fn, n["r"]) or 0) & XCM_SO_SENDABLE):
                            bad3.append(nid)
                    return None
            C.explore(f, Pend())
            if seen3[0] < 1:
                raise Broken("C04.R3: %s does not assign the sub-socket's condition" % f.name)
            if bad3:
                r3.violation("%s:pending-without-sendable" % f.name, "with a frame pending in the send buffer the sub-socket's condition is stored without SENDABLE: "
                             "the rest of the frame is only written when the application happens to call again", loc=f.loc(bad3[0]))
            else:
                r3.ok("%s: pending output adds SENDABLE to what the sub-socket waits for" % f.qname, "path exploration")
    # ... and only ADDS it: what the application awaits is handed down too (the value stored into the sub-socket's condition is
    # built from the socket's own condition, and every later change of that value is an `|=`)
    for t in tables:
        if t.proto not in ("tcp", "tls"):
            continue
        f = t.slots["update"]
        r3.instance("%s: awaited conditions kept" % f.qname)
        dropped = None
        nst = 0
        for b, i, e, lhs, rhs, op in f.stores():
            ln = f.nodes[f._strip0(lhs)]
            if not (ln["k"] == "member" and ln.get("field") == "condition" and op == "=" and rhs is not None):
                continue
            base = f.nodes[f._strip0(ln["base"])]
            if base["k"] == "ref" and base.get("dk") == "param":
                continue
            nst += 1
            rn = f.nodes[f._strip0(rhs)]
            if rn["k"] == "ref" and rn.get("dk") == "local":
                defs = []
                for m in f.nodes.values():
                    if m["k"] == "decl":
                        defs += [("=", v["init"]) for v in m["vars"] if v.get("did") == rn.get("did") and v.get("init") is not None]
                    elif m["k"] == "bin" and m["op"] in ("=", "|=", "&=") and f.nodes[f._strip0(m["l"])].get("did") == rn.get("did") and f.nodes[f._strip0(m["l"])]["k"] == "ref":
                        defs.append((m["op"], m["r"]))
                own = lambda x: any(f.nodes[y]["k"] == "member" and f.nodes[y].get("field") == "condition" for y in f.walk(x))
                selfref = lambda x: any(f.nodes[y]["k"] == "ref" and f.nodes[y].get("did") == rn.get("did") for y in f.walk(x))
                for dop, dx in defs:
                    if dop == "&=" or (dop == "=" and not own(dx) and not selfref(dx)):
                        dropped = (dx, dop)
            elif not any(f.nodes[y]["k"] == "member" and f.nodes[y].get("field") == "condition" for y in f.walk(rhs)):
                dropped = (rhs, "=")
        if nst < 1:
            raise Broken("C04.R3: %s stores no sub-socket condition" % f.name)
        if dropped:
            r3.violation("%s:awaited-dropped" % f.name, "%s replaces the condition handed to the sub-socket (`%s %s`) instead of adding to it: while a frame is pending the "
                         "application's RECEIVABLE interest is not handed down, so input on that connection is not noticed (two-way traffic deadlocks)"
                         % (f.name, dropped[1], f.show(dropped[0])[:40]), loc=f.loc(dropped[0]))
        else:
            r3.ok("%s: the sub-socket waits for everything the application awaits, plus SENDABLE while a frame is pending" % f.qname, "value origin of the stored condition")
    r2.floor(4, "update ops with sub-sockets")
    r3.floor(2, "framing update ops")

    # ------------------------------------------------------------------ R4 + R5 + R6
    r4 = ctx.rule("C04.R4", "terminal connection states ring the bell; every state is handled")
    r5 = ctx.rule("C04.R5", "data already decrypted by OpenSSL counts as receivable")
    r6 = ctx.rule("C04.R6", "OpenSSL's WANT_READ/WANT_WRITE is recorded and handed to the sub-socket while handshaking")
    for proto in ("btcp", "btls"):
        t = [x for x in tables if x.proto == proto][0]
        cu = TP.conn_update_fn(P, t)
        if len(cu) != 1:
            raise Broken("C04.R4: connection update helper of %s not found (%d candidates)" % (proto, len(cu)))
        cu = cu[0]
        r4.instance(cu.qname)
        en = [e for e in t.unit.enums if e["name"] == "conn_state"][0]
        states = [c["name"] for c in en["constants"]]
        sw = [b for b in cu.blocks.values() if b.term and b.term["k"] == "SwitchStmt" and cu.fields_of(b.term["cond"])[-1:] == ("state",)]
        if len(sw) != 1:
            raise Broken("C04.R4: state switch of %s not found" % cu.qname)
        cases = [lab[2] for s_, lab in C.edges(cu, sw[0]) if lab[0] == "case"]
        live = [x for x in states if x not in ("conn_state_none", "conn_state_initialized")]
        missing = [x for x in live if x not in cases]
        bad4 = []
        haspending_missing = []

        class Term(S.SeqRule):
            def user0(s2, fn):
                return (None, False, None, False)       # case, bell true, RECEIVABLE awaited known, has_pending consulted

            def on_branch(s2, fn, st, blk, cond, label):
                cs, bell, rcv, hp = st.user
                if isinstance(label, tuple) and label[0] == "case" and fn.fields_of(cond)[-1:] == ("state",):
                    return (label[2], bell, rcv, hp)
                if label in ("T", "F"):
                    l, op, r = C.cond_atom(fn, cond, label == "T")
                    ln = fn.sn(l)
                    if ln["k"] == "bin" and ln["op"] == "&" and fn.fields_of(ln["l"])[-1:] == ("condition",) and C.const_of(fn, ln["r"]) == XCM_SO_RECEIVABLE and isinstance(r, tuple):
                        return (cs, bell, op == "!=", hp)
                    if fn.fields_of(l)[-1:] == ("condition",) and not isinstance(r, tuple) and C.const_of(fn, r) is not None and op == "==":
                        v = C.const_of(fn, r)
                        return (cs, bell, bool(v & XCM_SO_RECEIVABLE), hp)
                return None

            def on_call(s2, fn, st, nid, callees, exts):
                n = fn.nodes[nid]
                cs, bell, rcv, hp = st.user
                if "SSL_has_pending" in exts:
                    return (cs, bell, rcv, True)
                if n.get("callee") == "xpoll_bell_reg_mod":
                    v = S.truth(fn, st, n["args"][2])
                    if v == 1:
                        return (cs, True, rcv, hp)
                    if v == 0 and proto == "btls" and cs == "conn_state_ready" and rcv is not False and not hp:
                        haspending_missing.append(nid)
                return None

            def on_exit(s2, fn, st, ret_nid, ret_cls, top):
                cs, bell, rcv, hp = st.user
                if top and cs in ("conn_state_closed", "conn_state_bad") and not bell:
                    bad4.append(cs)
        S.run(Term(P), cu)
        if missing:
            r4.violation("%s:unhandled:%s" % (cu.qname, ",".join(missing)), "%s does not handle state(s) %s (the default branch aborts)" % (cu.qname, missing), loc=cu.file)
        elif bad4:
            r4.violation("%s:%s-silent" % (cu.qname, bad4[0]), "in state %s the bell is not rung: an application waiting on xcm_fd() never learns that the connection is gone" % bad4[0], loc=cu.file)
        else:
            r4.ok("%s: all of %s handled; closed and bad ring the bell on every path" % (cu.qname, [x.replace("conn_state_", "") for x in live]), "switch typestate")
        if proto == "btcp":
            okq = False
            for s_, lab in C.edges(cu, sw[0]):
                if lab[0] == "case" and lab[2] == "conn_state_resolving":
                    if any(has_call(cu, bb, "xcm_dns_query_completed") for bb in C.reachable_blocks(cu, s_, avoid={x for x, l2 in C.edges(cu, sw[0]) if x != s_})):
                        okq = True
            r4.instance("%s: resolving" % cu.qname)
            if okq:
                r4.ok("a resolving connection rings once the query has completed", "case region")
            else:
                r4.violation("%s:resolving" % cu.qname, "a resolving connection does not consult xcm_dns_query_completed: the result of a finished query is never picked up", loc=cu.file)
        if proto == "btls":
            r5.instance(cu.qname)
            if haspending_missing:
                r5.violation("%s:pending-ignored" % cu.qname, "the bell is cleared while RECEIVABLE is awaited without consulting SSL_has_pending: bytes already decrypted "
                             "(read-ahead) never make the descriptor readable", loc=cu.loc(haspending_missing[0]))
            else:
                r5.ok("SSL_has_pending is consulted on every path that clears the bell while RECEIVABLE is awaited", "path exploration")
            # handshaking: ssl_wants handed down
            r6.instance("%s: handshaking" % cu.qname)
            okh = False
            for s_, lab in C.edges(cu, sw[0]):
                if lab[0] == "case" and lab[2] == "conn_state_tls_handshaking":
                    for bb in C.reachable_blocks(cu, s_, avoid={x for x, l2 in C.edges(cu, sw[0]) if x != s_}):
                        for e in cu.blocks[bb].elems:
                            m = cu.nodes[e]
                            if m["k"] == "bin" and m["op"] == "=" and cu.fields_of(m["l"])[-1:] == ("condition",) and cu.fields_of(m["r"])[-1:] == ("ssl_wants",):
                                okh = True
            if okh:
                r6.ok("while handshaking the sub-socket waits for what OpenSSL asked for", "case region")
            else:
                r6.violation("%s:handshake-wants" % cu.qname, "while handshaking the sub-socket's condition is not set from ssl_wants", loc=cu.file)
    # ------------------------------------------------------------------ R10
    r10 = ctx.rule("C04.R10", "btls ready state: the wake-up decision table, folded over all 48 inputs, loses no awaited direction")
    t = [x for x in tables if x.proto == "btls"][0]
    cu = TP.conn_update_fn(P, t)[0]
    en = [e for e in t.unit.enums if e["name"] == "conn_state"][0]
    ready = [c["value"] for c in en["constants"] if c["name"] == "conn_state_ready"]
    if not ready:
        raise Broken("C04.R10: conn_state_ready not found")
    try:
        rows = BF.table(P, cu, ready[0])
    except BF.FoldError as e:
        raise Broken("C04.R10: %s" % e)
    r10.instance("%s: %d input combinations" % (cu.qname, len(rows)))
    bad10 = []
    for r in rows:
        if r["bell"]:
            continue
        if not r["sub_stored"] or not r["updated"]:
            bad10.append((r, "the bell is cleared but the sub-socket's condition is not stored and updated")); continue
        if r["cond"] & XCM_SO_RECEIVABLE and r["pending"]:
            bad10.append((r, "bytes already decrypted are not signalled")); continue
        for b in (XCM_SO_RECEIVABLE, XCM_SO_SENDABLE):
            if not r["cond"] & b:
                continue
            if r["ssl_condition"] == b:
                if r["ssl_wants"] & ~r["sub"]:
                    bad10.append((r, "OpenSSL's pending %s asked for %s, which the sub-socket does not wait for" % ("read" if b == 1 else "write", BF.name(r["ssl_wants"]))))
            elif not r["sub"] & b:
                bad10.append((r, "%s is awaited, OpenSSL has not been asked about it since, and neither the bell nor the sub-socket watches it: "
                              "nothing wakes the application to make the attempt" % BF.name(b)))
    nquiet = sum(1 for r in rows if not r["bell"] and r["cond"])
    if nquiet < 6:
        raise Broken("C04.R10: only %d quiet rows in the folded table" % nquiet)
    if bad10:
        r, why = bad10[0]
        r10.violation("%s:ready-table" % cu.qname, "%s [%s]" % (why, BF.describe(r)), loc=cu.file)
    else:
        r10.ok("all %d rows: %d ring the bell, %d hand exactly the needed interest to the sub-socket" % (len(rows), sum(1 for r in rows if r["bell"]), sum(1 for r in rows if not r["bell"])), "exact folding")

    # ------------------------------------------------------------------ R11
    r11 = ctx.rule("C04.R11", "send/receive/finish advance the connection state machine before they test the state")
    for proto in ("btcp", "btls"):
        t = [x for x in tables if x.proto == proto][0]
        en = [e for e in t.unit.enums if e["name"] == "conn_state"][0]
        trans = [c["name"] for c in en["constants"] if c["name"].split("conn_state_")[-1] not in ("none", "initialized", "ready", "closed", "bad")]
        if not trans:
            raise Broken("C04.R11: %s has no transitional connection state" % proto)
        file_fns = [g for g in P.fns_in(t.slots["send"].file.split("/")[-1]) if g.file == t.slots["send"].file]
        slot_fns = {g for g in t.slots.values() if g is not None}
        storing = {g for g in file_fns if any(g.fields_of(lhs)[-1:] == ("state",) for b, i, e, lhs, rhs, op in g.stores())}
        drivers = set()
        changed = True
        while changed:
            changed = False
            for g in file_fns:
                if g in drivers or g in slot_fns or not g.static:
                    continue
                callees = {d for c in g.calls() for d in P.callees(g, c)[0]}
                if g in storing or callees & drivers:
                    # a driver moves the state forward: it stores a non-terminal state somewhere below
                    drivers.add(g)
                    changed = True
        if not drivers:
            raise Broken("C04.R11: no state-advancing helper found in %s" % t.slots["send"].file)
        for slot in ("send", "receive", "finish"):
            f = t.slots[slot]
            r11.instance("%s.%s" % (proto, slot))
            stale = []
            ntest = [0]

            class Adv(S.SeqRule):
                def user0(s2, fn):
                    return False

                def inline(s2, fn, nid, callee):
                    return False

                def on_call(s2, fn, st, nid, callees, exts):
                    if any(d in drivers for d in callees):
                        return True
                    return None

                def on_branch(s2, fn, st, blk, cond, label):
                    if cond is not None and TP.mentions_field(fn, cond, "state"):
                        ntest[0] += 1
                        if not st.user and not stale:
                            stale.append(cond)
                    return None
            S.run(Adv(P), f)
            if ntest[0] < 1:
                raise Broken("C04.R11: %s never tests the connection state" % f.qname)
            if stale:
                r11.violation("%s:stale-state" % f.name, "%s tests the connection state (%s) on a path where none of %s has run in this call: a pending resolver/connect/"
                              "handshake event is not consumed, the op answers from the old state and the descriptor stays ready"
                              % (f.name, f.show(stale[0])[:60], sorted(d.name for d in drivers if any(True for _ in [1]))[:6]), loc=f.loc(stale[0]))
            else:
                r11.ok("%s advances the state machine before every test of the state" % f.qname, "path exploration")

    # ------------------------------------------------------------------ R14
    from . import C16 as c16
    r14 = ctx.rule("C04.R14", "btcp in state ready turns every awaited condition into kernel interest, both at once included (= C16.R3's exact folding)")
    c16.fold_btcp_ready(P, r14, [x for x in tables if x.proto == "btcp"][0])

    # ------------------------------------------------------------------ R13
    # attempts that fail at once (unreachable network, unbindable local address) produce no event: no descriptor stays
    # registered, no timer armed.  So the function that starts the attempts also polls their outcome before it returns.
    r13 = ctx.rule("C04.R13", "the outcome of the connect attempts is polled in the call that started them (an immediate failure has no wake-up source)")
    btf = [x for x in tables if x.proto == "btcp"][0].slots["connect"].file
    starters = [g for g in P.functions if g.file == btf and any(True for _ in g.calls("tconnect_connect"))]
    pollers = {g for g in P.functions if g.file == btf and any(True for _ in g.calls("tconnect_get_connected_fd"))}
    if not starters or not pollers:
        raise Broken("C04.R13: starter/poller of the connect tracker not found in %s" % btf)
    for g in starters:
        r13.instance(g.qname)
        polled = {b.id for b in g.blocks.values() for e in b.elems if g.nodes[e]["k"] == "call" and any(d in pollers for d in P.callees(g, e)[0])}
        failed = {b.id for b, i, e, lhs, rhs, op in g.stores() if rhs is not None and g.fields_of(lhs)[-1:] == ("state",) and enum_name(g, rhs) in ("conn_state_bad", "conn_state_closed")}
        ok13 = True
        for c in g.calls("tconnect_connect"):
            wb = g.where()[c][0]
            succ = [s_ for s_ in C.succs(g, wb)] or [wb]
            if not C.must_pass(g, [wb], lambda bb: bb != wb and (bb in polled or bb in failed)) and not (wb in polled):
                ok13 = False
        if ok13:
            r13.ok("%s polls the tracker's outcome (or fails the connection) on every path after starting it" % g.qname, "must-pass")
        else:
            r13.violation("%s:attempts-not-polled" % g.name, "%s starts the connect attempts and can return without polling their outcome: when every attempt has failed at once "
                          "nothing is registered any more and no timer runs, so a non-blocking caller waiting on xcm_fd() never learns that the connection failed" % g.name, loc=g.file)

    # ------------------------------------------------------------------ R12
    # the timers are absolute expiry times handed to a timerfd: the clock they are computed on must be the timerfd's clock
    r12 = ctx.rule("C04.R12", "timer expiry times are taken from the clock the timerfd runs on")
    tm_fns = P.fns_in("core/timer_mgr.c")
    tclk = {C.const_of(f, f.nodes[c]["args"][0]) for f in tm_fns for c in f.calls("timerfd_create")}
    if len(tclk) != 1 or None in tclk:
        raise Broken("C04.R12: clock of timerfd_create not a single constant (%s)" % tclk)
    srcs = {}
    seen12, work12 = set(), list(tm_fns)
    while work12:
        f = work12.pop()
        if f.key in seen12:
            continue
        seen12.add(f.key)
        for c in f.calls():
            n = f.nodes[c]
            if n.get("callee") == "clock_gettime":
                srcs[(f.qname, c)] = C.const_of(f, n["args"][0])
            for d in P.callees(f, c)[0]:
                if d.file.endswith(("core/timer_mgr.c", "common/util.c")):
                    work12.append(d)
    if not srcs:
        raise Broken("C04.R12: the time source of timer_mgr was not found")
    for (q, c), clk in sorted(srcs.items()):
        r12.instance("%s: clock_gettime(%s)" % (q, clk))
        if clk in tclk:
            r12.ok("%s reads clock %s, the timerfd's" % (q, clk), "constant agreement")
        else:
            r12.violation("%s:clock-mismatch" % q.split(":")[-1], "expiry times come from clock %s while the timerfd was created on clock %s: whenever the two differ (time spent "
                          "suspended, clock steps) every timer - connect timeout, resolver timeout, delayed attempt - fires late or never, and nothing else wakes the socket"
                          % (clk, sorted(tclk)[0]), loc=q)

    pe = P.fn("process_ssl_event")
    r6.instance(pe.qname)
    sw = [b for b in pe.blocks.values() if b.term and b.term["k"] == "SwitchStmt"]
    want = {2: XCM_SO_RECEIVABLE, 3: XCM_SO_SENDABLE}      # SSL_ERROR_WANT_READ, SSL_ERROR_WANT_WRITE
    got = {}
    for s_, lab in C.edges(pe, sw[0]):
        if lab[0] == "case" and lab[1] in want:
            for bb in C.reachable_blocks(pe, s_, avoid={x for x, l2 in C.edges(pe, sw[0]) if x != s_}):
                for e in pe.blocks[bb].elems:
                    m = pe.nodes[e]
                    if m["k"] == "bin" and m["op"] == "=" and pe.fields_of(m["l"])[-1:] == ("ssl_wants",):
                        got.setdefault(lab[1], C.const_of(pe, m["r"]))
    if got == want:
        r6.ok("WANT_READ stores RECEIVABLE and WANT_WRITE stores SENDABLE", "switch cases")
    else:
        r6.violation("process_ssl_event:wants", "SSL_get_error -> ssl_wants mapping is %s (expected WANT_READ(2)->RECEIVABLE(1), WANT_WRITE(3)->SENDABLE(2))" % got, loc=pe.file)
    ncalls = 0
    for f in P.fns_in(pe.file.split("/")[-1]):
        for c in f.calls():
            if f.nodes[c].get("callee") in ("SSL_read", "SSL_write") or (not f.nodes[c].get("callee") and "handshake" in f.show(f.nodes[c]["fn"])):
                ncalls += 1
                if not any(True for _ in f.calls("process_ssl_event")):
                    r6.violation("%s:no-ssl-event" % f.name, "%s calls into OpenSSL without passing a non-positive result to process_ssl_event" % f.name, loc=f.loc(c))
    if ncalls < 3:
        raise Broken("C04.R6: only %d OpenSSL I/O call sites" % ncalls)

    # ------------------------------------------------------------------ R7
    r7 = ctx.rule("C04.R7", "a TCP connect in progress is watched for writability and bounded by a timer")
    nx = P.fn("track_connect_next")
    r7.instance(nx.qname)
    bad7 = []
    nconn = [0]

    class Watch(S.SeqRule):
        def user0(s2, fn):
            return (False, None, False)       # registered for EPOLLOUT, connect call, timer

        def on_call(s2, fn, st, nid, callees, exts):
            n = fn.nodes[nid]
            reg, cn, tm = st.user
            if n.get("callee") == "xpoll_fd_reg_add" and (C.const_of(fn, n["args"][2]) or 0) & EPOLLOUT:
                return (True, cn, tm)
            if "connect" in exts:
                nconn[0] += 1
                if not reg:
                    bad7.append("connect() is issued without the descriptor being registered for EPOLLOUT")
                return (reg, nid, tm)
            if n.get("callee") == "timer_mgr_schedule":
                return (reg, cn, True)
            return None

        def on_branch(s2, fn, st, blk, cond, label):
            return None

        def on_exit(s2, fn, st, ret_nid, ret_cls, top):
            pass
    S.run(Watch(P), nx)
    # the EINPROGRESS edge schedules the timer
    okt = False
    for b, cond in C.cond_blocks(nx):
        l, op, r = C.cond_atom(nx, cond, True)
        if not isinstance(r, tuple) and C.const_of(nx, r) == EINPROGRESS:
            lab = "T" if op == "==" else "F"
            if any(has_call(nx, bb, "timer_mgr_schedule") for bb in C.only_via_edge(nx, b, lab)):
                okt = True
    if nconn[0] < 1:
        raise Broken("C04.R7: connect() not found in track_connect_next")
    if bad7 or not okt:
        r7.violation("track_connect_next:watch", "%s%s" % (bad7[0] if bad7 else "", "" if okt else "; the EINPROGRESS edge arms no timer"), loc=nx.file)
    else:
        r7.ok("registered for EPOLLOUT before connect(); EINPROGRESS arms the attempt timer", "path exploration + control dependence")
    tc = P.fn("track_create")
    r7.instance(tc.qname)
    okd = any(any(has_call(tc, bb, "timer_mgr_schedule") for bb in C.only_via_edge(tc, b, "T")) for b, cond in C.cond_blocks(tc) if "initial_delay" in tc.show(cond))
    if okd:
        r7.ok("a delayed track arms a timer for its start", "control dependence")
    else:
        r7.violation("track_create:delay-timer", "a track with an initial delay arms no timer: the delayed (IPv4) attempt never starts unless something else wakes the socket", loc=tc.file)

    # ------------------------------------------------------------------ R8
    r8 = ctx.rule("C04.R8", "resolver progress is watched: its entry points end in update_xpoll; a finished query arms a zero timer")
    for name in ("process_in_progress", "xcm_dns_resolve"):
        f = P.fn(name)
        r8.instance(f.qname)
        # every path from entry to a (non-NULL) exit passes update_xpoll
        okp = True

        class Ux(S.SeqRule):
            def user0(s2, fn):
                return False

            def on_call(s2, fn, st, nid, callees, exts):
                if fn.nodes[nid].get("callee") == "update_xpoll":
                    return True
                return None

            def on_exit(s2, fn, st, ret_nid, ret_cls, top):
                nonlocal okp
                if top and not st.user and ret_cls != S.ZERO:
                    okp = False
        S.run(Ux(P), f)
        if okp:
            r8.ok("%s ends in update_xpoll on every successful path" % f.qname, "path exploration")
        else:
            r8.violation("%s:no-update_xpoll" % f.name, "%s can return without update_xpoll: the resolver's descriptors/timers are not (re-)registered" % f.name, loc=f.file)
    ux = P.fn("update_xpoll")
    r8.instance(ux.qname)
    okz = False
    for b, cond in C.cond_blocks(ux):
        l, op, r = C.cond_atom(ux, cond, True)
        if ux.fields_of(l)[-1:] == ("state",) and not isinstance(r, tuple) and enum_name(ux, r) == "query_state_in_progress":
            lab = "F" if op == "==" else "T"
            for bb in C.only_via_edge(ux, b, lab):
                for e in ux.blocks[bb].elems:
                    m = ux.nodes[e]
                    if m["k"] == "call" and m.get("callee") in ("update_ares_timer", "timer_mgr_reschedule", "timer_mgr_schedule") and any(C.const_of(ux, a) == 0 for a in m["args"][1:]):
                        okz = True
    if okz:
        r8.ok("a finished query arms a zero timer (the only wake-up source once the resolver's descriptors are gone)", "control dependence")
    else:
        r8.violation("update_xpoll:zero-timer", "a finished query arms no immediate timer: the application is never woken to pick the result up", loc=ux.file)

    # ------------------------------------------------------------------ R9
    r9 = ctx.rule("C04.R9", "the blocking forms wait on the socket's own descriptor, for readability, after await()")
    sw_ = P.fn("socket_wait")
    r9.instance(sw_.qname)
    okw = False
    polls = list(sw_.calls("poll"))
    aw_first = list(sw_.calls("await"))
    fdinit = any(m["k"] == "init" and m.get("fields") and "fd" in m["fields"] and sw_.sn(m["elems"][m["fields"].index("fd")]).get("callee") == "xpoll_get_fd"
                 and "events" in m["fields"] and C.const_of(sw_, m["elems"][m["fields"].index("events")]) == 1 for m in sw_.nodes.values())
    if polls and aw_first and fdinit:
        okw = True
    if okw:
        r9.ok("socket_wait: await(), then poll(xpoll_get_fd(socket), POLLIN)", "calls and initialiser")
    else:
        r9.violation("socket_wait", "the blocking wait does not poll the socket's own descriptor for POLLIN after await()", loc=sw_.file)
