"""C03 - a failed send leaves no trace; a successful send is accepted once.

R1  in every messaging send op, a path that returns failure before the
    message was accepted has touched neither the counters nor the socket's
    own state (only the flush of the previous frame may have happened).
R2  success is returned only after acceptance; after acceptance failure is
    returned only with an errno that is known not to be EAGAIN (connection
    failure), and the from_app counters are bumped only after acceptance.
R3  blocking xcm_send: after the message was accepted, -1 is returned only
    because the connection's finish failed, never because the wait failed.
R4  UX send is all-or-nothing: at most one send(2) per path, MSG_NOSIGNAL.
R5  the length that was validated is the length that is sent: no unguarded
    narrowing of the length on the send path.
R6  every errno test in a send op looks at the errno of the call whose
    failure it handles (nothing that may clobber errno in between; logging
    is errno-transparent by derivation from its save/restore bracket).
"""
from .. import bounds as B
from .. import cfg as C
from .. import seq as S
from .. import tp as TP
from ..model import Program
from ..report import Broken

EAGAIN, EMSGSIZE, EINVAL, EINTR = 11, 90, 22, 4


class SendRule(S.SeqRule):
    """user state: (accepted, trace) - trace = first own effect before acceptance"""

    def __init__(self, prog, root, rule, r6, accept_call):
        super().__init__(prog)
        self.root, self.rule, self.r6, self.accept_call = root, rule, r6, accept_call
        self.privs = TP.priv_ptr_vars(root)
        self.nexits = 0
        self.stale = set()

    def user0(self, fn):
        return (False, None)

    def inline(self, fn, nid, callee):
        return callee.static and callee.file == self.root.file and callee is not self.root

    def on_call(self, fn, st, nid, callees, exts):
        acc, tr = st.user
        n = fn.nodes[nid]
        if self.accept_call == "mbuf_set" and n.get("callee") == "mbuf_set" and TP.mentions_field(fn, n["args"][0], "send_mbuf"):
            return (True, tr)
        if self.accept_call == "send" and "send" in exts and fn is self.root:
            # the kernel accepts (>= 0) or refuses (< 0) the whole datagram
            return [((True, tr), S.NONNEG), ((acc, tr), S.NEG)]
        return None

    def on_store(self, fn, st, nid, lhs, rhs, op):
        acc, tr = st.user
        if acc or tr:
            return None
        c = TP.is_counter_store(fn, lhs)
        if c and "from_app" in c:
            return (acc, "%s updated at %s" % (c, fn.loc(nid)))
        if fn is self.root and (c or TP.is_priv_store(fn, lhs, self.privs)):
            return (acc, "store to %s at %s" % (fn.show(lhs), fn.loc(nid)))
        return None

    def on_errno_use(self, fn, st, nid, kind):
        src, conf, fact = st.errno
        if kind == "test" and not conf and src not in ("entry", "assigned"):
            k = (fn.name, fn.loc(nid))
            if k not in self.stale:
                self.stale.add(k)
                # which call clobbered it?
                self.r6.violation("%s:stale-errno" % self.root.name,
                                  "errno is tested at %s although a call that may change it ran after the failing call "
                                  "(in %s; logging must stay errno-transparent)" % (fn.loc(nid), fn.name), loc=fn.loc(nid))
        return None

    def on_exit(self, fn, st, ret_nid, ret_cls, top):
        if not top:
            return
        self.nexits += 1
        acc, tr = st.user
        f = self.root
        where = f.loc(ret_nid) if ret_nid else f.file
        if ret_cls in (S.NEG,):
            if not acc and tr:
                self.rule.violation("%s:trace-before-accept" % f.name,
                                    "a send that fails before the message is accepted has already left a trace: %s" % tr, loc=where)
            elif acc:
                e = st.efact
                safe = e is not None and ((e[0] == "ne" and EAGAIN in e[1]) or (e[0] == "eq" and e[1] != EAGAIN))
                if not safe:
                    self.rule.violation("%s:fail-after-accept" % f.name,
                                        "-1 is returned for an accepted message although errno may be EAGAIN: the application will re-send and duplicate it",
                                        loc=where)
                else:
                    self.rule.ok("%s: failure after acceptance only with errno != EAGAIN" % f.name, "errno must-fact on the path")
            else:
                self.rule.ok("%s: failure before acceptance without trace (errno %s)" % (f.name, st.efact), "path exploration")
        elif ret_cls in (S.ZERO, S.NONNEG, S.POS):
            if not acc:
                self.rule.violation("%s:success-without-accept" % f.name, "success is returned on a path that never accepted the message", loc=where)
            else:
                self.rule.ok("%s: success only after acceptance" % f.name, "path exploration")
        else:
            self.rule.violation("%s:unknown-return" % f.name, "return value of unknown sign", loc=where)


class BlockingSend(S.SeqRule):
    """xcm_send in blocking mode.  user: (accepted, waitfailed, finish called since acceptance)"""
    max_depth = 5

    def __init__(self, prog, root, rule):
        super().__init__(prog)
        self.root, self.rule = root, rule
        self.seen = set()

    def user0(self, fn):
        return (False, False, False)

    def inline(self, fn, nid, callee):
        return callee.static and callee.file == self.root.file

    def on_call(self, fn, st, nid, callees, exts):
        acc, wf, fin = st.user
        n = fn.nodes[nid]
        if acc and any(d.static and d.file == self.root.file and any(True for _ in d.calls("xcm_tp_socket_send")) for d in callees):
            k = "xcm_send:offered-again-after-accept"
            if k not in self.seen:
                self.seen.add(k)
                self.rule.violation(k, "blocking xcm_send hands the caller's buffer to the transport again (%s) on a path where the message had already been accepted: "
                                       "the receiver gets it twice although xcm_send reports one success" % n.get("callee"), loc=fn.loc(nid))
        if n.get("callee") == "xcm_tp_socket_send":
            # accepted by the direct pass-through of non-blocking mode (in xcm_send itself): nothing to finish here
            return [((True, wf, fn is self.root), S.NONNEG), ((acc, wf, fin), S.NEG)]
        if "poll" in exts:
            return [((acc, wf, fin), S.POS), ((acc, True, fin), S.NONPOS)]
        if n.get("callee") == "xcm_tp_socket_finish":
            # a new finish result supersedes an earlier wait failure only if the wait is retried
            return [((acc, wf, True), S.ZERO), ((acc, wf, True), S.NEG)]
        return None

    def blocking_path(self, st):
        # acceptance through the blocking helpers (msg_bsend / bytestream_bsend), not the non-blocking pass-through
        return bool(st.get("M:conn_s->is_blocking") in (S.POS, S.NONZERO)) or getattr(self, "_saw_bsend", False)

    def on_exit(self, fn, st, ret_nid, ret_cls, top):
        if not top:
            return
        acc, wf, fin = st.user
        e = st.efact
        if ret_cls != S.NEG and acc and not fin:
            k = "xcm_send:success-without-finish"
            if k not in self.seen:
                self.seen.add(k)
                self.rule.violation(k, "blocking xcm_send can report success for an accepted message without having finished the socket's outstanding work: part of "
                                       "the frame may still be in the library's buffer, and an application that sends its last message and goes idle (or closes) never gets it out",
                                    loc=self.root.loc(ret_nid) if ret_nid else None)

        eintr_excluded = e is not None and ((e[0] == "ne" and EINTR in e[1]) or (e[0] == "eq" and e[1] != EINTR))
        if ret_cls == S.NEG and acc and wf and eintr_excluded:
            self.rule.ok("xcm_send: after acceptance a failed wait is reported only when errno is not EINTR", "errno must-fact")
        elif ret_cls == S.NEG and acc and wf:
            k = "xcm_send:wait-failure-after-accept"
            if k not in self.seen:
                self.seen.add(k)
                self.rule.violation(k, "blocking xcm_send returns -1 because the wait (poll) failed - e.g. EINTR - although the message "
                                       "was already accepted and will be delivered by the next call; a re-send duplicates it",
                                    loc=self.root.loc(ret_nid) if ret_nid else None)
        elif ret_cls == S.NEG and acc:
            self.rule.ok("xcm_send: -1 after acceptance through a failing finish", "path exploration")


def run(ctx):
    P = Program(("libxcm",))
    ctx.analysed = {"units": len(P.units), "functions": len(P.functions)}
    ctx.explanation = ("Path-sensitive exploration of every messaging send op with its static helpers inlined, tracking the sign of "
                       "results, must-facts on errno (with the source call of errno and whether its failure was observed), the "
                       "acceptance point and own effects; plus value-range analysis of the length on the send path.")
    ctx.trust("send(2) on a SOCK_SEQPACKET socket accepts a datagram whole or not at all; mbuf_set copies the message into XCM-owned storage")
    tables = TP.ops_tables(P)
    ops = []
    for t in tables:
        if t.messaging and t.slots.get("send") is not None and t.slots["send"] not in [o for o, _ in ops]:
            ops.append((t.slots["send"], t))
    r1 = ctx.rule("C03.R1+R2", "messaging send ops: no trace before acceptance; success only after acceptance; failure after acceptance never with EAGAIN")
    r6 = ctx.rule("C03.R6", "errno tests in send ops see the errno of the failing call (logging derived errno-transparent)")
    lemma_used = set()
    n = 0
    for f, t in ops:
        calls = {f.nodes[c].get("callee") for c in f.calls()}
        uses_mbuf = any(TP.mentions_field(f, c, "send_mbuf") for c in f.calls("mbuf_set"))
        if uses_mbuf:
            acc = "mbuf_set"
        elif "send" in calls:
            acc = "send"
        else:
            # delegating op (utls): the sub-socket's op is checked itself
            r1.note("%s delegates to a sub-socket" % f.qname)
            continue
        r1.instance("%s (%s, accepts by %s)" % (f.qname, t.proto, acc))
        r6.instance(f.qname)
        n += 1
        rule = SendRule(P, f, r1, r6, acc)
        S.run(rule, f)
        if rule.nexits < 3:
            raise Broken("C03: only %d exits explored in %s" % (rule.nexits, f.name))
        if hasattr(rule, "lemma"):
            lemma_used |= rule.lemma.used
        if not rule.stale:
            r6.ok("%s: every errno test follows an observed failure with only errno-transparent calls in between" % f.qname, "errno source tracking")
    r1.floor(3, "messaging send ops")
    r6.note("errno-transparency derived for: %s" % sorted(lemma_used)[:12])
    if "__log_event" not in lemma_used:
        r6.note("logging not on any send path?")

    # ---------------------------------------------------------------- R3
    r3 = ctx.rule("C03.R3", "blocking xcm_send: after acceptance, -1 only through a failing finish, not through a failing wait")
    xs = P.fn("xcm_send")
    r3.instance("xcm_send")
    guard_live = None
    S.run(BlockingSend(P, xs, r3), xs)

    # ---------------------------------------------------------------- R4
    r4 = ctx.rule("C03.R4", "UX send: at most one send(2) per path, with MSG_NOSIGNAL and MSG_EOR")
    for f, t in ops:
        sends = [c for c in f.calls("send")]
        if not sends:
            continue
        r4.instance(f.qname)
        for c in sends:
            fl = C.const_of(f, f.nodes[c]["args"][3])
            if fl is None or not (fl & 0x4000):
                r4.violation("%s:MSG_NOSIGNAL" % f.name, "send(2) without MSG_NOSIGNAL: a closed peer raises SIGPIPE", loc=f.loc(c))
            elif not (fl & 0x80):
                r4.violation("%s:MSG_EOR" % f.name, "send(2) without MSG_EOR on a SEQPACKET socket", loc=f.loc(c))
            else:
                r4.ok("%s: send flags contain MSG_NOSIGNAL|MSG_EOR" % f.qname)
        # no send in a loop, one per path
        blocks = {f.where()[c][0] for c in sends}
        loop = any(b in C.reachable_blocks(f, s) for b in blocks for s in C.succs(f, b))
        multi = len(sends) > 1 and any(f.where()[b2][0] in C.reachable_blocks(f, f.where()[b1][0]) for b1 in sends for b2 in sends if b1 != b2)
        if loop or multi:
            r4.violation("%s:multiple-send" % f.name, "more than one send(2) may happen for one message", loc=f.file)
        else:
            r4.ok("%s: one send(2) per path" % f.qname)
    r4.floor(1, "kernel-datagram send ops")

    # ---------------------------------------------------------------- R5
    r5 = ctx.rule("C03.R5", "the validated length is the length sent: no unguarded narrowing on the send path")
    eng = B.Engine(P)
    sendfns = {f for f, t in ops}
    eng.narrow_scope = lambda f: f in sendfns
    for f in sorted(sendfns, key=lambda f: f.qname):
        r5.instance(f.qname)
        rq, unp = eng.analyse(f)
        for r in rq:
            if "narrowing" in r.origin["key"]:
                r5.violation(r.origin["key"], "length narrowed without a range guard: needs %s <= %s" % (B.show_lin(r.lhs), B.show_lin(r.rhs)), loc=r.origin["loc"])
        for u in unp:
            if "narrowing" in u["key"]:
                r5.violation(u["key"], "length narrowed without a range guard: %s <= %s not established" % (u["size"], u["cap"]), loc=u["loc"])
    npr = sum(1 for k, how, sz, cap in eng.sink_log if how == "proved" and "narrowing" in k)
    r5.obligations += npr
    r5.discharged += npr
    for k, how, sz, cap in eng.sink_log:
        if how == "proved" and "narrowing" in k and len(r5.samples) < 4:
            r5.samples.append({"obligation": "%s: %s <= %s" % (k, sz, cap), "discharged_by": "size guard facts"})
    if npr < 2:
        raise Broken("C03.R5: only %d narrowing obligations on the send path" % npr)

    # ------------------------------------------------------------------ R7
    # "delivered exactly once" in blocking mode rests on finish meaning flushed:
    # xcm_send waits until finish succeeds; C01.R10's engine decides it.
    from . import C01 as c01
    r7 = ctx.rule("C03.R7", "finish of a framing transport reports success only when the accepted message has left the send buffer")
    for t in tables:
        fin, snd = t.slots.get("finish"), t.slots.get("send")
        if fin is None or snd is None or not t.messaging:
            continue
        if not any(TP.mentions_field(snd, x, "send_mbuf") for x in snd.nodes if snd.nodes[x]["k"] == "member"):
            continue
        if fin.qname in [str(i) for i in r7.instances]:
            continue
        r7.instance(fin.qname)
        rr = c01.FinishFlushed(P, fin, r7)
        S.run(rr, fin)
        if rr.nzero < 1:
            raise Broken("C03.R7: no success exit found in %s" % fin.name)
    r7.floor(2, "finish ops of framing transports")

    # ------------------------------------------------------------------ R8
    r8 = ctx.rule("C03.R8", "a lower-layer send that fails with anything but EAGAIN has made the connection terminal (the framing layer keeps the frame it had buffered)")
    check_terminal_failures(P, r8, tables)

    # ------------------------------------------------------------------ R9
    r9 = ctx.rule("C03.R9", "a receive that asks the layer below for input also attempts to flush the accepted frame (xcm.h: buffered data is re-attempted by finish, send and receive)")
    check_receive_flushes(P, r9, tables)


def flush_helpers(P, f):
    """the static helpers of f's file through which the pending frame is written below: those that call
    xcm_tp_socket_send and those that reach one by direct calls (the flush loop's body extracted into a helper).  The ops
    of the table (send, receive, finish themselves) are not helpers."""
    fl = {g for g in P.functions if g.file == f.file and g.static and any(True for _ in g.calls("xcm_tp_socket_send"))}
    changed = True
    while changed:
        changed = False
        for g in P.functions:
            if g.file != f.file or not g.static or g in fl or g is f:
                continue
            if any((g.nodes[c].get("callee") or "") in {x.name for x in fl} for c in g.calls()):
                fl.add(g)
                changed = True
    ops = {g for t in TP.ops_tables(P) for g in t.slots.values() if g is not None}
    return {g for g in fl if g not in ops}


def check_receive_flushes(P, rule, tables):
    """xcm_send() may answer 0 with the frame still in the library's buffer; xcm.h promises that it is re-attempted by
    every later xcm_finish(), xcm_send() and xcm_receive().  An application that sent a request and now only calls
    xcm_receive() on every wake-up relies on the third: a receive op of a framing transport that reads from the layer
    below and returns (no input yet) without having attempted the flush leaves the frame where it is - the request
    never leaves, the reply never comes, and SENDABLE keeps the descriptor ready (a busy loop).  Returns that happen
    before any read (sticky failure, argument checks) are not concerned."""
    n = 0
    for t in tables:
        if t.proto not in ("tcp", "tls"):
            continue
        f = t.slots["receive"]
        flushers = flush_helpers(P, f)
        if not flushers:
            raise Broken("receive-flushes: the flush helper of %s was not found" % f.name)
        n += 1
        rule.instance(f.qname)
        bad = []
        nread = [0]

        class Flushes(S.SeqRule):
            max_depth = 3

            def user0(s2, fn):
                return (False, False)       # (flush attempted, read from below attempted)

            def inline(s2, fn, nid, callee):
                return callee.static and callee.file == f.file and callee is not f and callee not in flushers

            def on_call(s2, fn, st, nid, callees, exts):
                if any(d in flushers for d in callees):
                    return (True, st.user[1])
                if (fn.nodes[nid].get("callee") or "") == "xcm_tp_socket_receive":
                    nread[0] += 1
                    return (st.user[0], True)
                return None

            def on_branch(s2, fn, st, blk, cond, label):
                # the helper's own "nothing buffered" test moved in front of the call: an empty send buffer needs no flush
                if label not in ("T", "F"):
                    return None
                l, op, r = C.cond_atom(fn, cond, label == "T")
                if isinstance(l, tuple):
                    return None
                ln = fn.sn(l)
                if ln["k"] == "call" and (ln.get("callee") or "") == "mbuf_is_empty" and op == "!=" and ln["args"] and TP.mentions_field(fn, ln["args"][0], "send_mbuf"):
                    return (True, st.user[1])
                return None

            def on_exit(s2, fn, st, ret_nid, ret_cls, top):
                if top and st.user[1] and not st.user[0] and not bad:
                    bad.append(ret_nid)
        S.run(Flushes(P), f)
        if nread[0] < 1:
            raise Broken("receive-flushes: %s does not read from the layer below" % f.name)
        if bad:
            rule.violation("%s:reads-without-flushing" % f.name, "%s can read from the layer below and return without having attempted to flush the accepted frame: an "
                           "application that waits for the reply with xcm_receive() alone never gets its request out" % f.name,
                           loc=f.loc(bad[0]) if bad[0] is not None else f.file)
        else:
            rule.ok("%s: every path that reads from below has attempted the flush" % f.qname, "path exploration")
    if n < 2:
        raise Broken("receive-flushes: only %d framing receive ops found" % n)


def check_terminal_failures(P, rule, tables):
    """tcp_send/tls_send buffer (and count) the message first and then try to write it.  A failure of that write other
    than EAGAIN is reported as the send's failure while the frame stays in the buffer - harmless only because such a
    failure means the byte stream below is dead (bad/closed) and nothing will ever be written again.  So: every path of
    btcp_send/btls_send that returns -1 with errno possibly different from EAGAIN has the connection in a terminal state."""
    EAGAIN = 11
    for t in tables:
        if t.proto not in ("btcp", "btls"):
            continue
        f = t.slots["send"]
        rule.instance(f.qname)
        bad = []
        nfail = [0]

        class Term(S.SeqRule):
            max_depth = 4

            def user0(s2, fn):
                return False          # connection known terminal on this path

            def inline(s2, fn, nid, callee):
                return callee.static and callee.file == f.file and callee is not f

            def on_branch(s2, fn, st, blk, cond, label):
                if isinstance(label, tuple) and label[0] == "case" and fn.fields_of(cond)[-1:] == ("state",):
                    return label[2] in ("conn_state_bad", "conn_state_closed")
                if label in ("T", "F"):
                    l, op, r = C.cond_atom(fn, cond, label == "T")
                    if fn.fields_of(l)[-1:] == ("state",) and not isinstance(r, tuple):
                        nm = enum_name(fn, r)
                        if nm in ("conn_state_bad", "conn_state_closed") and op == "==":
                            return True
                        if nm == "conn_state_ready" and op == "!=":
                            return st.user      # not ready: transitional or terminal - decided by errno below
                return None

            def on_store(s2, fn, st, nid, lhs, rhs, op):
                if rhs is not None and fn.fields_of(lhs)[-1:] == ("state",):
                    return enum_name(fn, rhs) in ("conn_state_bad", "conn_state_closed")
                return None

            def on_exit(s2, fn, st, ret_nid, ret_cls, top):
                if not top or ret_cls != S.NEG:
                    return
                nfail[0] += 1
                e = st.efact
                if e and e[0] == "eq" and e[1] == EAGAIN:
                    return
                if not st.user and not bad:
                    bad.append((ret_nid, e))
        from .C06 import enum_name
        S.run(Term(P), f)
        if nfail[0] < 2:
            raise Broken("terminal-failures: only %d failing exits explored in %s" % (nfail[0], f.name))
        if bad:
            e = bad[0][1]
            rule.violation("%s:failure-on-live-connection" % f.name, "%s can fail with %s while the connection stays usable: the messaging layer above reports that send as "
                           "failed although the frame is already buffered and counted - it is transmitted with the next call, and a retry duplicates it"
                           % (f.name, "errno %s" % (e[1] if e and e[0] == "eq" else "other than EAGAIN")), loc=f.loc(bad[0][0]) if bad[0][0] else f.file)
        else:
            rule.ok("%s: every failure other than EAGAIN leaves the connection bad or closed" % f.qname, "path exploration with errno facts")
