"""C07 - hostile or corrupt wire input (memory-safety and framing clauses).

R1  every write on the receive path is bounded: the lower-layer read goes to
    the mbuf's write cursor with exactly the capacity that was ensured right
    before (E2), and the three structural facts of mbuf.h this rests on hold.
R2  validate before sizing: on every path of the messaging receive ops
    (helpers inlined) the announced length is used only after
    mbuf_is_hdr_valid held in this very call; the invalid edge marks the
    connection bad with EPROTO, sets errno EPROTO and returns -1.
R3  the receiver accepts exactly the lengths the sender can produce:
    {n : mbuf_is_hdr_valid} decided exactly by case analysis over the critical
    points with 32-bit wrap-around semantics = [1, max_msg]; the sender's
    guard establishes 1 <= len <= MBUF_MSG_MAX at acceptance; the wire maximum
    leaves room for header + maximum payload.
R4  EPROTO is sticky: the bad flag is only ever set to true (with C06).
R5  each lower-layer read requests exactly the missing part of the header or
    payload (no over-read into the next frame).
R6  a TLS protocol error drains OpenSSL's error queue on every path, so it
    cannot be attributed to another connection of the thread.
Not decided: crashes inside OpenSSL/c-ares; pointer arithmetic outside sinks.
"""
from .. import bounds as B
from .. import cfg as C
from .. import interp as I
from .. import seq as S
from .. import tp as TP
from ..model import Program
from ..report import Broken

EPROTO = 71


def mbuf_post_spare(fb, F, nid):
    """post-condition of mbuf_wire_ensure_spare_capacity(b, n): n bytes are
    writable at mbuf_wire_end(b) (justified by R1's structural checks)"""
    n = fb.fn.nodes[nid]
    F = F.copy()
    a = fb.lin(n["args"][1])
    if a is not None:
        fb.add_le(F, a, B.lin_term("cap(mbuf_wire_end(%s))" % fb.term(n["args"][0])))
    return F


class RecvRule(S.SeqRule):
    """user: (validated, invalid, badset, reasonset)"""

    def __init__(self, prog, root, r2):
        super().__init__(prog)
        self.root, self.r2 = root, r2
        self.nuse = 0
        self.ninvalid = 0
        self.seen = set()

    def user0(self, fn):
        return (False, False, False, False)

    def inline(self, fn, nid, callee):
        return callee.static and callee.file == self.root.file and callee is not self.root

    def _is_rbuf(self, fn, a):
        if TP.mentions_field(fn, a, "receive_mbuf"):
            return True
        n = fn.sn(a)
        if n["k"] == "ref" and n["dk"] == "local":
            for m in fn.nodes.values():
                if m["k"] == "decl":
                    for v in m["vars"]:
                        if v["did"] == n["did"] and v.get("init") is not None and TP.mentions_field(fn, v["init"], "receive_mbuf"):
                            return True
        return False

    def on_call(self, fn, st, nid, callees, exts):
        v, inv, bad, rs = st.user
        n = fn.nodes[nid]
        name = n.get("callee")
        if name in ("mbuf_payload_left", "mbuf_complete_payload_len", "mbuf_is_complete", "mbuf_payload_start") and n["args"] and self._is_rbuf(fn, n["args"][0]):
            self.nuse += 1
            if not v:
                k = (fn.name, name)
                if k not in self.seen:
                    self.seen.add(k)
                    self.r2.violation("%s:%s:unvalidated" % (fn.name, name),
                                      "%s uses the announced length (%s) on a path where the header was not validated in this call"
                                      % (fn.name, name), loc=fn.loc(nid))
            else:
                self.r2.ok("%s: %s after validation" % (fn.name, name), "path exploration from %s" % self.root.name)
        if name == "mbuf_reset" and n["args"] and self._is_rbuf(fn, n["args"][0]):
            return (False, inv, bad, rs)
        return None

    def on_branch(self, fn, st, blk, cond, label):
        if label not in ("T", "F"):
            return None
        l, op, r = C.cond_atom(fn, cond, label == "T")
        ln = fn.sn(l)
        if ln["k"] == "call" and ln.get("callee") == "mbuf_is_hdr_valid" and isinstance(r, tuple) and r[1] == 0:
            v, inv, bad, rs = st.user
            if op == "!=":
                return (True, inv, bad, rs)
            return (v, True, bad, rs)
        return None

    def on_store(self, fn, st, nid, lhs, rhs, op):
        v, inv, bad, rs = st.user
        flds = fn.fields_of(lhs)
        if flds and flds[-1] == "bad" and rhs is not None and C.const_of(fn, rhs) == 1:
            return (v, inv, True, rs)
        if flds and flds[-1] == "badness_reason" and rhs is not None and C.const_of(fn, rhs) == EPROTO:
            return (v, inv, bad, True)
        return None

    def on_exit(self, fn, st, ret_nid, ret_cls, top):
        if not top:
            return
        v, inv, bad, rs = st.user
        if inv:
            self.ninvalid += 1
            e = st.efact
            ok = bad and rs and ret_cls == S.NEG and e == ("eq", EPROTO)
            if ok:
                self.r2.ok("%s: an invalid header marks the connection bad(EPROTO) and returns -1/EPROTO" % self.root.name, "path exploration")
            else:
                what = []
                if not bad:
                    what.append("the bad flag is not set")
                if not rs:
                    what.append("badness_reason is not EPROTO")
                if ret_cls != S.NEG:
                    what.append("the call does not fail")
                if e != ("eq", EPROTO):
                    what.append("errno is not EPROTO")
                self.r2.violation("%s:invalid-header" % self.root.name, "on an invalid frame header: " + ", ".join(what),
                                  loc=fn.loc(ret_nid) if ret_nid else None)


class DrainRule(S.SeqRule):
    """user: (proto_error, drained)"""
    max_depth = 5

    def __init__(self, prog, root, rule):
        super().__init__(prog)
        self.root, self.rule = root, rule
        self.nproto = 0

    def user0(self, fn):
        return (False, False)

    def inline(self, fn, nid, callee):
        return (callee.static and callee.file == self.root.file) or callee.file.endswith("log_tls.c")

    def on_call(self, fn, st, nid, callees, exts):
        pe, dr = st.user
        if "ERR_get_error" in exts or "ERR_clear_error" in exts:
            return (pe, True)
        return None

    def on_branch(self, fn, st, blk, cond, label):
        if isinstance(label, tuple) and label[0] == "case" and fn is self.root:
            if label[2] == "SSL_ERROR_SSL" or label[1] == 1:
                return (True, st.user[1])
        if label in ("T", "F"):
            l, op, r = C.cond_atom(fn, cond, label == "T")
            ln = fn.sn(l)
            if ln["k"] == "call" and ln.get("callee") == "ERR_peek_error" and op == "!=":
                return (True, st.user[1])
        return None

    def on_exit(self, fn, st, ret_nid, ret_cls, top):
        if not top:
            return
        pe, dr = st.user
        if pe:
            self.nproto += 1
            if dr:
                self.rule.ok("a protocol error leaves %s with OpenSSL's error queue drained" % self.root.name, "path exploration")
            else:
                self.rule.violation("%s:error-queue" % self.root.name,
                                    "a TLS protocol error can leave records on the thread's OpenSSL error queue: the next would-block "
                                    "SSL call on ANY connection of the thread is then classified SSL_ERROR_SSL", loc=fn.file)


def run(ctx):
    P = Program(("libxcm",))
    ctx.analysed = {"units": len(P.units), "functions": len(P.functions)}
    ctx.explanation = ("Bounded-write analysis of the receive path with the mbuf protocol, path exploration of the messaging receive "
                       "ops with helpers inlined (validation typestate, error contract of the invalid edge), exact decision of the "
                       "accepted-length predicate by folding its AST over all critical points with 32-bit wrap-around, and an "
                       "error-queue drain rule on the TLS event handler.")
    ctx.trust("OpenSSL documentation: the thread's error queue must be empty before an SSL I/O call for SSL_get_error to be reliable")
    tables = TP.ops_tables(P)
    msg_recv = []
    for t in tables:
        f = t.slots.get("receive")
        if t.messaging and f is not None and f not in msg_recv and any(TP.mentions_field(f, x, "receive_mbuf") for x in f.nodes if f.nodes[x]["k"] == "member"):
            msg_recv.append(f)
    if len(msg_recv) < 2:
        raise Broken("framing receive ops not found")

    # ------------------------------------------------------------------ R2
    r2 = ctx.rule("C07.R2", "announced length used only after validation in the same call; invalid header => bad(EPROTO), -1/EPROTO")
    for f in msg_recv:
        r2.instance(f.qname)
        rr = RecvRule(P, f, r2)
        S.run(rr, f)
        if rr.nuse < 3 or rr.ninvalid < 1:
            raise Broken("C07.R2: %s: %d length uses, %d invalid-header exits explored" % (f.name, rr.nuse, rr.ninvalid))
    r2.floor(2, "framing receive ops")

    # ------------------------------------------------------------------ R3
    r3 = ctx.rule("C07.R3", "accepted lengths of the receiver = lengths the sender can produce = [1, max_msg]")
    hv = [f for f in P.by_name.get("mbuf_is_hdr_valid", [])]
    if not hv:
        raise Broken("anchor vanished: mbuf_is_hdr_valid")
    hv = hv[0]
    consts = set()
    for g in (hv, P.by_name["mbuf_set"][0], P.by_name["mbuf_wire_ensure_capacity"][0]):
        for n in g.nodes.values():
            if "cv" in n and 0 <= n["cv"] < (1 << 32):
                consts.add(n["cv"])
    pts = I.critical_points(consts)

    def pred(x):
        # the decoder itself is folded (conversions on its way out included): x is the 32-bit value on the wire
        it = I.Interp(P, stubs={"ntohl": lambda a: x, "__builtin_bswap32": lambda a: x, "memcpy": lambda *a: 0}, fields={"wire_len": 4 + min(x, 16)})
        return it.call(hv, [1]) != 0
    try:
        runs = I.accepted_intervals(pred, pts)
    except I.Unsupported as e:
        raise Broken("C07.R3: cannot fold mbuf_is_hdr_valid: %s" % e)
    r3.instance("mbuf_is_hdr_valid over %d critical points" % len(pts))
    # sender side: facts at the acceptance point
    eng = B.Engine(P)
    send_lo, send_hi = None, None
    max_msgs = set()
    for t in tables:
        f = t.slots.get("send")
        if not (t.messaging and f is not None):
            continue
        for c in f.calls("mbuf_set"):
            fb = B.FnBounds(eng, f)
            F = fb.before.get(c, B.Facts())
            ln = fb.lin(f.nodes[c]["args"][2])
            if ln is None:
                continue
            lo = hi = None
            for k in (0, 1, 2):
                if fb.prove_le(F, B.lin_const(k), ln):
                    lo = k
            for k in sorted(consts | {65535, 65536}):
                if fb.prove_le(F, ln, B.lin_const(k)):
                    hi = k
                    break
            r3.instance("%s: %s <= len <= %s at mbuf_set" % (f.qname, lo, hi))
            send_lo = lo if send_lo is None else min(send_lo, lo or 0)
            send_hi = hi if send_hi is None else max(send_hi, hi if hi is not None else 1 << 40)
        mm = t.slots.get("max_msg")
        if mm is not None and any(TP.mentions_field(f, x, "send_mbuf") for x in f.nodes if f.nodes[x]["k"] == "member"):
            for n in mm.nodes.values():
                if n["k"] == "return" and n.get("sub") is not None:
                    max_msgs.add(C.const_of(mm, n["sub"]))
    want = [(send_lo, send_hi)]
    if send_lo is None or send_hi is None or send_lo < 1:
        r3.violation("sender:range", "the send ops do not establish 1 <= len <= max at acceptance (lo=%s hi=%s)" % (send_lo, send_hi), loc=None)
    elif runs == want:
        r3.ok("receiver accepts exactly [%d, %d] = what the sender's guard lets through" % want[0], "exact case analysis, 32-bit wrap-around")
    else:
        r3.violation("mbuf_is_hdr_valid:accepted-set", "receiver accepts announced lengths %s but a correct sender only produces %s"
                     % (["[%d, %d]" % r for r in runs], "[%s, %s]" % want[0]), loc=hv.file)
    if max_msgs == {send_hi}:
        r3.ok("max_msg of the framing transports = %s" % send_hi)
    else:
        r3.violation("max_msg", "xcm.max_msg_size (%s) differs from the accepted maximum %s" % (sorted(max_msgs, key=str), send_hi), loc=None)
    # wire maximum leaves room
    wec = P.by_name["mbuf_wire_ensure_capacity"][0]
    wmax = None
    for n in wec.nodes.values():
        if n["k"] == "bin" and n["op"] == "<=" and "cv" in wec.nodes[wec.strip(n["r"])]:
            wmax = wec.nodes[wec.strip(n["r"])]["cv"]
    hdr = 4
    if wmax is not None and send_hi is not None and wmax >= send_hi + hdr:
        r3.ok("MBUF_WIRE_MAX (%d) >= header + maximum payload (%d)" % (wmax, send_hi + hdr))
    else:
        r3.violation("mbuf:wire-max", "wire maximum %s cannot hold header + maximum payload %s" % (wmax, send_hi), loc=wec.file)

    # ------------------------------------------------------------------ R1
    r1 = ctx.rule("C07.R1", "every write on the receive path is bounded (mbuf protocol)")
    eng.post["mbuf_wire_ensure_spare_capacity"] = mbuf_post_spare
    scope_files = ("tcp/xcm_tp_tcp.c", "tls/xcm_tp_tls.c", "tcp/xcm_tp_btcp.c", "tls/xcm_tp_btls.c")
    roots = []
    for t in tables:
        f = t.slots.get("receive")
        if f is not None and f not in roots and f.file.endswith(scope_files):
            roots.append(f)
    roots.append(P.fn("bio_btcp_read"))
    for f in roots:
        r1.instance(f.qname)
        v, c = f.params[1]["name"], f.params[2]["name"]
        eng.entry_contracts[f] = [(B.lin_term(c), B.lin_term("cap(%s)" % v))]
    r1.floor(5, "receive entry points")
    inscope = set()
    for f in roots:
        rq, unp = eng.analyse(f)
        for r in rq:
            if r.origin["fn"] in [g.name for g in P.functions if g.file.endswith(scope_files)]:
                r1.violation(r.origin["key"], "receive path: needs %s <= %s which nothing establishes from %s" % (B.show_lin(r.lhs), B.show_lin(r.rhs), f.name), loc=r.origin["loc"])
    scope_names = {g.name for g in P.functions if g.file.endswith(scope_files)}
    for f, (rq, unp) in eng.memo.items():
        for u in unp:
            if u["fn"] in scope_names and f.file.endswith(scope_files):
                r1.violation(u["key"], "receive path write not provably bounded: %s <= %s (in %s)" % (u["size"], u["cap"], f.name), loc=u["loc"])
    npr = 0
    for k, how, sz, cap in eng.sink_log:
        if how == "proved" and k.split(":")[0] in scope_names:
            npr += 1
            if len(r1.samples) < 6:
                r1.samples.append({"obligation": "%s: %s <= %s" % (k, sz, cap), "discharged_by": "difference facts / mbuf post-condition"})
    r1.obligations += npr
    r1.discharged += npr
    if npr < 8:
        raise Broken("C07.R1: only %d sinks proved on the receive path" % npr)
    # the structural facts of mbuf.h the post-condition rests on
    check_mbuf_structure(P, r1)
    # read into the cursor with the ensured size, appended with the result
    for f in P.functions:
        if not f.file.endswith(("tcp/xcm_tp_tcp.c", "tls/xcm_tp_tls.c")):
            continue
        for c in f.calls("xcm_tp_socket_receive"):
            n = f.nodes[c]
            dst = f.sn(n["args"][1])
            if not (dst["k"] == "call" and dst.get("callee") == "mbuf_wire_end"):
                continue
            r1.instance("%s: read at the write cursor" % f.qname)
            # appended(rc) follows on the rc > 0 path with the result variable
            app = [x for x in f.calls("mbuf_wire_appended")]
            ok = False
            for a in app:
                an = f.nodes[a]
                rcv = f.sn(an["args"][1])
                par = f.parents()
                x = c
                while x in par and f.nodes[par[x]]["k"] in ("cast", "paren"):
                    x = par[x]
                pn = f.nodes.get(par.get(x, -1))
                var = None
                if pn and pn["k"] == "decl":
                    var = [v["name"] for v in pn["vars"] if v.get("init") is not None and f.strip(v["init"]) == c]
                    var = var[0] if var else None
                elif pn and pn["k"] == "bin" and pn["op"] == "=":
                    var = f.sn(pn["l"]).get("name")
                if rcv.get("name") == var and var is not None:
                    fb = B.FnBounds(eng, f)
                    F = fb.before.get(a, B.Facts())
                    if fb.prove_le(F, B.lin_const(1), B.lin_term(var)):
                        ok = True
            if ok:
                r1.ok("%s: mbuf_wire_appended(result) on the result > 0 path" % f.qname, "facts")
            else:
                r1.violation("%s:appended" % f.name, "bytes read are not appended with the call's positive result", loc=f.loc(c))

    # ------------------------------------------------------------------ R5
    r5 = ctx.rule("C07.R5", "each lower-layer read requests exactly the missing part of the header / payload")
    check_read_lengths(P, eng, r5)

    # ------------------------------------------------------------------ R4
    r4 = ctx.rule("C07.R4", "the bad flag of the framing transports is only ever set to true, and tested before the sub-socket is used")
    for f in P.functions:
        for b, i, e, lhs, rhs, op in f.stores():
            flds = f.fields_of(lhs)
            if flds and flds[-1] == "bad" and f.file.endswith(("xcm_tp_tcp.c", "xcm_tp_tls.c")):
                r4.instance("%s:%s" % (f.qname, f.show(e)))
                if op == "=" and rhs is not None and C.const_of(f, rhs) == 1:
                    r4.ok("%s: bad = true" % f.qname)
                else:
                    r4.violation("%s:bad-reset" % f.name, "the sticky failure flag is modified with %s" % f.show(e), loc=f.loc(e))
    r4.floor(2, "stores to the bad flag")
    # ... and it is tested before the sub-socket is touched: a connection that failed (mid-frame) must answer with its
    # recorded reason and not resume reading the byte stream at an arbitrary offset
    from .C06 import BadFirst
    for t in tables:
        if t.proto not in ("tcp", "tls"):
            continue
        for slot in ("send", "receive", "finish"):
            f = t.slots[slot]
            r4.instance("%s.%s: sticky flag first" % (t.proto, slot))
            br = BadFirst(P, f, r4)
            S.run(br, f)
            if not br.viol:
                r4.ok("%s tests the sticky flag before using the sub-socket" % f.qname, "path exploration")

    # ------------------------------------------------------------------ R6
    r6 = ctx.rule("C07.R6", "a TLS protocol error drains OpenSSL's error queue on every path")
    pe = P.fn("process_ssl_event")
    r6.instance("process_ssl_event")
    dr = DrainRule(P, pe, r6)
    S.run(dr, pe)
    if dr.nproto < 2:
        raise Broken("C07.R6: protocol-error exits of process_ssl_event not found (%d)" % dr.nproto)
    from . import C02 as c02
    c02.check_store_queue_clean(P, r6)

    # ------------------------------------------------------------------ R7
    # the peer's certificate is wire input too: its fields (subject key identifier, names) are formatted for the log by
    # the verification callback whether or not logging is on
    r7 = ctx.rule("C07.R7", "fields of the peer's certificate are formatted within the buffers they are given")
    ctx.trust("hash_description(hash, n, buf) writes 3*n+1 bytes at buf (three characters per byte and the terminator; read off libxcm/tp/tls/log_tls.c)")
    engc = B.Engine(P)
    engc.ptr_index_stores = True
    nhd = 0
    for f in P.functions:
        if not f.file.startswith("libxcm/"):
            continue
        fb = None
        for c in f.calls("hash_description"):
            a = f.nodes[c]["args"]
            if len(a) < 3:
                continue
            nhd += 1
            r7.instance("%s: %s" % (f.qname, f.show(c)[:60]))
            fb = fb or B.FnBounds(engc, f)
            ln = fb.lin(a[1])
            cap = fb.capof(a[2])
            size = ({t: 3 * k for t, k in ln[0].items()}, 3 * ln[1] + 1) if ln is not None else None
            if size is not None and cap is not None and fb.prove_le(fb.before.get(c, B.Facts()), size, cap):
                r7.ok("%s: 3*%s+1 bytes fit %s" % (f.qname, f.show(a[1]), f.show(a[2])), "difference constraints")
            else:
                r7.violation("%s:hash_description(%s)" % (f.name, f.show(a[2])[:30]), "%s formats %s bytes of certificate data (3 per byte + 1) into %s, whose size does not "
                             "provably suffice: a peer whose certificate carries a longer field overruns the buffer during the handshake" % (f.name, f.show(a[1]), f.show(a[2])), loc=f.loc(c))
    for f in P.fns_in("tls/log_tls.c") + P.fns_in("tls/cert.c"):
        if f.name == "hash_description":
            continue
        rq, unp = engc.analyse(f)
        r7.instance(f.qname)
        for u in unp:
            r7.violation(u["key"], "certificate/log formatting: write not provably within bounds: %s <= %s (in %s)" % (u["size"], u["cap"], f.name), loc=u["loc"])
        for r in rq:
            lhs, rhs = B.show_lin(r.lhs), B.show_lin(r.rhs)
            pn = [p["name"] for p in f.params]
            if "cap(" in rhs and (lhs in pn or lhs.lstrip("-").isdigit() or any(lhs.startswith(x) for x in ("strlen(", "ASN1_STRING_length("))) and not f.static:
                continue        # the (buffer, capacity) contract of an exported helper, discharged at its callers below
            if not f.static:
                r7.violation(r.origin["key"], "certificate/log formatting: needs %s <= %s, which nothing establishes" % (lhs, rhs), loc=r.origin["loc"])
    if nhd < 1:
        raise Broken("C07.R7: no use of hash_description found")
    # the peer certificate's names are joined into one string for tls.peer_names
    from . import C10 as c10
    c10.check_join_size(P, r7)


def check_read_lengths(P, eng, r5):
    for f in P.functions:
        if not f.file.endswith(("tcp/xcm_tp_tcp.c", "tls/xcm_tp_tls.c")):
            continue
        # the function that performs the lower-layer read into the cursor
        readers = [c for c in f.calls("xcm_tp_socket_receive") if f.sn(f.nodes[c]["args"][1]).get("callee") == "mbuf_wire_end"]
        if not readers:
            continue
        ln = f.sn(f.nodes[readers[0]]["args"][2])
        if not (ln["k"] == "ref" and ln["dk"] == "param"):
            r5.violation("%s:len" % f.name, "read length is not the helper's length parameter", loc=f.loc(readers[0]))
            continue
        pidx = [i for i, p in enumerate(f.params) if p["name"] == ln["name"]][0]
        for g, call in P.callers().get(f, []):
            r5.instance("%s -> %s" % (g.qname, f.name))
            fb = B.FnBounds(eng, g)
            F = fb.before.get(call, B.Facts())
            a = g.nodes[call]["args"][pidx]
            al = fb.lin(a)
            good = None
            for tname in ("mbuf_hdr_left", "mbuf_payload_left"):
                for tt in list(F.terms()):
                    if tt.startswith(tname + "(") and al is not None and fb.prove_le(F, al, B.lin_term(tt)) and fb.prove_le(F, B.lin_term(tt), al):
                        good = tt
            if good:
                r5.ok("%s asks for %s" % (g.qname, good), "equality facts")
            else:
                r5.violation("%s:read-length" % g.name, "the length requested from the lower layer (%s) is not the missing part of the frame "
                             "(mbuf_hdr_left / mbuf_payload_left): bytes of the next frame can be consumed" % g.show(a), loc=g.loc(call))
    r5.floor(4, "lower-layer read sites")




def check_mbuf_structure(P, rule):
    wec = P.by_name["mbuf_wire_ensure_capacity"][0]
    rule.instance("mbuf_wire_ensure_capacity")
    good = False
    for b in wec.blocks.values():
        ev = [wec.nodes[e] for e in b.elems]
        for i, n in enumerate(ev):
            if n["k"] == "bin" and n["op"] == "=" and wec.fields_of(n["l"]) == ("wire_capacity",):
                capx = wec.show(wec.strip(n["r"]))
                for m in ev[:i]:
                    if m["k"] == "bin" and m["op"] == "=" and wec.fields_of(m["l"]) == ("wire_data",):
                        rn = wec.sn(m["r"])
                        if rn["k"] == "call" and rn.get("callee") in ("ut_realloc", "realloc") and wec.show(wec.strip(rn["args"][1])) == capx:
                            good = True
    guard = False
    for b in wec.blocks.values():
        if b.term and b.term.get("cond") is not None:
            t = wec.show(b.term["cond"])
            if "wire_capacity" in t and "<" in t:
                guard = True
    if good and guard:
        rule.ok("mbuf_wire_ensure_capacity reallocates wire_data to exactly the capacity it records, when the recorded one is smaller", "structural")
    else:
        rule.violation("mbuf_wire_ensure_capacity:realloc", "wire_capacity is recorded without reallocating wire_data to that size", loc=wec.file)
    # other writers of wire_capacity / wire_data
    for f in P.functions:
        for b, i, e, lhs, rhs, op in f.stores():
            fl = f.fields_of(lhs)
            if fl in (("wire_capacity",), ("wire_data",)) and f is not wec:
                v = C.const_of(f, rhs) if rhs is not None else None
                if not (f.name == "mbuf_init" and v == 0):
                    rule.violation("%s:%s" % (f.name, fl[0]), "mbuf storage is modified outside mbuf_wire_ensure_capacity", loc=f.loc(e))
    sp = P.by_name["mbuf_wire_ensure_spare_capacity"][0]
    rule.instance("mbuf_wire_ensure_spare_capacity")
    ok = False
    for c in sp.calls("mbuf_wire_ensure_capacity"):
        a = sp.show(sp.strip(sp.nodes[c]["args"][1]))
        if "wire_len" in a and "+" in a and sp.params[1]["name"] in a:
            ok = True
    if ok:
        rule.ok("spare capacity = wire_len + n is ensured")
    else:
        rule.violation("mbuf_wire_ensure_spare_capacity", "does not ensure wire_len + n", loc=sp.file)
    we = P.by_name["mbuf_wire_end"][0]
    rule.instance("mbuf_wire_end")
    ok = any(n["k"] == "return" and n.get("sub") is not None and "wire_data" in we.show(n["sub"]) and "wire_len" in we.show(n["sub"]) and "+" in we.show(n["sub"])
             for n in we.nodes.values())
    if ok:
        rule.ok("mbuf_wire_end = wire_data + wire_len")
    else:
        rule.violation("mbuf_wire_end", "write cursor is not wire_data + wire_len", loc=we.file)
