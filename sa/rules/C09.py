"""C09 - TLS never fails open (structural clauses; OpenSSL is trusted to
enforce what its flags say - the rules decide that XCM always says it).

R1  policy before handshake: every path of btls connect/accept that reaches
    the handshaking state has created the SSL object, called set_verify with
    the socket's own policy fields in the callee's parameter order, and -
    when peer-name verification is on - enabled hostname validation
    successfully.
R2  set_verify's decision table, decided exactly: the function is folded over
    all 16 combinations of its four booleans; the mode handed to
    SSL_set_verify and the flags handed to X509_VERIFY_PARAM_set_flags must
    equal the documented table.
R3  `ready` only after verification: the ready state is stored only on the
    success edge of the handshake and under tls.auth is followed by
    verify_peer_cert, every path of which either saw a certificate with
    X509_V_OK or stores bad/EPROTO.
R4  application data only in state ready: every SSL_read/SSL_write is reached
    only with the state known ready after the last possible state change.
R5  policy inheritance covers every policy field of the socket record.
R6  inconsistent policy is refused: no success path of finalize_tls_conf /
    enable_hostname_validation is consistent with a documented invalid
    combination; the refusals answer EINVAL; finalize precedes the context
    lookup in connect, server and accept.
R7  trust anchors and CRLs: load_ssl_ctx installs the trusted CAs iff given,
    CRLs iff given, PARTIAL_CHAIN only without CRLs; hostname flags contain
    NO_WILDCARDS and ALWAYS_CHECK_SUBJECT.
R8  an explicit tls.peer_names list is the whole set of acceptable names
    ("overrides the hostname"): a name is appended to the socket's list only
    on the edge where the list was absent (the host name of the address is a
    default, never an addition).
"""
from .. import cfg as C
from .. import interp as I
from .. import seq as S
from .. import summary as SUM
from .. import tp as TP
from ..model import Program
from ..report import Broken
from .C06 import enum_name

SSL_VERIFY_NONE, SSL_VERIFY_PEER, SSL_VERIFY_FAIL_IF_NO_PEER_CERT = 0, 1, 2
X509_V_FLAG_CRL_CHECK, X509_V_FLAG_CRL_CHECK_ALL, X509_V_FLAG_NO_CHECK_TIME, X509_V_FLAG_PARTIAL_CHAIN = 0x4, 0x8, 0x200000, 0x80000
X509_CHECK_FLAG_ALWAYS_CHECK_SUBJECT, X509_CHECK_FLAG_NO_WILDCARDS = 0x1, 0x2
EINVAL, EPROTO = 22, 71


def socket_of(fn, nid):
    """the socket parameter(s) an access path is rooted in: `bts->x` with `bts = TOBTLS(s)` and `TOBTLS(s)->x` both give {s}"""
    x = fn.strip(nid)
    while fn.nodes[x]["k"] in ("member", "index") or (fn.nodes[x]["k"] == "un" and fn.nodes[x]["op"] in ("*", "&")):
        m = fn.nodes[x]
        x = fn.strip(m["base"] if m["k"] in ("member", "index") else m["sub"])
    out, seen, work = set(), set(), [x]
    while work:
        y = fn.origin(work.pop())
        if y in seen:
            continue
        seen.add(y)
        for z in fn.walk(y):
            m = fn.nodes[z]
            if m["k"] == "ref" and m.get("dk") == "param":
                out.add(m["name"])
            elif m["k"] == "ref" and m.get("dk") == "local" and z != y and len(seen) < 40:
                work.append(z)      # the private-data macros go through statement-expression temporaries
    return frozenset(out)


class Handshake(S.SeqRule):
    """R1: user = (ssl_new, verify_ok, vpn, host call nid)"""

    def __init__(self, prog, root, rule, sv):
        super().__init__(prog)
        self.root, self.rule, self.sv = root, rule, sv
        self.nhs = 0
        self.bad = set()

    def user0(self, fn):
        return (False, False, None, None)

    def inline(self, fn, nid, callee):
        return False

    def on_branch(self, fn, st, blk, cond, label):
        if label not in ("T", "F"):
            return None
        l, op, r = C.cond_atom(fn, cond, label == "T")
        if fn.fields_of(l)[-1:] == ("verify_peer_name",) and isinstance(r, tuple):
            new, ver, vpn, host = st.user
            return (new, ver, op == "!=", host)
        return None

    def on_call(self, fn, st, nid, callees, exts):
        n = fn.nodes[nid]
        name = n.get("callee") or ""
        new, ver, vpn, host = st.user
        if name == "SSL_new":
            return (True, ver, vpn, host)
        if name == self.sv.name and len(self.sv.params) == 1:
            # the helper takes the socket's record and reads the policy fields itself: the record must be the one whose
            # connection is put into the handshaking state (checked at that store)
            return (new, ("record", socket_of(fn, n["args"][0])), vpn, host)
        if name == self.sv.name:
            # the four policy arguments are the socket's own fields, in the callee's parameter order
            ok = True
            for p, a in list(zip(self.sv.params, n["args"]))[1:]:
                fl = fn.fields_of(a)
                if fl[-1:] != (p["name"],):
                    ok = False
                    if "args" not in self.bad:
                        self.bad.add("args")
                        self.rule.violation("%s:set_verify:%s" % (self.root.name, p["name"]), "%s passes `%s` as the `%s` argument of %s: the handshake runs under a "
                                            "policy other than the socket's" % (self.root.name, fn.show(a), p["name"], self.sv.name), loc=fn.loc(nid))
            # ... of the socket the SSL object belongs to
            a0 = fn.apath(n["args"][0])[0]
            roots = {fn.apath(a)[0] for a in n["args"][1:]}
            if len(roots) != 1 or a0 not in roots:
                ok = False
                if "roots" not in self.bad:
                    self.bad.add("roots")
                    self.rule.violation("%s:set_verify:other-socket" % self.root.name, "%s configures the SSL object with policy fields of a different socket" % self.root.name, loc=fn.loc(nid))
            return (new, ok, vpn, host)
        if name == "enable_hostname_validation":
            return (new, ver, vpn, nid)
        return None

    def on_store(self, fn, st, nid, lhs, rhs, op):
        if rhs is None or fn.fields_of(lhs)[-1:] != ("state",) or enum_name(fn, rhs) != "conn_state_tls_handshaking":
            return None
        self.nhs += 1
        new, ver, vpn, host = st.user
        if isinstance(ver, tuple):
            if not ver[1] or ver[1] != socket_of(fn, lhs):
                if "roots" not in self.bad:
                    self.bad.add("roots")
                    self.rule.violation("%s:set_verify:other-socket" % self.root.name, "%s configures the SSL object with the policy of a different socket" % self.root.name, loc=fn.loc(nid))
                ver = False
            else:
                ver = True
        if not new or not ver:
            if "order" not in self.bad:
                self.bad.add("order")
                self.rule.violation("%s:handshake-without-policy" % self.root.name, "the TLS handshake is started on a path where %s" %
                                    ("no SSL object was created" if not new else "set_verify was not applied with the socket's policy"), loc=fn.loc(nid))
            return None
        if vpn is None:
            if "vpn" not in self.bad:
                self.bad.add("vpn")
                self.rule.violation("%s:peer-name-not-consulted" % self.root.name, "the handshake is started without tls.verify_peer_name having been consulted", loc=fn.loc(nid))
        elif vpn:
            okh = False
            if host is not None:
                c = st.get(("call", host))
                if c in (S.ZERO, S.NONNEG, S.POS):
                    okh = True
            if not okh and "host" not in self.bad:
                self.bad.add("host")
                self.rule.violation("%s:no-hostname-validation" % self.root.name, "with tls.verify_peer_name on, the handshake is started without hostname validation "
                                    "having been enabled successfully: any certificate of the trusted CA is accepted whatever its name", loc=fn.loc(nid))
            elif okh:
                self.rule.ok("%s: handshake with peer-name verification only after hostname validation was enabled" % self.root.name, "path exploration")
        else:
            self.rule.ok("%s: handshake after SSL_new and set_verify(socket's own policy)" % self.root.name, "path exploration")
        return None


def check_inheritance(P, bt, sv, r5):
    """policy inheritance server -> accepted connection (C09.R5; also run as C11.R9)"""
    rec = P.record("btls_socket")
    # policy fields: everything of the socket record that the policy functions read
    policy_readers = [sv, P.fn("finalize_tls_conf"), P.fn("enable_hostname_validation"), bt.slots["connect"], bt.slots["accept"]]
    cand = set()
    top_fields = {fl["name"]: (fl.get("type") or fl.get("t") or "") for fl in rec["fields"]}
    for f in policy_readers:
        for n in f.nodes.values():
            if n["k"] == "member" and n.get("record") == "btls_socket" and n["field"] in top_fields:
                t = top_fields[n["field"]]
                if t in ("_Bool", "bool") or t.startswith("struct item") or "slist" in t:
                    cand.add(n["field"])
    policy = sorted(x for x in cand if not x.endswith("_set"))
    if len(policy) < 9:
        raise Broken("C09.R5: only %d policy fields recognised: %s" % (len(policy), policy))
    inh = P.fn("inherit_tls_conf")
    covered = set()
    conditional = {}

    def copy_site(fld, blk_id):
        """the copy of a field must happen whatever the OTHER fields hold: it may depend on tests of the same field only
        (a list is cloned only if there is one)"""
        covered.add(fld)
        for b, cond in C.cond_blocks(inh):
            tested = {inh.nodes[x]["field"] for x in inh.walk(cond) if inh.nodes[x]["k"] == "member" and inh.nodes[x].get("field")}
            if tested and fld not in tested:
                tv, fv = C.only_via_edge(inh, b, "T"), C.only_via_edge(inh, b, "F")
                if blk_id in tv or blk_id in fv:
                    conditional[fld] = inh.show(cond)
    for b, i, e, lhs, rhs, op in inh.stores():
        ln = inh.sn(lhs)
        if ln["k"] == "member" and rhs is not None:
            srcs = {inh.nodes[x]["field"] for x in inh.walk(rhs) if inh.nodes[x]["k"] == "member" and inh.nodes[x].get("record") == "btls_socket"}
            if ln["field"] in srcs:
                copy_site(ln["field"], b.id)
    for c in inh.calls("item_copy"):
        a = inh.nodes[c]["args"]
        f0, f1 = inh.fields_of(a[0])[-1:], inh.fields_of(a[1])[-1:]
        if f0 == f1 and f0:
            copy_site(f0[0], inh.where()[c][0])
    for fld in policy:
        r5.instance("btls_socket.%s" % fld)
        if fld in covered and fld in conditional:
            r5.violation("inherit_tls_conf:%s:conditional" % fld, "policy field %s is inherited only when `%s` holds - a test of a different field: a server without that "
                         "setting hands its accepted connections the default of %s instead of its own" % (fld, conditional[fld], fld), loc=inh.file)
        elif fld in covered:
            r5.ok("%s is copied from the parent" % fld, "field coverage")
        else:
            r5.violation("inherit_tls_conf:%s" % fld, "policy field %s is not inherited from the server socket: accepted connections run with the default "
                         "instead of the server's setting" % fld, loc=inh.file)
    # init calls it for accepted sockets
    ini = bt.slots["init"]
    if not any(True for _ in ini.calls("inherit_tls_conf")):
        r5.violation("%s:no-inherit" % ini.name, "init does not inherit the parent's TLS configuration", loc=ini.file)


def run(ctx):
    P = Program(("libxcm",))
    ctx.analysed = {"units": len(P.units), "functions": len(P.functions)}
    ctx.explanation = ("Path exploration of the TLS connect/accept ops, exact folding of set_verify over all 16 policy combinations (the function's own "
                       "AST evaluated with recording stubs for the OpenSSL setters), control-dependence checks around the ready transition, typestate of "
                       "the connection state before SSL_read/SSL_write, field coverage of the policy inheritance, and path-fact analysis of the "
                       "consistency checks.")
    ctx.trust("OpenSSL enforces what SSL_set_verify / X509_VERIFY_PARAM flags / the trust store say; numeric values of the OpenSSL flag macros (stable ABI)")
    tables = TP.ops_tables(P)
    bt = [t for t in tables if t.proto == "btls"]
    if not bt:
        raise Broken("btls ops table not found")
    bt = bt[0]
    file = bt.slots["connect"].file
    sv = P.fn("set_verify")

    # ------------------------------------------------------------------ R1
    r1 = ctx.rule("C09.R1", "every SSL object gets the socket's own policy (and hostname validation when required) before the handshake starts")
    for slot in ("connect", "accept"):
        f = bt.slots[slot]
        r1.instance(f.qname)
        h = Handshake(P, f, r1, sv)
        S.run(h, f)
        if h.nhs < 1:
            raise Broken("C09.R1: no transition to the handshaking state in %s" % f.name)
    # nobody else starts a handshake
    for f in P.fns_in(file.split("/")[-1]):
        for b, i, e, lhs, rhs, op in f.stores():
            if rhs is not None and f.fields_of(lhs)[-1:] == ("state",) and enum_name(f, rhs) == "conn_state_tls_handshaking" and f not in (bt.slots["connect"], bt.slots["accept"]):
                r1.violation("%s:handshake-elsewhere" % f.name, "%s enters the handshaking state outside connect/accept" % f.name, loc=f.loc(e))
    n_new = sum(1 for f in P.functions for _ in f.calls("SSL_new"))
    if n_new != 2:
        r1.violation("SSL_new:sites", "%d SSL_new call sites (connect and accept expected): an SSL object created elsewhere would not get the policy" % n_new, loc=file)

    # ------------------------------------------------------------------ R2
    r2 = ctx.rule("C09.R2", "set_verify's decision table equals the documented one for all 16 policy combinations")
    names = [p["name"] for p in sv.params[1:]]
    POL = ["tls_client", "tls_auth", "check_crl", "check_time"]
    record_form = len(sv.params) == 1 and "*" in (sv.params[0].get("t") or "")
    if record_form:
        # the helper reads the four policy fields from the socket record it is given
        read = {n["field"] for n in sv.nodes.values() if n["k"] == "member"}
        if not set(POL) <= read:
            raise Broken("C09.R2: set_verify(record) does not read %s" % sorted(set(POL) - read))
    elif sorted(names) != sorted(POL):
        raise Broken("C09.R2: set_verify parameters are %s" % names)
    for mask in range(16):
        vals = {"tls_client": mask & 1, "tls_auth": (mask >> 1) & 1, "check_crl": (mask >> 2) & 1, "check_time": (mask >> 3) & 1}
        rec = {"mode": None, "flags": None}
        stubs = {
            "SSL_get0_param": lambda a: 1, "X509_VERIFY_PARAM_get_flags": lambda a: 0,
            "X509_VERIFY_PARAM_set_flags": lambda a, rec=rec: rec.__setitem__("flags", a[1]) or 1,
            "SSL_set_verify": lambda a, rec=rec: rec.__setitem__("mode", a[1]) or 0,
            "SSL_set_verify_depth": lambda a: 0,
        }
        it = I.Interp(P, stubs=stubs)
        it.record_calls = True
        try:
            if record_form:
                it.opaque_decls = True
                it.mem = {}
                it.fields = dict(vals, ssl=1)
                it.call(sv, [1])
            else:
                it.call(sv, [1] + [vals[nm] for nm in names])
        except I.Unsupported as e:
            raise Broken("C09.R2: set_verify cannot be folded (%s)" % e)
        want_mode = (SSL_VERIFY_PEER | (0 if vals["tls_client"] else SSL_VERIFY_FAIL_IF_NO_PEER_CERT)) if vals["tls_auth"] else SSL_VERIFY_NONE
        want_flags = ((X509_V_FLAG_CRL_CHECK | X509_V_FLAG_CRL_CHECK_ALL) if vals["check_crl"] else 0) | (0 if vals["check_time"] else X509_V_FLAG_NO_CHECK_TIME)
        got_flags = rec["flags"] or 0
        desc = ",".join("%s=%d" % (k, v) for k, v in vals.items())
        r2.instance(desc)
        if rec["mode"] is None:
            r2.violation("set_verify:%s:no-mode" % desc, "for %s SSL_set_verify is not called" % desc, loc=sv.file)
        elif rec["mode"] != want_mode:
            r2.violation("set_verify:%s:mode" % desc, "for %s the verify mode is %d, the documented policy needs %d (NONE=0, PEER=1, FAIL_IF_NO_PEER_CERT=2)"
                         % (desc, rec["mode"], want_mode), loc=sv.file)
        elif got_flags != want_flags:
            r2.violation("set_verify:%s:flags" % desc, "for %s the verification flags are 0x%x, the documented policy needs 0x%x (CRL_CHECK=0x4, CRL_CHECK_ALL=0x8, "
                         "NO_CHECK_TIME=0x200000)" % (desc, got_flags, want_flags), loc=sv.file)
        else:
            r2.ok("%s => mode %d, flags 0x%x" % (desc, want_mode, want_flags), "exact folding of the function over the combination")

    # ------------------------------------------------------------------ R3
    r3 = ctx.rule("C09.R3", "the connection becomes ready only on a successful handshake and, under tls.auth, only if the peer certificate verified")
    readyf = []
    for f in P.fns_in(file.split("/")[-1]):
        for b, i, e, lhs, rhs, op in f.stores():
            if rhs is not None and f.fields_of(lhs)[-1:] == ("state",) and enum_name(f, rhs) == "conn_state_ready":
                readyf.append((f, b, e))
    if len(readyf) < 1:
        raise Broken("C09.R3: no store of conn_state_ready in btls")
    vpc = P.fn("verify_peer_cert")
    for f, b, e in readyf:
        r3.instance("%s: ready" % f.qname)
        # (a) on the success edge of the handshake result
        okedge = False
        for bb, cond in C.cond_blocks(f):
            l, op, r = C.cond_atom(f, cond, True)
            c = C.const_of(f, r) if not isinstance(r, tuple) else None
            ln = f.sn(l)
            if ln["k"] == "ref" and c is not None:
                # variable holding the handshake result: assigned from an indirect/direct call of SSL_connect/SSL_accept
                src = [m for m in f.nodes.values() if m["k"] == "decl" and any(v["name"] == ln["name"] and v.get("init") is not None and f.sn(v["init"])["k"] == "call" for v in m["vars"])]
                if not src:
                    continue
                for lab in ("T", "F"):
                    holds = op if lab == "T" else {"<": ">=", ">=": "<", "<=": ">", ">": "<=", "==": "!=", "!=": "=="}[op]
                    success = (holds == ">=" and c >= 1) or (holds == ">" and c >= 0) or (holds == "==" and c == 1)
                    if success and b.id in C.only_via_edge(f, bb, lab):
                        okedge = True
        # (b) followed by verify_peer_cert under tls_auth
        okver = False
        for bb, cond in C.cond_blocks(f):
            if f.fields_of(C.cond_atom(f, cond, True)[0])[-1:] == ("tls_auth",):
                l_, op_, r_ = C.cond_atom(f, cond, True)
                tl = "T" if op_ == "!=" else "F"
                succ = [s_ for s_, lab in C.edges(f, bb) if lab == tl]
                has_call = lambda blk_id: any(f.nodes[x]["k"] == "call" and f.nodes[x].get("callee") == vpc.name for x in f.blocks[blk_id].elems)
                # on the tls.auth edge *every* path to the function's exit passes the certificate check
                if succ and C.must_pass(f, succ, has_call) and bb.id in C.reachable_blocks(f, b.id):
                    okver = True
        if okedge and okver:
            r3.ok("%s: ready only after handshake success; under tls.auth followed by the certificate check" % f.qname, "control dependence")
        else:
            r3.violation("%s:ready" % f.name, "ready is stored %s%s" % ("" if okedge else "not only on the success edge of the handshake; ",
                                                                         "" if okver else "without verify_peer_cert following under tls.auth"), loc=f.loc(e))
    r3.instance("verify_peer_cert")
    bad3 = []

    class Ver(S.SeqRule):
        def user0(s2, fn):
            return (None, None, False)      # cert non-null, result ok, marked bad

        def on_branch(s2, fn, st, blk, cond, label):
            if label not in ("T", "F"):
                return None
            cert, ok, bad = st.user
            l, op, r = C.cond_atom(fn, cond, label == "T")
            ln = fn.sn(l)
            c = r[1] if isinstance(r, tuple) else C.const_of(fn, r)
            if ln["k"] == "ref" and "X509" in (ln.get("t") or "") and c == 0:
                return (op == "!=", ok, bad)
            if ln["k"] == "ref" and c == 0 and (ln.get("t") or "") in ("int", "long"):
                src = [m for m in fn.nodes.values() if m["k"] == "decl" and any(v["name"] == ln["name"] and v.get("init") is not None and
                       fn.sn(v["init"]).get("callee") == "SSL_get_verify_result" for v in m["vars"])]
                if src:
                    return (cert, op == "==", bad)
            return None

        def on_store(s2, fn, st, nid, lhs, rhs, op):
            cert, ok, bad = st.user
            if rhs is not None and fn.fields_of(lhs)[-1:] == ("state",) and enum_name(fn, rhs) == "conn_state_bad":
                return (cert, ok, True)
            if rhs is not None and fn.fields_of(lhs)[-1:] == ("badness_reason",) and C.const_of(fn, rhs) != EPROTO and bad:
                bad3.append("reason")
            return None

        def on_exit(s2, fn, st, ret_nid, ret_cls, top):
            cert, ok, bad = st.user
            if not (cert is True and ok is True) and not bad:
                bad3.append("exit")
    S.run(Ver(P), vpc)
    if bad3:
        r3.violation("verify_peer_cert:fails-open", "verify_peer_cert has a path that neither saw (certificate present and X509_V_OK) nor marks the connection bad/EPROTO",
                     loc=vpc.file)
    else:
        r3.ok("verify_peer_cert: every path other than (certificate present, X509_V_OK) stores bad/EPROTO", "path exploration")

    # ------------------------------------------------------------------ R4
    r4 = ctx.rule("C09.R4", "application data is exchanged only in state ready")
    writers = set()
    for f in P.fns_in(file.split("/")[-1]):
        if any(f.fields_of(lhs)[-1:] == ("state",) for b, i, e, lhs, rhs, op in f.stores()):
            writers.add(f)
    changed = True
    while changed:
        changed = False
        for f in P.fns_in(file.split("/")[-1]):
            if f in writers:
                continue
            for c in f.calls():
                if any(d in writers for d in P.callees(f, c)[0]):
                    writers.add(f)
                    changed = True
                    break
    nio = 0
    for slot in ("send", "receive"):
        f = bt.slots[slot]
        r4.instance(f.qname)
        bad4 = []

        class Ready(S.SeqRule):
            def user0(s2, fn):
                return False

            def on_branch(s2, fn, st, blk, cond, label):
                if label in ("T", "F"):
                    l, op, r = C.cond_atom(fn, cond, label == "T")
                    if not isinstance(r, tuple) and fn.fields_of(l)[-1:] == ("state",) and enum_name(fn, r) == "conn_state_ready":
                        return op == "=="
                elif isinstance(label, tuple) and label[0] == "case" and fn.fields_of(cond)[-1:] == ("state",):
                    return label[2] == "conn_state_ready"
                return None

            def on_call(s2, fn, st, nid, callees, exts):
                nonlocal nio
                if "SSL_write" in exts or "SSL_read" in exts:
                    nio += 1
                    if not st.user:
                        bad4.append(nid)
                if any(d in writers for d in callees):
                    return False
                return None
        S.run(Ready(P), f)
        if bad4:
            r4.violation("%s:io-outside-ready" % f.name, "SSL_read/SSL_write is reached on a path where the connection is not known to be in state ready "
                         "(application data before the peer was verified)", loc=f.loc(bad4[0]))
        else:
            r4.ok("%s: SSL I/O only with the state known ready after the last state change" % f.qname, "path exploration")
    if nio < 2:
        raise Broken("C09.R4: SSL_read/SSL_write not found in the btls data ops")
    # and nowhere else
    for f in P.functions:
        for c in f.calls():
            if f.nodes[c].get("callee") in ("SSL_write", "SSL_read") and f not in (bt.slots["send"], bt.slots["receive"]):
                r4.violation("%s:ssl-io" % f.name, "%s performs SSL I/O outside the data ops" % f.name, loc=f.loc(c))

    # ------------------------------------------------------------------ R5
    r5 = ctx.rule("C09.R5", "policy inheritance (server -> accepted connection) covers every policy field")
    check_inheritance(P, bt, sv, r5)

    # ------------------------------------------------------------------ R6
    r6 = ctx.rule("C09.R6", "inconsistent policy combinations are refused with EINVAL before a context is looked up")
    fin = P.fn("finalize_tls_conf")
    ehv = P.fn("enable_hostname_validation")

    def success_paths(f):
        out = []
        fails = []

        class Facts(S.SeqRule):
            def user0(s2, fn):
                return frozenset()

            def on_branch(s2, fn, st, blk, cond, label):
                if label not in ("T", "F"):
                    return None
                l, op, r = C.cond_atom(fn, cond, label == "T")
                if not isinstance(r, tuple) and C.const_of(fn, r) != 0:
                    return None
                truth = (op == "!=")
                ln = fn.sn(l)
                key = None
                if ln["k"] == "member" and ln["field"]:
                    key = ln["field"]
                elif ln["k"] == "call" and ln.get("callee") == "item_is_set":
                    fl = fn.fields_of(ln["args"][0])
                    key = "item:" + fl[-1] if fl else None
                if key is None:
                    return None
                for k2, v2 in st.user:
                    if k2 == key and v2 != truth:
                        return C.DEAD       # the field was tested before on this path and has not been written since
                return frozenset(x for x in st.user if x[0] != key) | {(key, truth)}

            def on_store(s2, fn, st, nid, lhs, rhs, op):
                # clearing an inherited value changes the fact
                ln = fn.sn(lhs)
                if ln["k"] == "member" and ln["field"] and rhs is not None:
                    c = C.const_of(fn, rhs)
                    return frozenset(x for x in st.user if x[0] != ln["field"]) | ({(ln["field"], c != 0)} if c is not None else set())
                return None

            def on_call(s2, fn, st, nid, callees, exts):
                n = fn.nodes[nid]
                if n.get("callee") == "item_deinit":
                    fl = fn.fields_of(n["args"][0])
                    if fl:
                        return frozenset(x for x in st.user if x[0] != "item:" + fl[-1]) | {("item:" + fl[-1], False)}
                return None

            def on_exit(s2, fn, st, ret_nid, ret_cls, top):
                if not top:
                    return
                if ret_cls == S.ZERO:
                    out.append(dict(st.user))
                elif ret_cls == S.NEG:
                    fails.append((dict(st.user), st.efact))
        S.run(Facts(P), f)
        return out, fails
    combos = [
        (fin, {"tls_auth": False, "check_crl": True}, "CRL checking without authentication"),
        (fin, {"tls_auth": False, "item:tc": True, "tc_set": True}, "explicitly set trusted CAs without authentication"),
        (fin, {"check_crl": False, "item:crl": True, "crl_set": True}, "an explicitly set CRL without CRL checking"),
        (fin, {"verify_peer_name": False, "valid_peer_names": True, "valid_peer_names_set": True}, "explicitly set peer names without name verification"),
        (ehv, {"tls_auth": False}, "name verification without authentication"),
        (ehv, {"valid_peer_names": False}, "name verification without any name"),
    ]
    cache = {}
    for f, combo, what in combos:
        r6.instance("%s: %s" % (f.name, what))
        if f not in cache:
            cache[f] = success_paths(f)
        succ, fails = cache[f]
        if not succ:
            raise Broken("C09.R6: no success path explored in %s" % f.name)
        leak = [p for p in succ if not any(k in p and p[k] != v for k, v in combo.items())]
        if leak:
            r6.violation("%s:%s" % (f.name, "+".join("%s=%s" % kv for kv in sorted(combo.items()))),
                         "%s can succeed with %s (a success path tests none of the combination's conditions to the contrary)" % (f.name, what), loc=f.file)
        else:
            # a refusing path consistent with the combination must say EINVAL
            rej = [(p, e) for p, e in fails if all(p.get(k) == v for k, v in combo.items() if k in p) and any(k in p for k in combo)]
            if rej and all(e == ("eq", EINVAL) for p, e in rej):
                r6.ok("%s refuses %s with EINVAL" % (f.name, what), "path facts")
            elif not rej:
                r6.ok("%s: no success path is consistent with %s" % (f.name, what), "path facts")
            else:
                r6.violation("%s:%s:errno" % (f.name, what), "%s refuses %s with an errno other than EINVAL" % (f.name, what), loc=f.file)
    for slot in ("connect", "server", "accept"):
        f = bt.slots[slot]
        r6.instance("%s: finalize before the context lookup" % f.qname)
        bad6 = []

        class Ord(C.Rule):
            def initial(s2, fn):
                return False

            def elem(s2, fn, st, nid, blk, idx):
                n = fn.nodes[nid]
                if n["k"] == "call" and n.get("callee") == "finalize_tls_conf":
                    return True
                if n["k"] == "call" and n.get("callee") == "ctx_store_get_ctx" and not st:
                    bad6.append(nid)
                return None
        C.explore(f, Ord())
        if not list(f.calls("ctx_store_get_ctx")):
            raise Broken("C09.R6: %s does not look a context up" % f.name)
        if bad6:
            r6.violation("%s:ctx-before-finalize" % f.name, "the TLS context is looked up before the configuration was checked for consistency", loc=f.loc(bad6[0]))
        else:
            r6.ok("%s: finalize_tls_conf precedes ctx_store_get_ctx on every path" % f.qname, "path exploration")

    # ------------------------------------------------------------------ R7
    r7 = ctx.rule("C09.R7", "trust anchors iff given, CRLs iff given, partial chains only without CRLs; strict hostname flags")
    lc = P.fn("load_ssl_ctx")
    r7.instance("load_ssl_ctx")

    def guarded_by(f, call_name, param, want_label):
        for c in f.calls(call_name):
            wb = f.where()[c][0]
            for b, cond in C.cond_blocks(f):
                l, op, r = C.cond_atom(f, cond, True)
                ln = f.sn(l)
                if ln["k"] == "ref" and ln["name"] == param and (isinstance(r, tuple) or C.const_of(f, r) == 0):
                    lab = want_label if op == "!=" else ("F" if want_label == "T" else "T")
                    if wb in C.only_via_edge(f, b, lab) or wb == b.id:
                        return True
        return False
    ok_tc = guarded_by(lc, "install_tc", "tc_data", "T")
    ok_crl = guarded_by(lc, "install_crl", "crl_data", "T")
    # PARTIAL_CHAIN only when crl_data == NULL
    ok_pc = False
    for c in lc.calls("X509_STORE_set_flags"):
        if C.const_of(lc, lc.nodes[c]["args"][1]) == X509_V_FLAG_PARTIAL_CHAIN:
            wb = lc.where()[c][0]
            for b, cond in C.cond_blocks(lc):
                l, op, r = C.cond_atom(lc, cond, True)
                if lc.sn(l).get("name") == "crl_data":
                    lab = "T" if op == "==" else "F"
                    if wb in C.only_via_edge(lc, b, lab):
                        ok_pc = True
    if ok_tc and ok_crl and ok_pc:
        r7.ok("load_ssl_ctx installs trusted CAs and CRLs when given and allows partial chains only without CRLs", "control dependence")
    else:
        r7.violation("load_ssl_ctx:stores", "trusted CAs guarded=%s, CRLs guarded=%s, PARTIAL_CHAIN only without CRL=%s" % (ok_tc, ok_crl, ok_pc), loc=lc.file)
    # failure of either installation fails the context
    r7.instance("hostname flags")
    hv = None
    for c in ehv.calls("X509_VERIFY_PARAM_set_hostflags"):
        a = ehv.nodes[c]["args"][1]
        hv = C.const_of(ehv, a)
        if hv is None:
            an = ehv.sn(a)
            for m in ehv.nodes.values():
                if m["k"] == "decl":
                    for v in m["vars"]:
                        if v["name"] == an.get("name") and v.get("init") is not None:
                            hv = C.const_of(ehv, v["init"])
    want = X509_CHECK_FLAG_ALWAYS_CHECK_SUBJECT | X509_CHECK_FLAG_NO_WILDCARDS
    if hv is not None and (hv & want) == want:
        r7.ok("hostname validation: NO_WILDCARDS and ALWAYS_CHECK_SUBJECT", "constant flags")
    else:
        r7.violation("enable_hostname_validation:flags", "hostname flags are %s (NO_WILDCARDS|ALWAYS_CHECK_SUBJECT = 0x3 required)" % hv, loc=ehv.file)
    # the names handed to OpenSSL are the configured ones, after the default host was cleared
    if list(ehv.calls("X509_VERIFY_PARAM_set1_host")) and list(ehv.calls("X509_VERIFY_PARAM_add1_host")):
        r7.ok("the expected names are installed from the socket's list after clearing the default", "calls present")
    else:
        r7.violation("enable_hostname_validation:names", "the configured peer names are not handed to OpenSSL", loc=ehv.file)

    # ------------------------------------------------------------------ R8
    r8 = ctx.rule("C09.R8", "explicit tls.peer_names are the whole set of acceptable names: the address's host name is only a default")

    def absent(fn, cond):
        l, op, r = C.cond_atom(fn, cond, True)
        if fn.fields_of(l)[-1:] == ("valid_peer_names",) and (isinstance(r, tuple) and r[1] == 0 or (not isinstance(r, tuple) and C.const_of(fn, r) == 0)):
            return "T" if op == "==" else ("F" if op == "!=" else None)
        return None
    nadd = 0
    for f in P.fns_in(bt.slots["connect"].file.split("/")[-1]):
        for c in f.calls():
            n = f.nodes[c]
            if (n.get("callee") or "") in ("slist_append", "slist_append_all", "slist_insert") and n["args"] and f.fields_of(f.origin(n["args"][0]))[-1:] == ("valid_peer_names",):
                nadd += 1
                r8.instance("%s: %s" % (f.qname, f.show(c)[:60]))
                if SUM.guarded(P, f, c, absent):
                    r8.ok("%s adds a name only to a list it has just created (no explicit list was given)" % f.qname, "control dependence on `valid_peer_names == NULL`")
                else:
                    r8.violation("%s:peer-names-extended" % f.name, "%s appends to the socket's list of acceptable peer names also when the application supplied tls.peer_names: "
                                 "a certificate valid for the address's host name is accepted although the application asked for other names only" % f.name, loc=f.loc(c))
    if nadd < 1:
        raise Broken("C09.R8: no append to valid_peer_names found (the default from the address)")
    # ... and the set is never empty: an empty (non-NULL) list passes every `!= NULL` test, adds no host to OpenSSL's
    # verification parameters and thereby switches name verification off.  A list that comes from splitting the
    # application's string is stored only where its length was tested to be positive.
    nsplit = 0
    for f in P.fns_in(bt.slots["connect"].file.split("/")[-1]):
        for b, i, e, lhs, rhs, op in f.stores():
            if op != "=" or rhs is None or f.fields_of(lhs)[-1:] != ("valid_peer_names",):
                continue
            o = f.nodes[f.origin(rhs)]
            if not (o["k"] == "call" and o.get("callee") == "slist_split"):
                continue
            nsplit += 1
            r8.instance("%s: %s" % (f.qname, f.show(e)[:60]))
            var = f.nodes[f._strip0(rhs)]

            def nonempty(fn, cond):
                l, opx, r = C.cond_atom(fn, cond, True)
                ln = fn.sn(l)
                if ln["k"] == "call" and ln.get("callee") == "slist_len" and (isinstance(r, tuple) and r[1] == 0 or (not isinstance(r, tuple) and C.const_of(fn, r) == 0)):
                    a = fn.nodes[fn._strip0(ln["args"][0])]
                    if a["k"] == "ref" and a.get("did") == var.get("did"):
                        return "T" if opx in (">", "!=") else ("F" if opx in ("==", "<=") else None)
                return None
            if SUM.guarded(P, f, e, nonempty):
                r8.ok("%s stores the application's name list only when it is not empty" % f.qname, "control dependence on slist_len(...) > 0")
            else:
                r8.violation("%s:empty-peer-names" % f.name, "%s stores the list split from the application's string without testing that it holds a name: with "
                             "tls.peer_names=\"\" the list is empty but present, no host name is handed to OpenSSL and any certificate of the trusted CA is accepted "
                             "although tls.verify_peer_name is on" % f.name, loc=f.loc(e))
    if nsplit < 1:
        raise Broken("C09.R8: the setter that splits tls.peer_names was not found")

    # ------------------------------------------------------------------ R9
    from . import C18 as c18
    r9 = ctx.rule("C09.R9", "the handshake checks the peer against the trust anchors and revocation list of the socket itself, not of another socket")
    c18.check_ctx_args(P, r9)
    r10 = ctx.rule("C09.R10", "in a named network namespace the revocation list and trust anchors come from that namespace's files")
    c18.check_ns_templates(P, r10)
    r13 = ctx.rule("C09.R13", "an explicitly given revocation list / trust anchor set is marked as such by both of its setters: the policy check refuses it without the matching switch instead of dropping it")
    check_explicit_marks(P, r13)
    r12 = ctx.rule("C09.R12", "the revocation list and the trust anchors are read whole (= C18.R12)")
    c18.check_loader_reads_to_eof(P, r12)
    r11 = ctx.rule("C09.R11", "the inherited list of peer names is a complete copy: the string-list container keeps its count in step with its elements")
    check_slist_count(P, r11)


def check_slist_count(P, rule):
    """tls.peer_names travels from the server socket to every accepted connection as a clone of a string list.  The list
    is an element array plus a count, and every reader (slist_len, slist_get, slist_has, the hostname set-up) trusts the
    count: an element stored without the count being stored afterwards on the same path does not exist for them - a
    clone whose count stays 0 is an empty set of names, which the handshake reads as 'nothing to check'."""
    fns = [f for f in P.functions if f.file.endswith("common/slist.c")]
    if not fns:
        raise Broken("C09.R11: common/slist.c not analysed")
    nst = 0
    for f in sorted(fns, key=lambda g: g.name):
        def elem_store(fn, lhs):
            n = fn.nodes[fn._strip0(lhs)]
            if n["k"] == "index":
                b = fn.nodes[fn._strip0(n["base"])] if "base" in n else None
                if b is None:
                    for x in fn.walk(n["id"]):
                        if x != n["id"] and fn.nodes[x]["k"] == "member":
                            b = fn.nodes[x]
                            break
                return b is not None and b["k"] == "member" and b.get("field") == "elems"
            return False
        if not any(elem_store(f, lhs) for b, i, e, lhs, rhs, op in f.stores() if op == "="):
            continue
        nst += 1
        rule.instance(f.qname)
        bad = []

        class Count(S.SeqRule):
            max_depth = 1

            def user0(s2, fn):
                return False

            def inline(s2, fn, nid, callee):
                return callee.static and callee.file == f.file

            def on_store(s2, fn, st, nid, lhs, rhs, op):
                if op == "=" and elem_store(fn, lhs):
                    return True
                ln = fn.nodes[fn._strip0(lhs)]
                if ln["k"] == "member" and ln.get("field") == "len":
                    return False
                return None

            def on_exit(s2, fn, st, ret_nid, ret_cls, top):
                if top and st.user and not bad:
                    bad.append(ret_nid)
        S.run(Count(P), f)
        if bad:
            rule.violation("%s:element-without-count" % f.name, "%s can return after storing an element of a list without storing the list's count afterwards: readers go by the "
                           "count, so the element - for a clone, every inherited peer name - does not exist for them" % f.name,
                           loc=f.loc(bad[0]) if bad[0] is not None else f.file)
        else:
            rule.ok("%s: every element store is followed by a store of the count" % f.qname, "path exploration")
    if nst < 1:
        raise Broken("C09.R11: no element store found in slist.c")


def check_explicit_marks(P, rule):
    """finalize_tls_conf tells a CRL / trust-anchor item that was *given* to this socket (tls.crl without tls.check_crl:
    refused with EINVAL) from one merely inherited (dropped silently) by the marks crl_set / tc_set.  A setter that
    stores the item without the mark turns the application's explicit - and contradictory - configuration into a
    silent 'no revocation checking'.  The by-file and by-value setters of one item are siblings: both mention the mark
    (store it, or hand its address to the helper that does)."""
    from .C11 import registrations
    regs = registrations(P)
    rec = P.record("btls_socket")
    marks = {fl["name"] for fl in rec["fields"] if fl["name"].endswith("_set")}
    n = 0
    for x in ("tc", "crl"):
        mark = x + "_set"
        if mark not in marks:
            continue
        for an in ("tls.%s_file" % x, "tls.%s" % x):
            for (rf, c, sd, gd) in regs.get(an, []):
                if sd is None:
                    continue
                n += 1
                rule.instance("%s -> %s" % (an, sd.qname))
                if any(m["k"] == "member" and m.get("field") == mark for m in sd.nodes.values()):
                    rule.ok("%s records %s" % (sd.qname, mark), "field mention (store or address handed to the storing helper)")
                else:
                    rule.violation("%s:mark-not-set:%s" % (sd.name, mark), "%s stores %s without recording %s: given without its switch (tls.check_crl / tls.auth) the item is "
                                   "taken for an inherited one and dropped, so the socket runs without the revocation list or trust anchors the application supplied "
                                   "instead of being refused with EINVAL" % (sd.name, an, mark), loc=sd.file)
    if n < 4:
        raise Broken("C09.R13: only %d setters of tls.tc/tls.crl found" % n)
