"""C12 - address strings.

R1  truncation is detected: after every snprintf into a caller's buffer whose
    result decides success, the success return implies rc < capacity.
R2  port field: the strtol result is range-checked in its own width (no
    narrowing before the check), and the first character of the port is
    tested to be a digit (rejects empty, '+', '-').
R3  every write in the address makers/parsers and converters is bounded
    (E2); requirements that reach a public entry must be the documented
    (buffer, capacity) contract.
R4  every transport name is dispatched to the parser for that very name.
R5  UX makers reject names longer than the socket path limit first.
"""
import re

from .. import bounds as B
from .. import cfg as C
from ..model import Program
from ..report import Broken

FILES_FN = set()
FILES = ("core/xcm_addr.c", "core/xcm_addr_compat.c", "dns/xcm_dns.c", "common/common_tp.c")


def ptr(p):
    return (p.get("t") or "").rstrip().endswith("*")


def contract_ok(f, r):
    """is requirement r at public function f the documented contract?
    `<int param> <= cap(<pointer param>)` or `K <= cap(p)` with K <= sizeof(*p)"""
    if len(r.rhs[0]) != 1 or r.rhs[1] != 0:
        return False
    rt = list(r.rhs[0])[0]
    if not rt.startswith("cap(") or r.rhs[0][rt] != 1:
        return False
    pn = rt[4:-1]
    pp = [p for p in f.params if p["name"] == pn and ptr(p)]
    if not pp:
        return False
    if not r.lhs[0]:
        # constant: fits the pointee type?
        refs = [x for x in f.nodes.values() if x["k"] == "ref" and x.get("did") == pp[0]["did"] and "psz" in x]
        return bool(refs) and r.lhs[1] <= refs[0]["psz"]
    if len(r.lhs[0]) == 1 and r.lhs[1] == 0:
        lt = list(r.lhs[0])[0]
        ip = [p for p in f.params if p["name"] == lt and not ptr(p)]
        return bool(ip) and r.lhs[0][lt] == 1
    return False


def run(ctx):
    P = Program(("libxcm",))
    ctx.analysed = {"units": len(P.units), "functions": len(P.functions)}
    ctx.explanation = ("Bounded-write and value-range analysis of the address makers, parsers and converters (difference "
                       "constraints on the CFG, requirements lifted to the public entry points where only the documented "
                       "(buffer, capacity) contract is accepted), the snprintf truncation idiom decided from the facts on "
                       "the success return, and a dispatch-table agreement check.")
    ctx.trust("snprintf returns the untruncated length; strtol/inet_pton/inet_ntop per their man pages")
    eng = B.Engine(P)
    eng.ptr_index_stores = True          # `proto[proto_len] = 0` through the (buffer, capacity) parameters of the parsers
    eng.narrow_scope = lambda f: f.file.endswith("core/xcm_addr.c")
    roots = [f for fl in FILES for f in P.fns_in(fl) if not f.static]
    global FILES_FN
    FILES_FN = {f.name for fl in FILES for f in P.fns_in(fl)}

    # ------------------------------------------------------------------ R3
    r3 = ctx.rule("C12.R3", "every write of the address makers, parsers and converters is bounded; public entries need only the (buffer, capacity) contract")
    for f in roots:
        r3.instance(f.name)
    r3.floor(45, "public address functions")
    seen = set()
    api = P.api_symbols()
    # requirements of internal (non-exported) functions are obligations of
    # their callers inside the library: analyse those too
    work = list(roots)
    allroots = []
    done = set()
    while work:
        f = work.pop()
        if f in done:
            continue
        done.add(f)
        rq, unp = eng.analyse(f)
        if f.name in api or f.static:
            allroots.append(f)
            continue
        if rq:
            cs = [c for c, _ in P.callers().get(f, [])]
            if not cs:
                allroots.append(f)
            for c in cs:
                if c.static:
                    # climb to a non-static ancestor or stop at an unproved goal
                    work.append(c)
                else:
                    work.append(c)
    for f in allroots:
        rq, unp = eng.analyse(f)
        if f.static:
            continue        # its requirements were instantiated at its callers
        for r in rq:
            if contract_ok(f, r):
                r3.ok("%s: %s (caller's contract)" % (f.name, r), "documented contract")
                continue
            k = r.origin["key"] + "|" + f.name
            if k in seen:
                continue
            seen.add(k)
            r3.violation(r.origin["key"], "needs %s <= %s at public entry %s, which is not part of its contract (chain %s)"
                         % (B.show_lin(r.lhs), B.show_lin(r.rhs), f.name, " -> ".join(r.origin["chain"])), loc=r.origin["loc"])
    narrow = []
    for f, (rq, unp) in eng.memo.items():
        for u in unp:
            if not (f.file.endswith(FILES) or any(x in FILES_FN for x in u.get("chain", []))):
                continue
            if "narrowing" in u["key"]:
                narrow.append((f, u))
            else:
                r3.violation(u["key"], "write not provably within bounds: %s <= %s (in %s)" % (u["size"], u["cap"], f.name), loc=u["loc"])
    r3.obligations += eng.stats["proved"]
    r3.discharged += eng.stats["proved"]
    for k, how, sz, cap in eng.sink_log:
        if how == "proved" and len(r3.samples) < 8:
            r3.samples.append({"obligation": "%s: %s <= %s" % (k, sz, cap), "discharged_by": "difference facts"})
    if eng.stats["auto_lemma"]:
        r3.note("predicate lemmas derived from callee bodies: %d uses (xcm_dns_is_valid_name => strlen <= 253)" % eng.stats["auto_lemma"])

    # ------------------------------------------------------------------ R2
    r2 = ctx.rule("C12.R2", "port: strtol result range-checked before any narrowing; first character tested to be a digit")
    sites = []
    for f in P.fns_in("core/xcm_addr.c"):
        for c in f.calls():
            if f.nodes[c].get("callee") in ("strtol", "strtoll", "strtoul", "atoi"):
                sites.append((f, c))
    for f, c in sites:
        r2.instance("%s:%s" % (f.name, f.nodes[c]["callee"]))
    r2.floor(1, "strtol sites in xcm_addr.c")
    seen = set()
    for f, u in narrow:
        if u["key"] in seen:
            continue
        seen.add(u["key"])
        r2.violation(u["key"].split(" <=")[0].split(" >=")[0], "integer narrowed before its range is known: %s <= %s not established (in %s)" % (u["size"], u["cap"], f.name), loc=u["loc"])
    for f, c in sites:
        n = f.nodes[c]
        if n["callee"] == "atoi":
            r2.violation("%s:atoi" % f.name, "atoi cannot report errors", loc=f.loc(c))
            continue
        if not narrow:
            r2.ok("%s: result of %s keeps its width until range-checked" % (f.name, n["callee"]), "range facts at every narrowing conversion")
        start = f.sn(n["args"][0])
        if start["k"] != "ref":
            r2.violation("%s:strtol:start" % f.name, "cannot identify the parsed string", loc=f.loc(c))
            continue
        sname = start["name"]
        # success point: the store through the port out-parameter
        succ = [e for b, i, e, lhs, rhs, op in f.stores() if f.sn(lhs)["k"] == "un" and f.sn(lhs)["op"] == "*"
                and f.sn(f.sn(lhs)["sub"])["k"] == "ref" and f.sn(f.sn(lhs)["sub"])["dk"] == "param"]
        if not succ:
            raise Broken("C12.R2: success store of %s not found" % f.name)
        sb = f.where()[succ[-1]][0]
        dom = C.dominators(f)
        digit_test = False
        for b in dom[sb]:
            blk = f.blocks[b]
            if not blk.term or blk.term.get("cond") is None:
                continue
            cond = blk.term["cond"]
            txt = f.show(cond)
            has_digit = False
            for x in f.walk(cond):
                m = f.nodes[x]
                if m.get("mac") == "isdigit" or m.get("imac") == "isdigit" or (m["k"] == "call" and m.get("callee") == "isdigit"):
                    has_digit = True
            first = ("%s[0]" % sname) in txt or ("*%s" % sname) in txt
            if has_digit and first:
                # the failing edge must not reach the success store
                es = C.edges(f, blk)
                if any(sb not in C.reachable_blocks(f, s) for s, _ in es):
                    digit_test = True
        if digit_test:
            r2.ok("%s: first character of the port tested with isdigit before success" % f.name, "dominating test")
        else:
            r2.violation("%s:%s:first-char" % (f.name, n["callee"]), "no test that the first character of '%s' is a digit dominates the success exit: empty, '+N' and '-0' ports are accepted" % sname, loc=f.loc(c))

    # ------------------------------------------------------------------ R1
    r1 = ctx.rule("C12.R1", "truncation by snprintf is detected: success implies rc < capacity")
    for f in P.fns_in("core/xcm_addr.c"):
        fb = None
        for c in f.calls():
            n = f.nodes[c]
            if n.get("callee") not in ("snprintf", "vsnprintf"):
                continue
            dn = f.sn(n["args"][0])
            if not (dn["k"] == "ref" and dn["dk"] == "param"):
                continue
            r1.instance("%s:snprintf(%s)" % (f.name, dn["name"]))
            if fb is None:
                fb = B.FnBounds(eng, f)
            cap = fb.lin(n["args"][1])
            par = f.parents().get(c)
            # result variable
            rcvar = None
            x = c
            while x in f.parents() and f.nodes[f.parents()[x]]["k"] in ("cast", "paren"):
                x = f.parents()[x]
            pn = f.nodes.get(f.parents().get(x, -1))
            if pn and pn["k"] == "bin" and pn["op"] == "=":
                rcvar = fb.term(pn["l"])
            elif pn and pn["k"] == "decl":
                rcvar = [v["name"] for v in pn["vars"] if v.get("init") is not None and f.strip(v["init"]) == c][0:1]
                rcvar = rcvar[0] if rcvar else None
            if rcvar is None:
                r1.violation("%s:snprintf:unchecked" % f.name, "result of snprintf into the caller's buffer is not kept", loc=f.loc(c))
                continue
            wb, wi = f.where()[c]
            nsucc = 0
            for b in C.reachable_blocks(f, wb):
                for i, e in enumerate(f.blocks[b].elems):
                    m = f.nodes[e]
                    if m["k"] == "return" and m.get("sub") is not None and C.const_of(f, m["sub"]) == 0 and not (b == wb and i < wi):
                        nsucc += 1
                        F = fb.before.get(e, B.Facts())
                        if fb.prove_le(F, B.lin_add(B.lin_term(rcvar), B.lin_const(1)), cap):
                            r1.ok("%s: success return implies %s < %s" % (f.name, rcvar, B.show_lin(cap)), "facts on the success path")
                        else:
                            r1.violation("%s:snprintf:truncation" % f.name,
                                         "success is returned although %s < %s is not established: a truncated address can be reported as success"
                                         % (rcvar, B.show_lin(cap)), loc=f.loc(e))
                    elif m["k"] == "return" and m.get("sub") is not None and f.sn(m["sub"])["k"] == "call" and not (b == wb and i < wi):
                        # `return check_printed_len(rc, capacity);` - the truncation test lives in a helper of this file:
                        # its own success returns must imply <rc parameter> < <capacity parameter>
                        cn = f.sn(m["sub"])
                        for d in P.callees(f, cn["id"])[0]:
                            if not (d.static and d.file == f.file):
                                continue
                            ri = [k_ for k_, a in enumerate(cn["args"]) if fb.term(a) == rcvar or f.show(f.strip(a)) == rcvar]
                            ci = [k_ for k_, a in enumerate(cn["args"]) if fb.lin(a) is not None and fb.lin(a) == cap]
                            if len(ri) != 1 or len(ci) != 1 or max(ri[0], ci[0]) >= len(d.params):
                                continue
                            fbd = B.FnBounds(eng, d)
                            rp, cp = d.params[ri[0]]["name"], d.params[ci[0]]["name"]
                            for e2, m2 in d.nodes.items():
                                if m2["k"] == "return" and m2.get("sub") is not None and C.const_of(d, m2["sub"]) == 0:
                                    nsucc += 1
                                    if fbd.prove_le(fbd.before.get(e2, B.Facts()), B.lin_add(B.lin_term(rp), B.lin_const(1)), B.lin_term(cp)):
                                        r1.ok("%s: success of %s implies %s < %s" % (f.name, d.name, rp, cp), "facts on the helper's success path")
                                    else:
                                        r1.violation("%s:snprintf:truncation" % f.name, "%s reports success although %s < %s is not established: a truncated address "
                                                     "can be reported as success" % (d.name, rp, cp), loc=d.loc(e2))
            if nsucc == 0:
                raise Broken("C12.R1: no success return after snprintf in %s" % f.name)
    r1.floor(4, "snprintf sites into caller buffers")

    # ------------------------------------------------------------------ R4
    r4 = ctx.rule("C12.R4", "every transport name is dispatched to the parser of the same name")
    f = P.fn("is_valid_addr")

    def parser_proto(g, depth=0):
        """string literal a parser passes as protocol to the shared helper"""
        for c in g.calls():
            n = g.nodes[c]
            if n.get("callee") in ("host_port_parse", "addr_parse_ux_uxf") and n["args"]:
                a = g.sn(n["args"][0])
                if a["k"] == "str":
                    return a["v"]
        return None
    found = {}
    for b in f.blocks.values():
        if not b.term or b.term.get("cond") is None:
            continue
        l, op, r = C.cond_atom(f, b.term["cond"], True)
        ln = f.sn(l)
        if ln["k"] == "call" and ln.get("callee") == "strcmp" and op == "==" and C.const_of(f, r) == 0:
            lits = [f.sn(a)["v"] for a in ln["args"] if f.sn(a)["k"] == "str"]
            if len(lits) != 1:
                continue
            lit = lits[0]
            tsucc = [s for s, lab in C.edges(f, b) if lab == "T"]
            callee = None
            if tsucc:
                for e in f.blocks[tsucc[0]].elems:
                    m = f.nodes[e]
                    if m["k"] == "call" and (m.get("callee") or "").startswith("xcm_addr_parse_"):
                        callee = m["callee"]
            r4.instance("%s -> %s" % (lit, callee))
            if callee is None:
                r4.violation("is_valid_addr:%s" % lit, "transport '%s' is recognised but not parsed" % lit, loc=f.file)
                continue
            g = P.fn(callee)
            pl = parser_proto(g)
            found[lit] = pl
            if pl == lit:
                r4.ok("'%s' is validated by %s, which parses '%s'" % (lit, callee, pl), "literal agreement")
            else:
                r4.violation("is_valid_addr:%s" % lit, "transport '%s' is validated by %s, which parses '%s'" % (lit, callee, pl), loc=f.file)
    # registered transports are all covered
    regd = set()
    for g in P.functions:
        for c in g.calls("xcm_tp_register"):
            a = g.sn(g.nodes[c]["args"][0])
            if a["k"] == "str":
                regd.add(a["v"])
    missing = sorted(regd - set(found))
    if missing:
        r4.violation("is_valid_addr:missing", "registered transports without a validation branch: %s" % missing, loc=f.file)
    r4.floor(8, "transport names")

    # ------------------------------------------------------------------ R5
    r5 = ctx.rule("C12.R5", "UX/UXF makers reject names beyond the socket path limit before formatting")
    g = P.fn("addr_make_ux_uxf")
    fb = B.FnBounds(eng, g)
    name = g.params[1]["name"]
    done = False
    for c in g.calls("snprintf"):
        r5.instance("addr_make_ux_uxf:snprintf")
        F = fb.before.get(c, B.Facts())
        lim = 107
        if fb.prove_le(F, B.lin_term("strlen(%s)" % name), B.lin_const(lim)):
            r5.ok("strlen(%s) <= %d at the formatting call" % (name, lim), "guard facts")
        else:
            r5.violation("addr_make_ux_uxf:limit", "names longer than %d are not rejected before formatting" % lim, loc=g.loc(c))
        done = True
    if not done:
        raise Broken("C12.R5: anchor vanished")

    # ------------------------------------------------------------------ R6
    # agreement of siblings: what the parser accepts, the library's own callers (the validity predicates, the UX
    # transport) must be able to take - their scratch buffers are never the reason for a rejection
    r6 = ctx.rule("C12.R6", "the library's own callers of the name parsers pass buffers that hold every name the parser accepts")
    lim = {}          # parser function -> (index of the capacity parameter, largest accepted length K)
    nolimit = []      # parsers that copy out under the caller's capacity only
    for f in P.fns_in("core/xcm_addr.c"):
        K, capi = None, None
        for b, cond in C.cond_blocks(f):
            l, op, r = C.cond_atom(f, cond, True)
            ln = f.nodes[f.origin(l)] if not isinstance(l, tuple) else {"k": None}
            if not (ln["k"] == "call" and ln.get("callee") == "strlen") or isinstance(r, tuple):
                continue
            cv = C.const_of(f, r)
            rn = f.sn(r)
            if cv is not None and op in (">", ">=") and cv > 1:
                K = cv if op == ">" else cv - 1
            elif rn["k"] == "ref" and rn.get("dk") == "param" and op in (">=", ">"):
                capi = ([i for i, p in enumerate(f.params) if p["name"] == rn["name"]][0], 1 if op == ">=" else 0)
        if K is not None and capi is not None:
            lim[f] = (capi[0], K + capi[1])        # the capacity needed for the longest accepted name
        elif capi is not None and any(d.name == "proto_addr_parse" for c in f.calls() for d in P.callees(f, c)[0]):
            nolimit.append(f)
    if not lim and not nolimit:
        raise Broken("C12.R6: no parser with a name limit and a capacity parameter found")
    # wrappers that pass their own capacity parameter through
    changed = True
    while changed:
        changed = False
        for f in P.fns_in("core/xcm_addr.c"):
            if f in lim:
                continue
            for c in f.calls():
                for d in P.callees(f, c)[0]:
                    if d in lim and lim[d][0] < len(f.nodes[c]["args"]):
                        a = f.nodes[f.origin(f.nodes[c]["args"][lim[d][0]])]
                        if a["k"] == "ref" and a.get("dk") == "param":
                            lim[f] = ([i for i, p in enumerate(f.params) if p["name"] == a["name"]][0], lim[d][1])
                            changed = True
    nsite = 0
    for f in P.functions:
        for c in f.calls():
            for d in P.callees(f, c)[0]:
                if d not in lim or f in lim:
                    continue
                idx, need = lim[d]
                if idx >= len(f.nodes[c]["args"]):
                    continue
                cap = C.const_of(f, f.nodes[c]["args"][idx])
                if cap is None:
                    continue
                nsite += 1
                r6.instance("%s -> %s(capacity %d)" % (f.qname, d.name, cap))
                if cap >= need:
                    r6.ok("%s gives %s room for %d bytes; the longest accepted name needs %d" % (f.name, d.name, cap, need), "constant comparison")
                else:
                    r6.violation("%s:%s:buffer-smaller-than-limit" % (f.name, d.name), "%s hands %s a %d-byte buffer although the parser accepts names that need %d: an address every "
                                 "other function accepts (make, parse, server, connect) is rejected here" % (f.name, d.name, cap, need), loc=f.loc(c))
    if nsite < 4 and not nolimit:
        raise Broken("C12.R6: only %d internal call sites with a constant capacity" % nsite)

    # ------------------------------------------------------------------ R8
    # "names and addresses within the documented limits": the limits are the ones the makers enforce (R5: the socket
    # path limit for UX/UXF names) and the one the public header gives for DNS names (the name member of struct
    # xcm_addr_host holds the longest name plus the terminator).  Makers and parsers are siblings: a parser without
    # the maker's limit accepts, for callers with a large buffer, names no maker produces and no transport binds.
    r8 = ctx.rule("C12.R8", "parsers enforce the makers' and the header's name limits")
    for f in nolimit:
        r8.instance(f.qname)
        r8.violation("%s:no-name-limit" % f.name, "%s copies the name out under the caller's capacity only: the limit the maker enforces (R5) is not tested, so the "
                     "verdict on an over-long name depends on the size of the caller's buffer, and xcm_addr_is_valid accepts names that "
                     "xcm_addr_make_ux/uxf, xcm_server and xcm_connect refuse" % f.name, loc=f.file)
    uxp = [f for f in lim if "ux" in f.name and f.static]
    for f in uxp:
        K = lim[f][1] - 1
        r8.instance("%s: names up to %d" % (f.qname, K))
        if K == 107:
            r8.ok("%s accepts names up to %d, the limit of addr_make_ux_uxf" % (f.name, K), "sibling agreement")
        else:
            r8.violation("%s:name-limit-differs" % f.name, "%s accepts names up to %d, the maker up to 107" % (f.name, K), loc=f.file)
    if not uxp and not nolimit:
        raise Broken("C12.R8: the UX/UXF name parser was not found")
    host = P.record("xcm_addr_host")
    fields = list(host["fields"])
    for fl in host["fields"]:            # the members of the anonymous union, a record of its own in the facts
        m = re.search(r":(\d+):(\d+)\)$", fl.get("t") or "")
        if fl["name"] == "" and m:
            for u in P.units:
                for r_ in u.records:
                    if r_["name"] == "" and r_["loc"][1:] == [int(m.group(1)), int(m.group(2))]:
                        fields += r_["fields"]
                break
    doc = None
    for fl in fields:
        if fl.get("name") == "name" and fl.get("elt") == "char" and fl.get("alen"):
            doc = fl["alen"] - 1
    if doc is None:
        raise Broken("C12.R8: struct xcm_addr_host.name not found")
    dv = P.fn("xcm_dns_is_valid_name")
    Kd = None
    for b, cond in C.cond_blocks(dv):
        l, op, r = C.cond_atom(dv, cond, True)
        ln = dv.sn(l)
        if ln["k"] == "call" and ln.get("callee") == "strlen" and not isinstance(r, tuple):
            cv = C.const_of(dv, r)
            if cv is not None and op in (">", ">="):
                Kd = cv if op == ">" else cv - 1
    r8.instance("xcm_dns_is_valid_name: names up to %s; struct xcm_addr_host.name holds %d" % (Kd, doc))
    if Kd is None:
        r8.violation("xcm_dns_is_valid_name:no-length-limit", "the DNS name predicate has no length limit (the header documents %d)" % doc, loc=dv.file)
    elif Kd == doc:
        r8.ok("the DNS name predicate accepts names up to %d characters, what struct xcm_addr_host.name is documented and sized for" % Kd, "constant comparison")
    else:
        r8.violation("xcm_dns_is_valid_name:limit-differs-from-header", "the DNS name predicate accepts names up to %d characters, the public header documents and sizes "
                     "struct xcm_addr_host.name for %d: %s" % (Kd, doc, "valid names are refused by the parsers although the makers produce them" if Kd < doc else
                     "the parsers accept names the public record cannot hold"), loc=dv.file)

    # ------------------------------------------------------------------ R9
    # make and parse are inverses: what a maker prints for a number, the parser must read back as the same number.  A
    # conversion that narrows its argument (%hd of a uint16_t port prints 32768..65535 as negative numbers, which no
    # parser accepts) breaks that for half the range.  Every integer conversion of the makers' format strings must be
    # able to print every value of its argument's own type.
    r9 = ctx.rule("C12.R9", "the makers print numbers with a conversion that holds every value of the argument's type")
    nconv = 0
    for f in P.fns_in("core/xcm_addr.c"):
        for c in list(f.calls("snprintf")) + list(f.calls("sprintf")):
            args = f.nodes[c]["args"]
            fi = [i for i, a in enumerate(args) if f.sn(a)["k"] == "str"]
            if not fi:
                continue
            fmt = f.sn(args[fi[0]]).get("v") or ""
            rest = args[fi[0] + 1:]
            k = 0
            for m in re.finditer(r"%([-+ #0]*)(\*|\d+)?(?:\.(\*|\d+))?(hh|h|ll|l|j|z|t|L)?([diouxXcsp%])", fmt):
                if m.group(5) == "%":
                    continue
                k += (m.group(2) == "*") + (m.group(3) == "*")
                if k >= len(rest):
                    break
                a = f.sn(rest[k])
                k += 1
                if m.group(5) not in "diouxX":
                    continue
                nconv += 1
                r9.instance("%s: %%%s%s <- %s" % (f.qname, m.group(4) or "", m.group(5), f.show(a["id"])[:30]))
                asz, auns = a.get("sz") or 4, bool(a.get("uns"))
                csz = {"hh": 1, "h": 2, None: 4, "l": 8, "ll": 8, "j": 8, "z": 8, "t": 8}.get(m.group(4), 4)
                cuns = m.group(5) in "ouxX"
                # bits the conversion can show vs. bits the argument's type can hold
                fits = csz > asz or (csz == asz and cuns == auns)
                if fits:
                    r9.ok("%s: %%%s%s prints every %s" % (f.name, m.group(4) or "", m.group(5), a.get("t")), "type ranges")
                else:
                    r9.violation("%s:conversion-narrows:%s%s" % (f.name, m.group(4) or "", m.group(5)), "%s prints a %s with %%%s%s: values the conversion's type cannot hold come out "
                                 "as other (negative or truncated) numbers, which the parsers and xcm_addr_is_valid refuse - make and parse are no longer inverses"
                                 % (f.name, a.get("t"), m.group(4) or "", m.group(5)), loc=f.loc(c))
    if nconv < 3:
        raise Broken("C12.R9: only %d integer conversions in the makers' format strings" % nconv)

    # ------------------------------------------------------------------ R7
    # "accept only the documented syntax": no white space anywhere in an address.  White space is what isspace() says
    # (space, \\t, \\n, \\v, \\f, \\r) - the predicate that guards every parser either uses isspace on every character or
    # searches for a literal set that holds all six
    r7 = ctx.rule("C12.R7", "the white-space test in front of every parser covers all six C white-space characters")
    guard = None
    pap = P.fn("proto_addr_parse")
    for b, cond in C.cond_blocks(pap):
        cn = pap.sn(C.cond_atom(pap, cond, True)[0])
        if cn["k"] == "call":
            for d in P.callees(pap, cn["id"])[0]:
                if d.static and len(d.params) == 1 and "char" in (d.params[0].get("t") or "") and (d.ret or "").strip() in ("_Bool", "bool", "int"):
                    guard = d
    if guard is None:
        raise Broken("C12.R7: the white-space predicate guarding proto_addr_parse was not found")
    r7.instance(guard.qname)
    WS = set(" \\t\\n\\v\\f\\r".encode().decode("unicode_escape"))
    uses_isspace = any((n.get("mac") or n.get("imac")) == "isspace" or (n["k"] == "call" and n.get("callee") in ("isspace", "__ctype_b_loc")) for n in guard.nodes.values())
    sets = []
    for c in guard.calls():
        n = guard.nodes[c]
        if n.get("callee") in ("strpbrk", "strcspn", "strchr", "strspn") and len(n["args"]) > 1:
            a = guard.sn(n["args"][1])
            if a["k"] == "str":
                sets.append(set(a.get("v") or ""))
    if uses_isspace and not sets:
        r7.ok("%s classifies every character with isspace()" % guard.qname, "library predicate")
    elif sets and all(WS <= s_ for s_ in sets):
        r7.ok("%s searches for a set that holds all six white-space characters" % guard.qname, "literal set")
    else:
        missing = sorted(repr(ch) for s_ in sets for ch in WS - s_) if sets else ["(no isspace, no literal set)"]
        r7.violation("%s:white-space-set" % guard.name, "%s does not reject %s: addresses containing these characters are accepted by the parsers, the validity predicate and "
                     "xcm_server/xcm_connect" % (guard.name, ", ".join(missing)), loc=guard.file)
