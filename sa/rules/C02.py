"""C02 - byte-stream transports deliver exactly the accepted bytes, in order
(structural clauses; the prefix relation between the two ends' byte strings
over all schedules is not decided).

R1  return range and argument identity: the byte-stream send ops hand the
    caller's buffer and length unchanged to the lower layer and return its
    positive count; receive ops hand buffer and capacity unchanged and return
    the lower layer's count.
R2  OpenSSL write mode: every SSL object is switched to
    PARTIAL_WRITE|ACCEPT_MOVING_WRITE_BUFFER before the handshake starts.
R3  refused-send purity: a send op never answers -1/EAGAIN on a path where a
    callee that captures its input (SSL_write: the record is kept for the
    retry) was given the caller's bytes.
R5  the BIO below OpenSSL signals retry/EOF: flags cleared first, EAGAIN ->
    retry flag of the right direction, 0 -> EOF flag.
R6  the blocking byte-stream loop resumes at the right offset (C01.R2/R7
    engine on bytestream_bsend).
"""
from .. import bounds as B
from .. import cfg as C
from .. import seq as S
from .. import tp as TP
from ..model import Program
from ..report import Broken
from .C06 import enum_name

EAGAIN = 11
CAPTURING = {"SSL_write": "OpenSSL keeps the record it started for the retry (SSL_write(3): a retry must offer the same data)"}
BIO_FLAGS_READ, BIO_FLAGS_WRITE, BIO_FLAGS_SHOULD_RETRY, BIO_FLAGS_IN_EOF = 0x01, 0x02, 0x08, 0x800


def run(ctx):
    P = Program(("libxcm",))
    ctx.analysed = {"units": len(P.units), "functions": len(P.functions)}
    ctx.explanation = ("Argument-identity and return checks on the byte-stream data ops, path exploration with an effect model of the lower-layer "
                       "calls (which of them capture their input on failure) and errno facts at the exits, typestate on SSL object set-up, and "
                       "control-dependence checks on the custom BIO's callbacks.")
    ctx.trust("send(2) takes nothing when it fails; SSL_write that returns <= 0 with WANT_READ/WANT_WRITE has captured the record (OpenSSL documentation)")
    tables = TP.ops_tables(P)
    bs = [t for t in tables if not t.messaging and t.slots.get("send") is not None and t.proto in ("btcp", "btls")]
    if len(bs) != 2:
        raise Broken("byte-stream transports found: %s" % [t.proto for t in bs])

    # ------------------------------------------------------------------ R1
    r1 = ctx.rule("C02.R1", "byte-stream ops hand (buffer, length/capacity) unchanged to the lower layer and return its count")
    LOWER_SEND = {"send": (1, 2), "SSL_write": (1, 2)}
    LOWER_RECV = {"recv": (1, 2), "SSL_read": (1, 2)}
    for t in bs:
        for slot, table in (("send", LOWER_SEND), ("receive", LOWER_RECV)):
            f = t.slots[slot]
            r1.instance(f.qname)
            bufp, lenp = f.params[1]["name"], f.params[2]["name"]
            calls = [c for c in f.calls() if f.nodes[c].get("callee") in table]
            if len(calls) != 1:
                r1.violation("%s:lower-calls" % f.name, "%s makes %d lower-layer %s calls (exactly one expected: all-or-part of one call's buffer)" % (f.name, len(calls), slot), loc=f.file)
                continue
            c = calls[0]
            bi, li = table[f.nodes[c]["callee"]]
            a_b, a_l = f.sn(f.nodes[c]["args"][bi]), f.sn(f.nodes[c]["args"][li])
            if not (a_b["k"] == "ref" and a_b["name"] == bufp and a_l["k"] == "ref" and a_l["name"] == lenp):
                r1.violation("%s:args" % f.name, "%s passes (%s, %s) to %s instead of the caller's (%s, %s)" % (f.name, f.show(f.nodes[c]["args"][bi]), f.show(f.nodes[c]["args"][li]),
                                                                                                           f.nodes[c]["callee"], bufp, lenp), loc=f.loc(c))
                continue
            # positive returns are the lower layer's result
            holder = None
            par = f.parents().get(c)
            while par is not None and f.nodes[par]["k"] in ("cast", "paren"):
                par = f.parents().get(par)
            pn = f.nodes.get(par, {})
            if pn.get("k") == "decl":
                holder = [v["name"] for v in pn["vars"] if v.get("init") is not None][0]
            elif pn.get("k") == "bin" and pn["op"] == "=":
                holder = f.sn(pn["l"]).get("name")
            bad = []
            for n in f.nodes.values():
                if n["k"] == "return" and n.get("sub") is not None:
                    cv = C.const_of(f, n["sub"])
                    rv = f.sn(n["sub"])
                    if cv is not None and cv <= 0:
                        continue
                    if rv["k"] == "ref" and rv["name"] == holder:
                        continue
                    bad.append(n)
            if bad:
                r1.violation("%s:return" % f.name, "%s returns %s, which is not the lower layer's count" % (f.name, f.show(bad[0]["sub"])), loc=f.loc(bad[0]["id"]))
            else:
                r1.ok("%s: one %s(%s, %s) and its positive count is what is returned" % (f.qname, f.nodes[c]["callee"], bufp, lenp), "argument identity + return origin")

    # ------------------------------------------------------------------ R2
    r2 = ctx.rule("C02.R2", "every SSL object is in PARTIAL_WRITE|ACCEPT_MOVING_WRITE_BUFFER mode before the handshake starts")
    bt = [t for t in tables if t.proto == "btls"][0]
    for slot in ("connect", "accept"):
        f = bt.slots[slot]
        r2.instance(f.qname)
        bad2 = []
        nhs = [0]

        class Mode(C.Rule):
            def initial(s2, fn):
                return False

            def elem(s2, fn, st, nid, blk, idx):
                n = fn.nodes[nid]
                if n["k"] == "call" and n.get("callee") == "SSL_new":
                    return False
                if n["k"] == "call" and n.get("callee") in ("SSL_set_mode", "SSL_ctrl"):
                    vals = [C.const_of(fn, a) for a in n["args"][1:]]
                    if any(v is not None and (v & 3) == 3 for v in vals):
                        return True
                if n["k"] == "bin" and n["op"] == "=" and fn.fields_of(n["l"])[-1:] == ("state",) and enum_name(fn, n["r"]) == "conn_state_tls_handshaking":
                    nhs[0] += 1
                    if not st:
                        bad2.append(nid)
                return None
        C.explore(f, Mode())
        if nhs[0] < 1:
            raise Broken("C02.R2: no handshake start in %s" % f.name)
        if bad2:
            r2.violation("%s:mode" % f.name, "the handshake starts with the SSL object not in PARTIAL_WRITE|ACCEPT_MOVING_WRITE_BUFFER mode: a send resumed from another "
                         "buffer is a fatal OpenSSL error and a partly written record cannot be reported as 1..len", loc=f.loc(bad2[0]))
        else:
            r2.ok("%s: SSL_set_mode(PARTIAL_WRITE|ACCEPT_MOVING_WRITE_BUFFER) after SSL_new on every path to the handshake" % f.qname, "path exploration")

    # ------------------------------------------------------------------ R3
    r3 = ctx.rule("C02.R3", "a send refused with EAGAIN has not handed the caller's bytes to a callee that keeps them")
    for t in bs:
        f = t.slots["send"]
        r3.instance(f.qname)
        bad3 = []
        nag = [0]

        class Pure(S.SeqRule):
            def user0(s2, fn):
                return None

            def inline(s2, fn, nid, callee):
                return False

            def on_call(s2, fn, st, nid, callees, exts):
                for x in exts:
                    if x in CAPTURING:
                        return x
                return None

            def on_exit(s2, fn, st, ret_nid, ret_cls, top):
                if top and ret_cls == S.NEG and st.efact == ("eq", EAGAIN):
                    nag[0] += 1
                    if st.user is not None:
                        bad3.append((ret_nid, st.user))
        S.run(Pure(P), f)
        if nag[0] < 1:
            raise Broken("C02.R3: no EAGAIN exit explored in %s" % f.name)
        if bad3:
            r3.violation("%s:EAGAIN-after-%s" % (f.name, bad3[0][1]), "%s answers -1/EAGAIN after %s was given the caller's bytes (%s): the refused bytes go out "
                         "with the next call, whatever the application offers then" % (f.name, bad3[0][1], CAPTURING[bad3[0][1]]), loc=f.loc(bad3[0][0]))
        else:
            r3.ok("%s: every EAGAIN exit precedes any capturing call" % f.qname, "path exploration with an effect table")

    # ------------------------------------------------------------------ R5
    r5 = ctx.rule("C02.R5", "the BIO under OpenSSL clears its flags first and maps EAGAIN to the retry flag of its direction, end-of-stream to EOF")
    wcb = rcb = None
    for f in P.functions:
        for c in f.calls():
            n = f.nodes[c]
            if n.get("callee") == "BIO_meth_set_write" and len(n["args"]) > 1:
                wcb = P.resolve_direct(f, f.sn(n["args"][1]).get("name"))
            if n.get("callee") == "BIO_meth_set_read" and len(n["args"]) > 1:
                rcb = P.resolve_direct(f, f.sn(n["args"][1]).get("name"))
    if wcb is None or rcb is None:
        raise Broken("C02.R5: BIO read/write callbacks not found")
    for f, io, flag, what in ((wcb, "xcm_tp_socket_send", BIO_FLAGS_WRITE, "write"), (rcb, "xcm_tp_socket_receive", BIO_FLAGS_READ, "read")):
        r5.instance(f.qname)
        bad5 = []
        seen = {"retry": False, "io": False}

        class Bio(S.SeqRule):
            def user0(s2, fn):
                return (False, False, False)      # cleared, retry set, eof set

            def on_call(s2, fn, st, nid, callees, exts):
                n = fn.nodes[nid]
                cl, rt, eof = st.user
                name = n.get("callee") or ""
                if name == "BIO_clear_flags" and C.const_of(fn, n["args"][1]) is not None and (C.const_of(fn, n["args"][1]) & (flag | BIO_FLAGS_SHOULD_RETRY)) == (flag | BIO_FLAGS_SHOULD_RETRY):
                    return (True, False, eof)
                if name == "BIO_set_flags":
                    v = C.const_of(fn, n["args"][1])
                    if v is not None and (v & (flag | BIO_FLAGS_SHOULD_RETRY)) == (flag | BIO_FLAGS_SHOULD_RETRY):
                        return (cl, True, eof)
                    txt = fn.show(n["args"][1])
                    if (v is not None and v & BIO_FLAGS_IN_EOF) or "2048" in txt or "IN_EOF" in txt:
                        return (cl, rt, True)
                if name == io:
                    seen["io"] = True
                    if not cl:
                        bad5.append("the retry flags are not cleared before the lower-layer call")
                return None

            def on_exit(s2, fn, st, ret_nid, ret_cls, top):
                if not top:
                    return
                cl, rt, eof = st.user
                if ret_cls == S.NEG and st.efact == ("eq", EAGAIN):
                    seen["retry"] = True
                    if not rt:
                        bad5.append("EAGAIN from the lower layer is returned without the %s-retry flag: OpenSSL takes back-pressure for a fatal I/O error" % what)
                if what == "read" and ret_cls == S.ZERO and seen["io"] and not eof and st.get(("call", 0)) is None:
                    pass
        S.run(Bio(P), f)
        if not seen["io"]:
            raise Broken("C02.R5: %s does not call %s" % (f.name, io))
        if not seen["retry"]:
            # the exit's errno fact may be unknown when errno is only tested, not assigned: fall back to control dependence
            okcd = False
            for b, cond in C.cond_blocks(f):
                l, op, r = C.cond_atom(f, cond, True)
                if f.show(l) == "errno" and not isinstance(r, tuple) and C.const_of(f, r) == EAGAIN:
                    lab = "T" if op == "==" else "F"
                    for bb in C.only_via_edge(f, b, lab):
                        for e in f.blocks[bb].elems:
                            m = f.nodes[e]
                            if m["k"] == "call" and m.get("callee") == "BIO_set_flags":
                                v = C.const_of(f, m["args"][1])
                                if v is not None and (v & (flag | BIO_FLAGS_SHOULD_RETRY)) == (flag | BIO_FLAGS_SHOULD_RETRY):
                                    okcd = True
            if not okcd:
                bad5.append("no path sets the %s-retry flag on EAGAIN" % what)
        if bad5:
            r5.violation("%s:flags" % f.name, "%s: %s" % (f.name, bad5[0]), loc=f.file)
        else:
            r5.ok("%s: flags cleared before the call; EAGAIN sets the %s-retry flag" % (f.qname, what), "path exploration / control dependence")
    # end of stream on read
    r5.instance("%s: EOF" % rcb.qname)
    okeof = False
    for b, cond in C.cond_blocks(rcb):
        l, op, r = C.cond_atom(rcb, cond, True)
        c = r[1] if isinstance(r, tuple) else C.const_of(rcb, r)
        if rcb.sn(l)["k"] == "ref" and c == 0 and op in ("==", "!="):
            lab = "T" if op == "==" else "F"
            for bb in C.only_via_edge(rcb, b, lab):
                for e in rcb.blocks[bb].elems:
                    m = rcb.nodes[e]
                    if m["k"] == "call" and m.get("callee") == "BIO_set_flags" and ("2048" in rcb.show(m["args"][1]) or (C.const_of(rcb, m["args"][1]) or 0) & BIO_FLAGS_IN_EOF):
                        okeof = True
    if okeof:
        r5.ok("a 0 from the lower layer sets the BIO's EOF flag", "control dependence")
    else:
        r5.violation("%s:eof" % rcb.name, "end of stream from the lower layer is not flagged as EOF to OpenSSL", loc=rcb.file)

    # ------------------------------------------------------------------ R6
    r6 = ctx.rule("C02.R6", "the blocking byte-stream send loop resumes at the right offset and reports what was accepted")
    from .C01 import resume_rule
    eng = B.Engine(P)
    f = P.fn("bytestream_bsend")
    resume_rule(P, eng, r6, f)
    r6.floor(1, "resuming loops")
    # the offset grows only by what was accepted: never by the -1 of a refused attempt
    fb = B.FnBounds(eng, f)
    acc = [(e, lhs, rhs) for b, i, e, lhs, rhs, op in f.stores() if op == "+=" and f.sn(lhs)["k"] == "ref"]
    if not acc:
        raise Broken("C02.R6: accumulator of bytestream_bsend not found")
    for e, lhs, rhs in acc:
        v = fb.lin(rhs)
        if v is not None and fb.prove_le(fb.before.get(e, B.Facts()), B.lin_const(0), v):
            r6.ok("bytestream_bsend: the offset advances by %s only when it is >= 0" % f.show(rhs), "path facts")
        else:
            r6.violation("bytestream_bsend:negative-accumulate", "the offset is advanced by %s, which may be the -1 of a refused attempt: bytes already sent are sent again and the "
                         "stream shifts" % f.show(rhs), loc=f.loc(e))

    # ------------------------------------------------------------------ R7
    r7 = ctx.rule("C02.R7", "OpenSSL is never asked to write or read zero bytes: a zero-sized request is answered before it reaches SSL_write/SSL_read")
    eng7 = B.Engine(P)
    nio = 0
    btl = [t for t in TP.ops_tables(P) if t.proto == "btls"][0]
    for f in P.fns_in(btl.slots["send"].file.split("/")[-1]):
        fb = None
        for c in f.calls():
            n = f.nodes[c]
            if n.get("callee") != "SSL_write":
                continue
            nio += 1
            r7.instance("%s: %s" % (f.qname, f.show(c)[:50]))
            fb = fb or B.FnBounds(eng7, f)
            v = fb.lin(n["args"][2])
            if v is not None and fb.prove_le(fb.before.get(c, B.Facts()), B.lin_const(1), v):
                r7.ok("%s: SSL_write is reached only with a length >= 1" % f.qname, "difference constraints from the zero-length guard")
            else:
                r7.violation("%s:SSL_write-zero" % f.name, "SSL_write can be reached with a length of 0: with a record pending after a refused send OpenSSL treats the call as a "
                             "bad retry and the healthy stream is torn down (EPROTO); without one it is undefined in OpenSSL's API", loc=f.loc(c))
    if nio < 1:
        raise Broken("C02.R7: no SSL_write in the btls transport")

    # ------------------------------------------------------------------ R8
    # a healthy byte stream must not be classified broken because ANOTHER connection of the thread had a TLS error:
    # SSL_get_error() reads the thread's error queue first, so a protocol error must leave it drained (C07.R6's engine)
    from . import C07 as c07
    r8 = ctx.rule("C02.R8", "a TLS error on one connection leaves nothing on the thread's OpenSSL error queue that the next SSL_read/SSL_write of another stream would trip over")
    pe = P.fn("process_ssl_event")
    r8.instance(pe.qname)
    dr = c07.DrainRule(P, pe, r8)
    S.run(dr, pe)
    if dr.nproto < 2:
        raise Broken("C02.R8: protocol-error exits of process_ssl_event not found (%d)" % dr.nproto)
    check_store_queue_clean(P, r8)

    # ------------------------------------------------------------------ R9
    r9 = ctx.rule("C02.R9", "a graceful close stays graceful: a TLS server sends nothing after the handshake that a send-only peer never reads (session tickets off)")
    check_no_unread_records(P, r9)


def check_no_unread_records(P, rule):
    """Trusted model: a TLS 1.3 server sends NewSessionTicket records after the handshake unless the context's ticket
    count is 0; bytes left unread in a socket's receive queue turn its close(2) into a reset, and a reset makes the
    peer discard what it has not read yet.  XCM reads from the connection only when the application receives, so a
    client that only sends would reset the connection by closing it: the server loses the tail of the stream/messages."""
    makers = [f for f in P.fns_in("tls/ctx_store.c") if any(True for _ in f.calls("SSL_CTX_new"))]
    if len(makers) != 1:
        raise Broken("no-unread-records: the function creating the SSL_CTX was not found (%d candidates)" % len(makers))
    f = makers[0]
    rule.instance(f.qname)
    off = set()
    for c in f.calls("SSL_CTX_set_num_tickets"):
        if C.const_of(f, f.nodes[c]["args"][1]) == 0:
            off.add(f.where()[c][0])
    newb = [f.where()[c][0] for c in f.calls("SSL_CTX_new")]
    # every path from the creation to a successful return (a non-NULL context) passes the call
    succ_ret = set()
    for nid, n in f.nodes.items():
        if n["k"] == "return" and n.get("sub") is not None and C.const_of(f, n["sub"]) != 0:
            succ_ret.add(f.where()[nid][0])
    if not succ_ret:
        raise Broken("no-unread-records: no successful return in %s" % f.name)
    if off and C.must_pass(f, newb, lambda b: b in off, to_pred=lambda b: b in succ_ret):
        rule.ok("%s: every context is created with SSL_CTX_set_num_tickets(ctx, 0)" % f.qname, "must-pass between SSL_CTX_new and the successful return")
    else:
        rule.violation("%s:session-tickets" % f.name, "the TLS contexts are created without SSL_CTX_set_num_tickets(ctx, 0): a TLS 1.3 server sends session tickets after the "
                       "handshake (XCM never resumes sessions: the session cache is off); a client that only sends never reads them, its xcm_close() therefore "
                       "resets the connection, and the server loses bytes/messages it had not read yet although the sender flushed and closed gracefully", loc=f.file)


def check_store_queue_clean(P, rule):
    """the credential loaders read PEM objects until a read fails; that failing read leaves PEM_R_NO_START_LINE on the
    thread's OpenSSL error queue.  Every exit of a loader has drained the queue after its last failed read, or the
    next would-block SSL_read/SSL_write of ANY connection of the thread is taken for a protocol error."""
    n = 0
    for f in P.fns_in("tls/ctx_store.c"):
        if not any((f.nodes[c].get("callee") or "").startswith("PEM_read") for c in f.calls()):
            continue
        n += 1
        rule.instance(f.qname)
        dirty_exits = []

        def from_read(fn, st, x):
            m = fn.sn(x)
            if m["k"] == "call" and (m.get("callee") or "").startswith("PEM_read"):
                return True
            if m["k"] == "bin" and m["op"] == "=":
                return from_read(fn, st, m["r"])
            if m["k"] == "ref" and m.get("dk") == "local":
                o = fn.nodes[fn.origin(x)]
                if o["k"] == "call" and (o.get("callee") or "").startswith("PEM_read"):
                    return True
                # assigned in a loop condition or re-assigned: any assignment from a PEM read
                for mm in fn.nodes.values():
                    if mm["k"] == "bin" and mm["op"] == "=" and fn.sn(mm["l"]).get("did") == m.get("did") and fn.sn(mm["l"])["k"] == "ref":
                        r = fn.sn(mm["r"])
                        if r["k"] == "call" and (r.get("callee") or "").startswith("PEM_read"):
                            return True
            return False

        class Q(S.SeqRule):
            max_depth = 3

            def user0(s2, fn):
                return False

            def inline(s2, fn, nid, callee):
                return callee.file.endswith("log_tls.c")

            def on_branch(s2, fn, st, blk, cond, label):
                if label not in ("T", "F"):
                    return None
                l, op, r = C.cond_atom(fn, cond, label == "T")
                isnull = isinstance(r, tuple) and r[1] == 0 or (not isinstance(r, tuple) and C.const_of(fn, r) == 0)
                if isnull and from_read(fn, st, l):
                    return True if op == "==" else st.user
                return None

            def on_call(s2, fn, st, nid, callees, exts):
                if (fn.nodes[nid].get("callee") or "") in ("ERR_clear_error", "ERR_get_error"):
                    return False
                return None

            def on_exit(s2, fn, st, ret_nid, ret_cls, top):
                if top and st.user:
                    dirty_exits.append(ret_nid)
        S.run(Q(P), f)
        if dirty_exits:
            rule.violation("%s:error-queue-left" % f.name, "%s can return with the failed PEM read's error still on the thread's OpenSSL error queue: the next would-block "
                           "SSL_read/SSL_write on any other connection of this thread is classified SSL_ERROR_SSL and that healthy stream is torn down" % f.name,
                           loc=f.loc(dirty_exits[0]) if dirty_exits[0] else f.file)
        else:
            rule.ok("%s drains the error queue after the read that ends its loop" % f.qname, "path exploration")
    if n < 3:
        raise Broken("store-queue-clean: only %d PEM loaders found" % n)
