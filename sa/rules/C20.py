"""C20 - xcmrelay is transparent (structural necessary conditions only;
transparency, ordering and exactly-once across the two legs under
back-pressure are relations on run-time histories and are not decided).

R1  hold-one-message discipline of a forwarding direction: receive only when
    nothing is held; a received message is recorded with its length and the
    direction switches to awaiting output; after a send the held length is
    reduced by what was accepted, the direction switches back to input
    exactly when nothing is left, otherwise the rest is moved to the front.
R2  buffers and condition words: the receive capacity is the buffer's size;
    the two directions share the legs' condition words and touch them only
    with |= flag / &= ~flag, each direction using RECEIVABLE on its source
    and SENDABLE on its destination.
R3  termination is per relay: a direction's error/termination reaches only
    the callback of its own relay; the process exits only through the
    service-mismatch / fatal path.
R4  legs of equal service only: a relay is created only on the equal edge of
    the service comparison; every other exit after the accept closes what it
    opened.
R5  a leg is closed only after its pending output was finished.
"""
from .. import cfg as C
from .. import summary as SUM
from .. import seq as S
from ..model import Program
from ..report import Broken

RCV, SND = 1, 2


def run(ctx):
    P = Program(("xcmrelay",))
    ctx.analysed = {"units": len(P.units), "functions": len(P.functions)}
    ctx.explanation = ("Path exploration of the relay's forwarding functions (hold-one-message typestate), operator and constant checks on the shared "
                       "condition words, call-graph reachability of the termination callbacks and of exit(), ownership typestate in the accept path.")
    ctx.trust("libevent dispatches the registered callback for a readable descriptor; the XCM library honours its API (C01-C06)")
    if len(P.functions) < 20:
        raise Broken("xcmrelay units not extracted (%d functions)" % len(P.functions))
    act, snd, rcv = P.fn("xfwd_active"), P.fn("xfwd_send"), P.fn("xfwd_receive")

    # ------------------------------------------------------------------ R1
    r1 = ctx.rule("C20.R1", "a direction receives only when it holds nothing, records what it received, and releases exactly what was accepted")
    r1.instance(act.qname)
    # receive is control-dependent on data_len == 0, send on data_len != 0
    holder = None
    for n in act.nodes.values():
        if n["k"] == "decl":
            for v in n["vars"]:
                if v.get("init") is not None:
                    i = act.sn(v["init"])
                    if i["k"] == "bin" and i["op"] == "==" and act.fields_of(i["l"])[-1:] == ("data_len",) and C.const_of(act, i["r"]) == 0:
                        holder = v["name"]
    okr = oks = False
    for b, cond in C.cond_blocks(act):
        l, op, r = C.cond_atom(act, cond, True)
        ln = act.sn(l)
        is_empty_test = (ln["k"] == "ref" and ln["name"] == holder) or (act.fields_of(l)[-1:] == ("data_len",))
        if not is_empty_test:
            continue
        empty_lab = "T" if (ln["k"] == "ref" and op == "!=") or (ln["k"] != "ref" and op == "==") else "F"
        other = "F" if empty_lab == "T" else "T"
        for bb in C.only_via_edge(act, b, empty_lab):
            if any(act.nodes[x]["k"] == "call" and act.nodes[x].get("callee") == rcv.name for x in act.blocks[bb].elems):
                okr = True
        for bb in C.only_via_edge(act, b, other):
            if any(act.nodes[x]["k"] == "call" and act.nodes[x].get("callee") == snd.name for x in act.blocks[bb].elems):
                oks = True
    rcalls = [c for f in P.functions for c in f.calls(rcv.name)]
    if okr and oks and len(rcalls) == 1:
        r1.ok("receive is reached only with nothing held, send only with something held", "control dependence")
    else:
        r1.violation("xfwd_active:dispatch", "receive-only-when-empty=%s, send-only-when-holding=%s, receive call sites=%d: a message still held can be overwritten by the next "
                     "one received" % (okr, oks, len(rcalls)), loc=act.file)
    # receive: rc > 0 => data_len = rc, await_output
    r1.instance(rcv.qname)
    bad = []
    npos = [0]

    class Rcv(S.SeqRule):
        def user0(s2, fn):
            return (None, False, False)       # receive call, length recorded from its result, switched to output

        def inline(s2, fn, nid, callee):
            return False

        def on_call(s2, fn, st, nid, callees, exts):
            n = fn.nodes[nid]
            rc_, rec, sw = st.user
            if n.get("callee") == "xcm_receive":
                a = n["args"]
                cap = C.const_of(fn, a[2])
                if not (fn.fields_of(a[1])[-1:] == ("data",) and cap is not None):
                    bad.append("xcm_receive is not given (data, sizeof data)")
                else:
                    rec_ = [fl for fl in P.record("xfwd")["fields"] if fl["name"] == "data"][0]
                    t = rec_.get("type") or rec_.get("t") or ""
                    n_ = int(t[t.index("[") + 1:t.index("]")])
                    if cap > n_:
                        bad.append("receive capacity %d exceeds the buffer (%d)" % (cap, n_))
                return (nid, rec, sw)
            if n.get("callee") == "xfwd_await_output":
                return (rc_, rec, True)
            return None

        def on_store(s2, fn, st, nid, lhs, rhs, op):
            rc_, rec, sw = st.user
            if fn.fields_of(lhs)[-1:] == ("data_len",) and op == "=" and rhs is not None:
                rk = S.value_key(fn, rhs)
                src = st.get(("src", rk)) if isinstance(rk, str) else None
                if rc_ is not None and (src == ("call", rc_) or rk == ("call", rc_)):
                    return (rc_, True, sw)
                bad.append("data_len is set to %s, not to the result of the receive" % fn.show(rhs))
            return None

        def on_exit(s2, fn, st, ret_nid, ret_cls, top):
            rc_, rec, sw = st.user
            if top and rc_ is not None and st.get(("call", rc_)) == S.POS:
                npos[0] += 1
                if not (rec and sw):
                    bad.append("after a successful receive the length is recorded=%s and the direction switched to output=%s" % (rec, sw))
    S.run(Rcv(P), rcv)
    # the class of the call result is tracked through the local `rc`
    if bad:
        r1.violation("xfwd_receive:record", "xfwd_receive: %s" % bad[0], loc=rcv.file)
    else:
        r1.ok("a received message is recorded with its length and the direction switches to awaiting output", "path exploration")
    # send
    r1.instance(snd.qname)
    # the variable holding xcm_send's result
    rcv_ = None
    for n in snd.nodes.values():
        if n["k"] == "decl":
            for v in n["vars"]:
                if v.get("init") is not None and snd.sn(v["init"]).get("callee") == "xcm_send":
                    rcv_ = v["name"]
    dec = [(op, rhs) for b, i, e, lhs, rhs, op in snd.stores() if snd.fields_of(lhs)[-1:] == ("data_len",)]
    dec_ok = any(op == "-=" and snd.sn(rhs).get("name") == rcv_ for op, rhs in dec) and any(op == "=" and rhs is not None and C.const_of(snd, rhs) == 0 for op, rhs in dec) \
        and all((op == "-=" and snd.sn(rhs).get("name") == rcv_) or (op == "=" and C.const_of(snd, rhs) == 0) for op, rhs in dec)
    await_ok = False
    move_ok = False
    for b, cond in C.cond_blocks(snd):
        l, op, r = C.cond_atom(snd, cond, True)
        if snd.fields_of(l)[-1:] == ("data_len",) and not isinstance(r, tuple) and C.const_of(snd, r) == 0:
            zl = "T" if op == "==" else "F"
            nz = "F" if zl == "T" else "T"
            if any(snd.nodes[x]["k"] == "call" and snd.nodes[x].get("callee") == "xfwd_await_input" for bb in C.only_via_edge(snd, b, zl) for x in snd.blocks[bb].elems) and \
                    not any(snd.nodes[x]["k"] == "call" and snd.nodes[x].get("callee") == "xfwd_await_input" for bb in C.only_via_edge(snd, b, nz) for x in snd.blocks[bb].elems):
                await_ok = True
            for bb in C.only_via_edge(snd, b, nz):
                for x in snd.blocks[bb].elems:
                    m = snd.nodes[x]
                    if m["k"] == "call" and m.get("callee") == "memmove":
                        a = m["args"]
                        src = snd.sn(a[1])
                        from_rest = src["k"] == "bin" and src["op"] == "+" and snd.fields_of(src["l"])[-1:] == ("data",) and snd.sn(src["r"]).get("name") == rcv_
                        if snd.fields_of(a[0])[-1:] == ("data",) and from_rest and snd.fields_of(a[2])[-1:] == ("data_len",):
                            move_ok = True
    sarg_ok = all(snd.fields_of(snd.nodes[c]["args"][1])[-1:] == ("data",) and snd.fields_of(snd.nodes[c]["args"][2])[-1:] == ("data_len",) for c in snd.calls("xcm_send")) and list(snd.calls("xcm_send"))
    if dec_ok and await_ok and move_ok and sarg_ok:
        r1.ok("what was accepted is released; input is awaited exactly when nothing is left; the rest is moved to the front", "stores + control dependence")
    else:
        r1.violation("xfwd_send:release", "xfwd_send: sends (data, data_len)=%s, releases the accepted amount=%s, awaits input exactly at zero=%s, moves the rest to the front=%s"
                     % (bool(sarg_ok), dec_ok, await_ok, move_ok), loc=snd.file)

    # ------------------------------------------------------------------ R2
    r2 = ctx.rule("C20.R2", "the legs' condition words are only or-ed/and-not-ed with single flags; each direction uses RECEIVABLE on its source and SENDABLE on its destination")
    for name, want in (("add_condition", "|="), ("del_condition", "&=")):
        f = P.fn(name)
        r2.instance(f.qname)
        ops = [(op, f.show(rhs)) for b, i, e, lhs, rhs, op in f.stores() if f.sn(lhs)["k"] == "un"]
        # ... and what is awaited afterwards is the whole shared word, not the single flag
        whole = all(f.sn(f.nodes[c]["args"][1])["k"] == "un" and f.sn(f.nodes[c]["args"][1])["op"] == "*" and
                    f.sn(f.sn(f.nodes[c]["args"][1])["sub"]).get("name") == f.params[1]["name"] for c in f.calls("set_condition"))
        okk = len(ops) == 1 and ops[0][0] == want and (want == "|=" or "~" in ops[0][1]) and list(f.calls("set_condition")) and whole
        if okk:
            r2.ok("%s: *condition %s %s, then xcm_await with the whole word" % (name, want, ops[0][1]), "operator check")
        else:
            r2.violation("%s:operator" % name, "%s changes the shared condition word with %s and then awaits %s: the other direction's interest on the same leg is "
                         "clobbered (with traffic in both directions one of them stalls)" % (name, ops, [f.show(f.nodes[c]["args"][1]) for c in f.calls("set_condition")]), loc=f.file)
    for name, spec in (("xfwd_await_input", {("add_condition", "src", RCV), ("del_condition", "dst", SND)}), ("xfwd_await_output", {("add_condition", "dst", SND), ("del_condition", "src", RCV)})):
        f = P.fn(name)
        r2.instance(f.qname)
        got = set()
        for c in f.calls():
            n = f.nodes[c]
            if n.get("callee") in ("add_condition", "del_condition"):
                leg = "src" if "src" in f.show(n["args"][0]) else "dst"
                leg2 = "src" if "src" in f.show(n["args"][1]) else "dst"
                got.add((n["callee"], leg if leg == leg2 else "mixed", C.const_of(f, n["args"][2])))
        if got == spec:
            r2.ok("%s: %s" % (name, sorted(got)), "constant arguments")
        else:
            r2.violation("%s:bits" % name, "%s does %s (expected %s): the direction waits for the wrong event or on the wrong leg and stalls" % (name, sorted(got), sorted(spec)), loc=f.file)
    # the two directions are wired crosswise onto the two words
    xc = P.fn("xrelay_create")
    r2.instance(xc.qname)
    inits = [[xc.show(a).replace(" ", "") for a in xc.nodes[c]["args"]] for c in xc.calls("xfwd_init")]
    if len(inits) == 2 and inits[0][1] == inits[1][2] and inits[0][2] == inits[1][1] and inits[0][3] == inits[1][4] and inits[0][4] == inits[1][3] and inits[0][3] != inits[0][4]:
        r2.ok("direction 0 and 1 use the two connections and the two condition words crosswise", "argument agreement")
    else:
        r2.violation("xrelay_create:wiring", "the two directions are not wired crosswise: %s" % inits, loc=xc.file)

    # ------------------------------------------------------------------ R3
    r3 = ctx.rule("C20.R3", "a direction's termination concerns its own relay only; the process ends only through the fatal path")
    from .. import callgraph as CG
    tr = P.fn("rserver_terminate_relay")
    r3.instance(tr.qname)
    # it destroys exactly the relay it was called for
    okd = all(tr.sn(tr.nodes[c]["args"][0]).get("name") == tr.params[0]["name"] for c in list(tr.calls("xrelay_destroy")) + list(tr.calls("xrelay_stop"))) and list(tr.calls("xrelay_destroy"))
    ft = P.fn("xrelay_fwd_term")
    okc = all(ft.sn(ft.nodes[c]["args"][0]).get("name") in [v["name"] for n in ft.nodes.values() if n["k"] == "decl" for v in n["vars"]] for c in ft.calls() if not ft.nodes[c].get("callee"))
    if okd and okc:
        r3.ok("termination stops and destroys the relay it was reported for", "argument identity")
    else:
        r3.violation("terminate:relay", "the termination path acts on a relay other than the one that reported (destroy=%s, forward=%s)" % (okd, okc), loc=tr.file)
    roots = [act]
    reach, edges_of = CG.reach(P, roots)
    exits = [(f, e) for f, es in edges_of.items() for e, defs, exts in es for x in exts if x in ("exit", "_exit", "abort", "event_base_loopbreak", "event_base_loopexit")]
    r3.instance("exit from the forwarding path")
    if exits:
        r3.violation("xfwd_active->exit", "the forwarding path of one relay can end the process (%s)" % exits[0][0].name, loc=exits[0][0].loc(exits[0][1]))
    else:
        r3.ok("no exit()/loop break is reachable from a relay's forwarding callback (%d functions)" % len(reach), "call-graph reachability")

    # ------------------------------------------------------------------ R4
    r4 = ctx.rule("C20.R4", "a relay is created only for two legs of equal service; every other exit of the accept path closes what it opened")
    ra = P.fn("rserver_accept")
    r4.instance(ra.qname)
    bad4 = []
    ncreate = [0]

    class Acc(S.SeqRule):
        def user0(s2, fn):
            return (frozenset(), None, False)         # open connections (var names), service-equal known, relay created

        def inline(s2, fn, nid, callee):
            return False

        def on_elem(s2, fn, st, nid):
            n = fn.nodes[nid]
            if n["k"] == "decl":
                opened, eq, made = st.user
                for v in n["vars"]:
                    if v.get("init") is not None and fn.sn(v["init"]).get("callee") in ("xcm_accept_a", "xcm_connect_a", "xcm_accept", "xcm_connect"):
                        opened = opened | {v["name"]}
                return (opened, eq, made)
            return None

        def on_branch(s2, fn, st, blk, cond, label):
            if label not in ("T", "F"):
                return None
            opened, eq, made = st.user
            l, op, r = C.cond_atom(fn, cond, label == "T")
            ln = fn.sn(l)
            c = r[1] if isinstance(r, tuple) else C.const_of(fn, r)
            if ln["k"] == "ref" and ln["name"] in opened and c == 0 and op == "==":
                return (opened - {ln["name"]}, eq, made)
            if ln["k"] == "call" and ln.get("callee") == "strcmp" and c == 0 and "service" in fn.show(l):
                return (opened, op == "==", made)
            return None

        def on_call(s2, fn, st, nid, callees, exts):
            n = fn.nodes[nid]
            opened, eq, made = st.user
            name = n.get("callee") or ""
            if name == "xcm_close":
                return (opened - {fn.sn(n["args"][0]).get("name")}, eq, made)
            closed = set()
            for d in callees:
                if d.file.startswith("tools/xcmrelay/"):
                    for j in SUM.must_call_params(P, d, {"xcm_close"}):
                        if j < len(n["args"]):
                            closed.add(fn.sn(n["args"][j]).get("name"))
            if closed & opened:
                return (opened - closed, eq, made)         # a helper that closes its arguments on every path
            if name == "xrelay_create":
                ncreate[0] += 1
                if not eq:
                    bad4.append("a relay is created on a path where the two legs' services are not known equal")
                handed = {fn.sn(a).get("name") for a in n["args"][:2]}
                return (opened - handed, eq, True)
            return None

        def on_exit(s2, fn, st, ret_nid, ret_cls, top):
            opened, eq, made = st.user
            if top and opened:
                bad4.append("returns with %s still open and not handed to a relay" % sorted(opened))
    S.run(Acc(P), ra)
    if ncreate[0] < 1:
        raise Broken("C20.R4: xrelay_create not reached in rserver_accept")
    if bad4:
        r4.violation("rserver_accept:pairing", "rserver_accept: %s" % bad4[0], loc=ra.file)
    else:
        r4.ok("relay only on the equal edge of the service comparison; all other exits close both connections", "path exploration")

    # ------------------------------------------------------------------ R5
    r5 = ctx.rule("C20.R5", "a leg is closed only after its pending output was finished")
    xd = P.fn("xrelay_destroy")
    for c in xd.calls("xcm_close"):
        v = xd.sn(xd.nodes[c]["args"][0]).get("name")
        r5.instance("%s: xcm_close(%s)" % (xd.qname, v))
        fin = False
        for c2 in xd.calls():
            n2 = xd.nodes[c2]
            if n2.get("callee") in ("xcm_finish", "xcm_set_blocking") and xd.sn(n2["args"][0]).get("name") == v:
                fin = True
        # ... or the termination path finishes it before
        for f in (P.fn("rserver_terminate_relay"), P.fn("xfwd_handle_term"), P.fn("xrelay_stop"), P.fn("xfwd_stop")):
            if any(f.nodes[c2].get("callee") in ("xcm_finish", "xcm_set_blocking") for c2 in f.calls()):
                fin = True
        if fin:
            r5.ok("%s is finished before it is closed" % v, "calls on the termination path")
        else:
            r5.violation("xrelay_destroy:xcm_close(%s)-without-finish" % v, "when one side closes, the relay closes the other leg (%s) at once: a message it has already accepted "
                         "from the closing side but only partly written (back-pressure) is cut off - the far side sees the close before the last message" % v, loc=xd.loc(c))
    r5.floor(2, "closes of relayed legs")

    # ------------------------------------------------------------------ R6
    r6 = ctx.rule("C20.R6", "every socket the relay creates is non-blocking: the single event loop never waits for one connection")
    nb_maps = set()
    for f in P.functions:
        for c in f.calls("xcm_attr_map_add_bool"):
            a = f.nodes[c]["args"]
            nm = f.sn(a[1])
            if nm["k"] == "str" and nm.get("v") == "xcm.blocking" and C.const_of(f, a[2]) == 0:
                fl = f.fields_of(a[0])
                nb_maps.add(fl[-1] if fl else (f.name + ":" + (f.sn(a[0]).get("name") or "?")))
    ncre = 0
    for f in P.functions:
        if not f.file.startswith("tools/xcmrelay/"):
            continue
        for c in f.calls():
            n = f.nodes[c]
            if n.get("callee") in ("xcm_connect_a", "xcm_server_a"):
                ncre += 1
                r6.instance("%s: %s" % (f.qname, n["callee"]))
                fl = f.fields_of(n["args"][1])
                key = fl[-1] if fl else (f.name + ":" + (f.sn(n["args"][1]).get("name") or "?"))
                if key in nb_maps:
                    r6.ok("%s in %s gets an attribute map with xcm.blocking=false" % (n["callee"], f.name), "value origin of the map")
                else:
                    r6.violation("%s:%s:blocking" % (f.name, n["callee"]), "%s is called with %s, a map on which xcm.blocking=false is never set: the call blocks the relay's only "
                                 "thread (connect, TLS handshake, DNS) and every established relay freezes meanwhile" % (n["callee"], f.show(n["args"][1])), loc=f.loc(c))
            elif n.get("callee") in ("xcm_connect", "xcm_server", "xcm_accept"):
                ncre += 1
                r6.instance("%s: %s" % (f.qname, n["callee"]))
                if n["callee"] == "xcm_connect" and (C.const_of(f, n["args"][1]) or 0) & 1:
                    r6.ok("%s with XCM_NONBLOCK" % n["callee"], "constant flag")
                elif n["callee"] == "xcm_accept":
                    r6.ok("xcm_accept inherits the server socket's mode", "documented inheritance")
                else:
                    r6.violation("%s:%s:blocking" % (f.name, n["callee"]), "%s creates a blocking socket inside the event loop" % n["callee"], loc=f.loc(c))
    if ncre < 2:
        raise Broken("C20.R6: only %d socket-creating calls in the relay" % ncre)

    # ------------------------------------------------------------------ R7
    r7 = ctx.rule("C20.R7", "the length of a held run fits its variable: what xcm_receive may return (up to the buffer size) is stored without wrap-around")
    nrecv = 0
    for f in P.functions:
        if not f.file.startswith("tools/xcmrelay/"):
            continue
        for c in f.calls("xcm_receive"):
            cap = C.const_of(f, f.nodes[c]["args"][2])
            if cap is None:
                continue
            nrecv += 1
            # where does the result go?
            res = None
            par = f.parents().get(c)
            while par is not None and f.nodes[par]["k"] in ("cast", "paren"):
                par = f.parents().get(par)
            if par is not None and f.nodes[par]["k"] == "decl":
                res = [v for v in f.nodes[par]["vars"] if v.get("init") is not None and f.strip(v["init"]) == c]
                res = res[0] if res else None
            r7.instance("%s: xcm_receive(capacity %d)" % (f.qname, cap))
            if res is None:
                r7.violation("%s:result" % f.name, "the result of xcm_receive is not kept in a local", loc=f.loc(c))
                continue
            bad = None
            for b, i, e, lhs, rhs, op in f.stores():
                if rhs is None or op != "=":
                    continue
                rn = f.sn(rhs)
                if rn["k"] == "ref" and rn.get("did") == res["did"]:
                    ln = f.sn(lhs)
                    t = (ln.get("ct") or ln.get("t") or "")
                    sz = ln.get("sz") or 4
                    unsigned = t.startswith("unsigned") or t.startswith("uint") or t in ("size_t", "_Bool")
                    mx = (1 << (8 * sz)) - 1 if unsigned else (1 << (8 * sz - 1)) - 1
                    if mx < cap:
                        bad = (f.show(lhs), t, mx, e)
            if bad:
                r7.violation("%s:length-wraps" % f.name, "%s (%s, at most %d) receives the result of xcm_receive, which may be %d: a full buffer is recorded as a shorter - or empty - run, "
                             "the bytes are dropped and the direction stalls" % (bad[0], bad[1], bad[2], cap), loc=f.loc(bad[3]))
            else:
                r7.ok("%s: every variable the received length is stored in can hold %d" % (f.qname, cap), "type range vs. buffer size")
    if nrecv < 1:
        raise Broken("C20.R7: no xcm_receive with a constant capacity in the relay")

    # ------------------------------------------------------------------ R8
    # the XCM API's contract for the descriptor: when xcm_fd() is readable, the application calls send, receive,
    # finish (accept on a server socket).  A handler that returns without entering the library leaves the library's own
    # pending work (a partly flushed message, a handshake) undone while the level-triggered descriptor stays readable:
    # the held data never leaves and the loop spins
    r8 = ctx.rule("C20.R8", "every activation of a leg's descriptor enters the XCM library on every path of the handler")
    ENTER = ("xcm_send", "xcm_receive", "xcm_finish", "xcm_accept", "xcm_accept_a", "xcm_close")
    handlers = set()
    for f in P.functions:
        if not f.file.startswith("tools/xcmrelay/"):
            continue
        for c in f.calls():
            n = f.nodes[c]
            if n.get("callee") not in ("event_assign", "event_new") or len(n["args"]) < 5:
                continue
            cb = f.sn(n["args"][-2])
            if cb["k"] == "ref" and cb.get("dk") == "function":
                fdn = f.nodes[f.origin(n["args"][-4])]
                if fdn["k"] == "call" and fdn.get("callee") == "xcm_fd":
                    handlers.add(cb["name"])
    if len(handlers) < 2:
        raise Broken("C20.R8: only %d handlers registered on an xcm_fd() (%s)" % (len(handlers), sorted(handlers)))
    for hn in sorted(handlers):
        h = P.fn(hn)
        r8.instance(h.qname)
        bad = []

        class Enters(S.SeqRule):
            max_depth = 3

            def user0(s2, fn):
                return False

            def inline(s2, fn, nid, callee):
                return callee.file.startswith("tools/xcmrelay/")

            def on_call(s2, fn, st, nid, callees, exts):
                if any(x in ENTER for x in exts) or any(d.name in ENTER for d in callees):
                    return True
                return None

            def on_exit(s2, fn, st, ret_nid, ret_cls, top):
                if top and not st.user and not bad:
                    bad.append(ret_nid)
        S.run(Enters(P), h)
        if bad:
            r8.violation("%s:returns-without-entering-xcm" % h.name, "%s can return without calling send, receive, finish or accept on a connection: the library's pending work on "
                         "the active descriptor (the unflushed rest of a message, a handshake) is not done, the other side never gets the data and the "
                         "level-triggered descriptor keeps the loop busy" % h.name, loc=h.loc(bad[0]) if bad[0] is not None else h.file)
        else:
            r8.ok("%s: every path calls into the XCM library" % h.qname, "path exploration with the relay's helpers inlined")
