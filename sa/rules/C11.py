"""C11 - attribute values take effect and are inherited (structural clauses).

R1  option-struct equality compares every field with ==.
R2  effectuation covers every field: tcp_opts_effectuate passes each field of
    struct tcp_opts to a wrapper that hands a value derived from it to
    setsockopt; (level, option) pairs are pairwise distinct.
R3  store then apply: every tcp_set_<f> returns 0 only if the value was
    already stored, or it stored it and (no descriptor yet, or the matching
    wrapper succeeded); the attribute registered as tcp.<f> is served by the
    setter that stores <f> and the getter that reads <f>, on the socket's own
    options and descriptor.
R4  options are in force before `ready`: accept applies the connection's
    options to the new descriptor before the ready transition; connect
    completion reaches ready only if the options equal the snapshot applied
    by the tracker or were re-applied successfully; the tracker applies its
    snapshot before connect().
R5  creation-only attributes (the rows of xcm.h's attribute tables that say
    "Writable only ..."): every modification by their setter lies behind the
    state guard, and the guard's other edge answers EACCES; accept refuses
    connect-only attributes with EACCES before accept4().
R6  attributes are applied before the operation: in xcm_connect_a /
    xcm_server_a / xcm_accept_a set_attrs follows init and precedes
    connect/server/accept; defaults precede the user's map.
R7  xcm.service accepts only "any" or the socket's actual service;
    xcm.blocking's setter is xcm_set_blocking.
R8  inheritance: the accepted socket's init copies the scope from its
    parent; TLS policy inheritance covers every policy field.
"""
import os
import re

from .. import bounds as B
from .. import cfg as C
from .. import seq as S
from .. import tp as TP
from ..extract import REPO
from ..model import Program
from ..report import Broken
from .C06 import enum_name

EACCES, EINVAL = 13, 22


def doc_rows():
    """attribute rows of include/xcm.h: name -> description"""
    txt = open(os.path.join(REPO, "include/xcm.h"), errors="replace").read()
    rows = {}
    for m in re.finditer(r"^ \* ([a-z_0-9]+\.[a-z_0-9.]+)\s*\|[^|]*\|[^|]*\|\s*(RW|R|W)\s*\|(.*)$", txt, re.M):
        rows[m.group(1)] = (m.group(2), m.group(3))
    if len(rows) < 40:
        raise Broken("only %d attribute rows parsed from include/xcm.h" % len(rows))
    return rows


def registrations(P):
    """attribute name -> list of (registering fn, call nid, setter Function|None, getter Function|None)"""
    out = {}
    for f in P.functions:
        for c in f.calls("attr_tree_add_value_node"):
            n = f.nodes[c]
            a = f.sn(n["args"][1])
            if a["k"] != "str":
                continue
            s_, g_ = f.sn(n["args"][5]), f.sn(n["args"][6])
            sd = P.resolve_direct(f, s_["name"]) if s_["k"] == "ref" and s_.get("dk") == "function" else None
            gd = P.resolve_direct(f, g_["name"]) if g_["k"] == "ref" and g_.get("dk") == "function" else None
            out.setdefault(a["v"], []).append((f, c, sd, gd))
    return out


def field_accesses(f, record_param):
    """fields of `record_param->X` read in f"""
    out = set()
    for nid, n in f.nodes.items():
        if n["k"] == "member" and n["field"]:
            b = f.sn(n["base"])
            if b["k"] == "ref" and b["name"] == record_param:
                out.add(n["field"])
    return out


class GuardRule(S.SeqRule):
    """R5: user = frozenset of facts: 'init', 'resolving', 'notconn',
    'notcreated', 'nofd'; a modification needs an allowed fact"""
    max_depth = 3

    def __init__(self, prog, eng, root, rule, attr, allowed):
        super().__init__(prog)
        self.eng, self.root, self.rule, self.attr, self.allowed = eng, root, rule, attr, allowed
        self.nmut = 0
        self.guarded = 0
        self.eacces_exit = False
        self.reported = set()

    def user0(self, fn):
        return frozenset()

    def inline(self, fn, nid, callee):
        if callee is self.root:
            return False
        if callee.static and callee.file == self.root.file:
            return True
        # the common wrapper that dispatches xcm.local_addr to the transport
        return callee.name in ("xcm_tp_socket_set_local_addr",) or (callee.static and "set_local_addr" in callee.name)

    def on_branch(self, fn, st, blk, cond, label):
        if isinstance(label, tuple) and label[0] == "case":
            # switch (conn.state) { case conn_state_initialized: ... }
            fl = fn.fields_of(cond)
            if fl and fl[-1] == "state" and label[2] == "conn_state_initialized":
                return st.user | {"init"}
            if fl and fl[-1] == "state" and label[2] == "conn_state_resolving":
                return st.user | {"resolving"}
            if fl and fl[-1] == "type" and label[2] == "xcm_socket_type_server":
                return st.user | {"notconn"}
            return None
        if label not in ("T", "F"):
            return None
        l, op, r = C.cond_atom(fn, cond, label == "T")
        if isinstance(r, tuple):
            # truth value of a field, e.g. server.created
            fl = fn.fields_of(l)
            if fl and fl[-1] == "created":
                return st.user | ({"notcreated"} if op == "==" else set())
            return None
        fl = fn.fields_of(l)
        en = enum_name(fn, r)
        if fl and fl[-1] == "state" and en:
            if op == "==" and en == "conn_state_initialized":
                return st.user | {"init"}
            if op == "==" and en == "conn_state_resolving":
                return st.user | {"resolving"}
        if fl and fl[-1] == "type" and en == "xcm_socket_type_conn":
            if op == "!=":
                return st.user | {"notconn"}
        if fl and fl[-1] == "type" and en == "xcm_socket_type_server":
            if op == "==":
                return st.user | {"notconn"}
        return None

    def _mutation(self, fn, st, nid, what):
        self.nmut += 1
        if st.user & self.allowed:
            self.guarded += 1
            return
        k = (fn.name, what)
        if k in self.reported:
            return
        self.reported.add(k)
        self.rule.violation("%s:%s:unguarded" % (self.root.name, fn.name),
                            "attribute %s is documented as writable only at creation, but %s modifies the socket (%s) on a path "
                            "where the state is not known to be the initial one" % (self.attr, fn.name, what), loc=fn.loc(nid))

    def _is_state(self, fn, nid):
        p = fn.apath(nid)
        root = p[0]
        if root[0] != "var":
            return True
        rn = [m for m in fn.nodes.values() if m["k"] == "ref" and m.get("did") == root[1]]
        if not rn:
            return False
        dk = rn[0]["dk"]
        t = rn[0].get("t") or ""
        if dk in ("global", "static_local"):
            return True
        if len(p) == 1:
            return False
        if dk == "param":
            return "*" in t and ("*" in p[1:] or any(x not in ("&",) for x in p[1:]))
        # local: a pointer local (bts) dereferenced is state; a by-value local is not
        return t.rstrip().endswith("*")

    def on_store(self, fn, st, nid, lhs, rhs, op):
        if fn.show(lhs) == "errno":
            return None
        if self._is_state(fn, lhs):
            self._mutation(fn, st, nid, "store to %s" % fn.show(lhs))
        return None

    def on_call(self, fn, st, nid, callees, exts):
        n = fn.nodes[nid]
        name = n.get("callee") or ""
        if name.startswith("__") or name in B.PURE_EXT or name in ("strlen", "strcmp", "memcmp"):
            return None
        if any(self.inline(fn, nid, d) for d in callees):
            return None
        if self.eng.is_pure(fn, nid):
            return None
        for a in n["args"]:
            t = fn.nodes[a].get("t") or ""
            if not t.rstrip().endswith("*") or "const" in t.split("*")[0]:
                continue
            an = fn.sn(a)
            tgt = an["sub"] if an["k"] == "un" and an["op"] == "&" else a
            tn = fn.sn(tgt)
            if tn["k"] == "ref" and tn["dk"] == "param" and tn["name"] in ("s", "conn_s", "socket"):
                continue            # the socket handle itself handed to an accessor
            if tn["k"] == "ref" and tn["dk"] == "local" and not (tn.get("t") or "").rstrip().endswith("*"):
                continue            # address of a by-value local: scratch
            if tn["k"] in ("member", "index", "un") and self._is_state(fn, tgt) or (tn["k"] == "ref" and tn["dk"] == "param" and fn is not self.root):
                self._mutation(fn, st, nid, "%s(%s)" % (name or "call", fn.show(a)[:40]))
                break
        return None

    def on_exit(self, fn, st, ret_nid, ret_cls, top):
        if top and ret_cls == S.NEG and st.efact == ("eq", EACCES):
            self.eacces_exit = True


class StoreApply(S.SeqRule):
    """R3 on tcp_set_<f>(opts, fd, value): user = (equal, stored field, fd_neg, applied wrapper)"""

    def __init__(self, prog, root, rule, wrapper_of):
        super().__init__(prog)
        self.root, self.rule, self.wrapper_of = root, rule, wrapper_of
        self.optp, self.fdp, self.valp = [p["name"] for p in root.params[:3]]
        self.fields = set()
        self.zero_exits = 0

    def user0(self, fn):
        return (False, None, False, None)

    def on_branch(self, fn, st, blk, cond, label):
        if label not in ("T", "F"):
            return None
        eq, stored, fdneg, applied = st.user
        l, op, r = C.cond_atom(fn, cond, label == "T")
        if not isinstance(r, tuple):
            ln, rn = fn.sn(l), fn.sn(r)
            if ln["k"] == "member" and fn.sn(ln["base"]).get("name") == self.optp and rn.get("name") == self.valp and op == "==":
                return (ln["field"], stored, fdneg, applied)
            if ln["k"] == "ref" and ln["name"] == self.fdp and C.const_of(fn, r) == 0 and op == "<":
                return (eq, stored, True, applied)
        return None

    def on_store(self, fn, st, nid, lhs, rhs, op):
        eq, stored, fdneg, applied = st.user
        ln = fn.sn(lhs)
        if ln["k"] == "member" and fn.sn(ln["base"]).get("name") == self.optp and op == "=":
            rn = fn.sn(rhs)
            if rn["k"] == "ref" and rn["name"] == self.valp:
                self.fields.add(ln["field"])
                return (eq, ln["field"], fdneg, applied)
            self.rule.violation("%s:stores-other" % fn.name, "%s stores %s instead of the new value" % (fn.name, fn.show(rhs)), loc=fn.loc(nid))
        return None

    def on_call(self, fn, st, nid, callees, exts):
        eq, stored, fdneg, applied = st.user
        n = fn.nodes[nid]
        for d in callees:
            if d in self.wrapper_of.values():
                a0, a1 = fn.sn(n["args"][0]), fn.sn(n["args"][1])
                if a0.get("name") == self.fdp and a1.get("name") == self.valp:
                    return (eq, stored, fdneg, (d.name, nid))
        return None

    def on_exit(self, fn, st, ret_nid, ret_cls, top):
        if not top or ret_cls != S.ZERO:
            return
        self.zero_exits += 1
        eq, stored, fdneg, applied = st.user
        if eq and not stored:
            self.rule.ok("%s: unchanged value => 0 without side effects" % fn.name, "path exploration")
            return
        if not stored:
            self.rule.violation("%s:success-without-store" % fn.name, "%s reports success on a path that does not store the value" % fn.name, loc=fn.loc(ret_nid))
            return
        if fdneg:
            self.rule.ok("%s: no descriptor yet: %s stored for later effectuation" % (fn.name, stored), "path exploration")
            return
        w = self.wrapper_of.get(stored)
        if applied and w is not None and applied[0] == w.name and st.get(("call", applied[1])) not in (S.NEG,):
            self.rule.ok("%s: %s stored and applied through %s" % (fn.name, stored, w.name), "path exploration")
        else:
            self.rule.violation("%s:success-without-apply" % fn.name,
                                "%s reports success with a live descriptor although %s was not applied through %s (applied: %s)"
                                % (fn.name, stored, w.name if w else "?", applied), loc=fn.loc(ret_nid))


class ReadyRule(S.SeqRule):
    """R4: user = (equal known, effectuate call nid)"""

    def __init__(self, prog, root, rule, desc):
        super().__init__(prog)
        self.root, self.rule, self.desc = root, rule, desc
        self.nready = 0

    def user0(self, fn):
        return (False, None)

    def inline(self, fn, nid, callee):
        # a helper of the same file that holds (part of) the completion: stores the state or applies the options
        return (callee.static and callee.file == self.root.file and callee is not self.root
                and (any(callee.fields_of(lhs)[-1:] == ("state",) for b, i, e, lhs, rhs, op in callee.stores())
                     or any(True for _ in callee.calls("tcp_opts_effectuate"))))

    def on_branch(self, fn, st, blk, cond, label):
        if label not in ("T", "F"):
            return None
        l, op, r = C.cond_atom(fn, cond, label == "T")
        ln = fn.sn(l)
        if ln["k"] == "call" and ln.get("callee") == "tcp_opts_equal" and isinstance(r, tuple):
            if op == "!=":
                return (True, st.user[1])
        return None

    def on_call(self, fn, st, nid, callees, exts):
        n = fn.nodes[nid]
        if n.get("callee") == "tcp_opts_effectuate":
            return (st.user[0], nid)
        return None

    def _ok_result(self, st, nid):
        c = st.get(("call", nid))
        if c in (S.ZERO, S.NONNEG, S.POS):
            return True
        for k, v in st.vals:
            if isinstance(k, tuple) and k[0] == "src" and v == ("call", nid):
                if st.get(k[1]) in (S.ZERO, S.NONNEG, S.POS):
                    return True
        return False

    def on_store(self, fn, st, nid, lhs, rhs, op):
        fl = fn.fields_of(lhs)
        if fl and fl[-1] == "state" and rhs is not None and enum_name(fn, rhs) == "conn_state_ready":
            self.nready += 1
            eq, eff = st.user
            if eq and self.desc == "connect":
                self.rule.ok("%s: ready with options equal to the snapshot the tracker applied" % fn.name, "path exploration")
            elif eff is not None and self._ok_result(st, eff):
                self.rule.ok("%s: ready only after the options were applied successfully" % fn.name, "path exploration")
            else:
                self.rule.violation("%s:ready-without-options" % fn.name,
                                    "the connection becomes ready on a path where its TCP options are neither known equal to the applied "
                                    "snapshot nor (re-)applied successfully", loc=fn.loc(nid))
        return None


class BeforeConnect(S.SeqRule):
    def __init__(self, prog, rule):
        super().__init__(prog)
        self.rule = rule
        self.n = 0

    def user0(self, fn):
        return None

    def on_call(self, fn, st, nid, callees, exts):
        n = fn.nodes[nid]
        if n.get("callee") == "tcp_opts_effectuate":
            return nid
        if "connect" in exts:
            self.n += 1
            eff = st.user
            ok = False
            if eff is not None:
                c = st.get(("call", eff))
                if c in (S.ZERO, S.NONNEG, S.POS):
                    ok = True
                for k, v in st.vals:
                    if isinstance(k, tuple) and k[0] == "src" and v == ("call", eff) and st.get(k[1]) in (S.ZERO, S.NONNEG, S.POS):
                        ok = True
            if ok:
                self.rule.ok("%s: connect() only after the snapshot options were applied to the descriptor" % fn.name, "path exploration")
            else:
                self.rule.violation("%s:connect-before-options" % fn.name, "connect() is reached without the TCP options having been applied successfully",
                                    loc=fn.loc(nid))
        return None


def run(ctx):
    P = Program(("libxcm",))
    ctx.analysed = {"units": len(P.units), "functions": len(P.functions)}
    ctx.explanation = ("Field-coverage agreement checks on the TCP option struct (equality, effectuation, setters, attribute registrations), "
                       "path exploration of the setters and of the accept/connect-completion paths, guard facts on every modification made by "
                       "a creation-only attribute's setter (the list is parsed from the attribute tables of include/xcm.h), and ordering checks "
                       "in the xcm_*_a entry points.")
    ctx.trust("the kernel honours setsockopt(); clang 14 AST/CFG")
    eng = B.Engine(P)
    rec = P.record("tcp_opts")
    fields = [f["name"] for f in rec["fields"]]
    if len(fields) < 5:
        raise Broken("struct tcp_opts has only %d fields" % len(fields))

    # ------------------------------------------------------------------ R1
    r1 = ctx.rule("C11.R1", "option-struct equality compares every field with ==")
    cands = []
    for f in P.functions:
        if len(f.params) == 2 and f.ret in ("_Bool", "bool", "int"):
            t0, t1 = f.params[0].get("t") or "", f.params[1].get("t") or ""
            if t0 == t1 and t0.startswith("const struct ") and t0.endswith("*") and "equal" in f.name:
                cands.append(f)
    for f in cands:
        rname = f.params[0]["t"].replace("const struct ", "").replace("*", "").strip()
        if rname not in P.records:
            continue
        rfields = [x["name"] for x in P.records[rname]["fields"]]
        r1.instance("%s over struct %s" % (f.qname, rname))
        pa, pb = f.params[0]["name"], f.params[1]["name"]
        # decided exactly: the function is interpreted with both structs equal, and once per field with only that field
        # differing - whatever its shape (one conjunction, early returns, an identity shortcut, a chain of ifs)
        from .. import interp as I

        def fold(diff):
            it = I.Interp(P)
            it.opaque_decls = True
            it.mem = {}
            for fld in rfields:
                it.mem["%s->%s" % (pa, fld)] = 7
                it.mem["%s->%s" % (pb, fld)] = 8 if fld == diff else 7
            return it.call(f, [1, 2])
        try:
            same = fold(None)
            missing = [fld for fld in rfields if fold(fld)]
        except I.Unsupported as e:
            # loops over containers (attr_path_equal, xcm_attr_map_equal) are C19's subject
            r1.instances.pop()
            r1.note("%s: not foldable (%s): not this rule's shape" % (f.qname, e))
            continue
        if not same:
            r1.violation("%s:equal-structs-differ" % f.name, "%s answers false for two structs whose fields are all equal" % f.name, loc=f.file)
        elif missing:
            r1.violation("%s:missing:%s" % (f.name, ",".join(missing)), "%s answers `equal` for two structs that differ in %s only: a change of only that option goes unnoticed"
                         % (f.name, missing), loc=f.file)
        else:
            r1.ok("%s: equal for equal structs, different as soon as any one of the %d fields differs" % (f.qname, len(rfields)), "exact folding, one run per field")
    r1.floor(1, "struct equality functions")

    # ------------------------------------------------------------------ R2
    r2 = ctx.rule("C11.R2", "effectuation covers every option field; each reaches its own setsockopt option")
    eff = P.fn("tcp_opts_effectuate")
    optp = eff.params[0]["name"]
    wrapper_of = {}
    for c in eff.calls():
        n = eff.nodes[c]
        for a in n["args"]:
            an = eff.sn(a)
            if an["k"] == "member" and eff.sn(an["base"]).get("name") == optp:
                d = P.resolve_direct(eff, n["callee"]) if n.get("callee") else None
                if d is not None:
                    wrapper_of[an["field"]] = d
    pairs = {}
    for fld in fields:
        r2.instance("tcp_opts.%s" % fld)
        w = wrapper_of.get(fld)
        if w is None:
            r2.violation("tcp_opts_effectuate:%s" % fld, "option field %s is never applied to the descriptor by tcp_opts_effectuate" % fld, loc=eff.file)
            continue
        # wrapper: setsockopt(fd, level, opt, &local, ...) with local derived from the value parameter
        so = list(w.calls("setsockopt"))
        if len(so) != 1:
            r2.violation("%s:setsockopt" % w.name, "%s makes %d setsockopt calls" % (w.name, len(so)), loc=w.file)
            continue
        n = w.nodes[so[0]]
        lvl, opt = C.const_of(w, n["args"][1]), C.const_of(w, n["args"][2])
        valp = w.params[1]["name"]
        ov = w.sn(n["args"][3])
        derived = False
        if ov["k"] == "un" and ov["op"] == "&":
            v = w.sn(ov["sub"])
            for m in w.nodes.values():
                if m["k"] == "decl":
                    for dv in m["vars"]:
                        if dv["name"] == v.get("name") and dv.get("init") is not None:
                            derived = any(w.nodes[x]["k"] == "ref" and w.nodes[x]["name"] == valp for x in w.walk(dv["init"]))
        if w.sn(n["args"][0]).get("name") != w.params[0]["name"]:
            derived = False
        if not derived or lvl is None or opt is None:
            r2.violation("%s:value" % w.name, "%s does not pass a value derived from its parameter to setsockopt on its descriptor" % w.name, loc=w.loc(so[0]))
            continue
        if (lvl, opt) in pairs:
            r2.violation("%s:dup-option" % w.name, "%s and %s set the same socket option (%d,%d)" % (w.name, pairs[(lvl, opt)], lvl, opt), loc=w.loc(so[0]))
            continue
        pairs[(lvl, opt)] = w.name
        # the failure of setsockopt is reported
        r2.ok("%s -> %s -> setsockopt(%d,%d)" % (fld, w.name, lvl, opt), "argument flow")
    # every wrapper failure makes the result negative
    nfail = 0
    for b, cond in C.cond_blocks(eff):
        l, op, r = C.cond_atom(eff, cond, True)
        if eff.sn(l)["k"] == "call" and op == "<":
            only = C.only_via_edge(eff, b, "T")
            if any(eff.nodes[e]["k"] == "bin" and eff.nodes[e]["op"] == "=" and C.const_of(eff, eff.nodes[e]["r"]) == -1 for bb in only for e in eff.blocks[bb].elems):
                nfail += 1
    # ... and stays negative up to the return: on every path on which some wrapper failed the function answers -1
    lost = []
    nfailed_exits = [0]

    class Sticky(S.SeqRule):
        def user0(s2, fn):
            return False

        def inline(s2, fn, nid, callee):
            return False

        def on_branch(s2, fn, st, blk, cond, label):
            if label not in ("T", "F"):
                return None
            l, op, r = C.cond_atom(fn, cond, label == "T")
            if fn.sn(l)["k"] == "call" and not isinstance(r, tuple) and C.const_of(fn, r) == 0 and op == "<":
                return True
            return None

        def on_exit(s2, fn, st, ret_nid, ret_cls, top):
            if top and st.user:
                nfailed_exits[0] += 1
                if ret_cls != S.NEG and not lost:
                    lost.append(ret_nid)
    S.run(Sticky(P), eff)
    if nfail >= len(fields) and nfailed_exits[0] >= 1 and not lost:
        r2.ok("a failing wrapper makes tcp_opts_effectuate fail, whatever the later wrappers answer", "control dependence + path exploration")
    elif lost:
        r2.violation("tcp_opts_effectuate:failure-lost", "tcp_opts_effectuate can answer success although one of the setsockopt wrappers failed (a later result overwrites the "
                     "failure): the connection is established with an option the kernel refused, and xcm_attr_get reports the value that is not in force", loc=eff.loc(lost[0]) if lost[0] else eff.file)
    else:
        r2.violation("tcp_opts_effectuate:failure", "only %d of the wrapper failures are reported" % nfail, loc=eff.file)

    # ------------------------------------------------------------------ R3
    r3 = ctx.rule("C11.R3", "store then apply in every TCP setter; tcp.<f> is registered with the setter/getter of <f>")
    setters = {}
    for f in P.fns_in("tcp/tcp_attr.c"):
        if f.name.startswith("tcp_set_") and len(f.params) == 3:
            r3.instance(f.qname)
            rr = StoreApply(P, f, r3, wrapper_of)
            S.run(rr, f)
            if rr.zero_exits < 1 or len(rr.fields) != 1:
                raise Broken("C11.R3: %s: %d success exits, fields stored %s" % (f.name, rr.zero_exits, rr.fields))
            setters[f.name] = list(rr.fields)[0]
    if set(setters.values()) != set(fields):
        r3.violation("tcp_set:coverage", "option fields without a setter: %s" % sorted(set(fields) - set(setters.values())), loc="libxcm/tp/tcp/tcp_attr.c")
    regs = registrations(P)
    nreg = 0
    for name, lst in sorted(regs.items()):
        if not name.startswith("tcp.") or name[4:] not in fields:
            continue
        for (rf, c, sd, gd) in lst:
            if sd is None:
                continue
            nreg += 1
            r3.instance("%s in %s" % (name, rf.name))
            fld = name[4:]
            # setter: calls tcp_set_<g>(&priv->conn.tcp_opts, priv->fd, v) with setters[g] == fld
            calls = [x for x in sd.calls() if (sd.nodes[x].get("callee") or "") in setters]
            ok = False
            if len(calls) == 1:
                n = sd.nodes[calls[0]]
                a0 = sd.sn(n["args"][0])
                okopts = a0["k"] == "un" and a0["op"] == "&" and sd.fields_of(a0["sub"])[-1:] == ("tcp_opts",)
                okfd = sd.fields_of(n["args"][1])[-1:] == ("fd",)
                ok = okopts and okfd and setters[n["callee"]] == fld
            # getter: reads conn.tcp_opts.<fld>
            gok = gd is not None and any(m["k"] == "member" and m["field"] == fld and gd.fields_of(m["id"])[-2:-1] == ("tcp_opts",) for m in gd.nodes.values())
            if ok and gok:
                r3.ok("%s: set through %s on the socket's own options/descriptor, read from tcp_opts.%s" % (name, sd.nodes[calls[0]]["callee"], fld), "agreement")
            else:
                r3.violation("%s:%s" % (rf.name, name), "attribute %s is not served by the setter/getter pair of option field %s (setter ok=%s, getter ok=%s)"
                             % (name, fld, ok, gok), loc=rf.loc(c))
    if nreg < 5:
        raise Broken("C11.R3: only %d tcp.* RW registrations" % nreg)

    # ------------------------------------------------------------------ R4
    r4 = ctx.rule("C11.R4", "TCP options are in force before the connection becomes ready")
    tables = TP.ops_tables(P)
    bt = [t for t in tables if t.proto == "btcp"][0]
    acc = bt.slots["accept"]
    r4.instance(acc.qname)
    rr = ReadyRule(P, acc, r4, "accept")
    S.run(rr, acc)
    if rr.nready < 1:
        raise Broken("C11.R4: no ready transition in %s" % acc.name)
    # the descriptor given to effectuate is the one that becomes the connection's
    for c in acc.calls("tcp_opts_effectuate"):
        n = acc.nodes[c]
        a0 = acc.sn(n["args"][0])
        fdv = acc.sn(n["args"][1])
        stored = any(op == "=" and acc.fields_of(lhs)[-1:] == ("fd",) and acc.sn(rhs).get("name") == fdv.get("name") for b, i, e, lhs, rhs, op in acc.stores() if rhs is not None)
        own = a0["k"] == "un" and acc.fields_of(a0["sub"])[-1:] == ("tcp_opts",) and acc.apath(a0["sub"])[0][2] == acc.apath([lhs for b, i, e, lhs, rhs, op in acc.stores() if acc.fields_of(lhs)[-1:] == ("fd",)][0])[0][2]
        if stored and own:
            r4.ok("%s applies the new connection's own options to the descriptor it keeps" % acc.name, "argument flow")
        else:
            r4.violation("%s:effectuate-args" % acc.name, "tcp_opts_effectuate(%s, %s) is not (the new connection's options, the descriptor it keeps)"
                         % (acc.show(n["args"][0]), acc.show(n["args"][1])), loc=acc.loc(c))
    tfc = [f for f in P.fns_in(os.path.basename(acc.file)) if any(True for _ in f.calls("tconnect_get_connected_fd"))]
    if len(tfc) != 1:
        raise Broken("C11.R4: the function completing the connect (caller of tconnect_get_connected_fd) not found")
    tfc = tfc[0]
    r4.instance(tfc.qname)
    rr = ReadyRule(P, tfc, r4, "connect")
    S.run(rr, tfc)
    if rr.nready < 1:
        raise Broken("C11.R4: no ready transition in %s" % tfc.name)
    # the comparison is (current options, snapshot returned by the tracker), re-application uses the current options and the new fd
    for c in tfc.calls("tcp_opts_equal"):
        n = tfc.nodes[c]
        names = sorted(tfc.show(a) for a in n["args"])
        snap = [tfc.show(a) for a in tfc.nodes[list(tfc.calls("tconnect_get_connected_fd"))[0]]["args"]][-1]
        if snap in names and any("conn.tcp_opts" in x for x in names):
            r4.ok("%s compares the socket's options with the snapshot the tracker applied" % tfc.name, "argument agreement")
        else:
            r4.violation("%s:equal-args" % tfc.name, "tcp_opts_equal(%s) does not compare current options with the tracker's snapshot %s" % (names, snap), loc=tfc.loc(c))
    for c in tfc.calls("tcp_opts_effectuate"):
        n = tfc.nodes[c]
        if "conn.tcp_opts" in tfc.show(n["args"][0]) and tfc.fields_of(n["args"][1])[-1:] == ("fd",):
            r4.ok("%s re-applies the socket's current options to its descriptor" % tfc.name, "argument agreement")
        else:
            r4.violation("%s:reapply-args" % tfc.name, "re-application uses (%s, %s)" % (tfc.show(n["args"][0]), tfc.show(n["args"][1])), loc=tfc.loc(c))
    nx = P.fn("track_connect_next")
    r4.instance(nx.qname)
    bc = BeforeConnect(P, r4)
    S.run(bc, nx)
    if bc.n < 1:
        raise Broken("C11.R4: connect() not found in track_connect_next")
    # the snapshot handed back is the one that was applied
    tg = P.fn("track_get_connected_fd")
    r4.instance(tg.qname)
    # the snapshot is a private by-value copy taken when the attempt was created; the same field is what is applied
    # before connect() and what is handed back
    trec = P.record("track")
    snap = [fl["name"] for fl in trec["fields"] if (fl.get("type") or fl.get("t") or "").strip() == "struct tcp_opts"]
    if len(snap) != 1:
        r4.violation("track:snapshot-field", "struct track holds no by-value copy of the TCP options (fields of type struct tcp_opts: %s): "
                     "the 'applied' snapshot would follow later changes of the socket's options and re-application would never happen" % snap, loc=tg.file)
    else:
        F = snap[0]
        applied = any(nx.sn(nx.nodes[c]["args"][0])["k"] == "un" and nx.sn(nx.nodes[c]["args"][0])["op"] == "&" and
                      nx.fields_of(nx.sn(nx.nodes[c]["args"][0])["sub"])[-1:] == (F,) for c in nx.calls("tcp_opts_effectuate"))
        outp = [p["name"] for p in tg.params if (p.get("t") or "").strip() == "struct tcp_opts *"]
        handed = any(op == "=" and rhs is not None and tg.sn(lhs)["k"] == "un" and tg.sn(lhs)["op"] == "*" and tg.sn(tg.sn(lhs)["sub"]).get("name") in outp
                     and tg.sn(rhs)["k"] == "member" and tg.sn(rhs)["field"] == F for b, i, e, lhs, rhs, op in tg.stores())
        tc_ = P.fn("track_create")
        copied = any(n["k"] == "init" and n.get("fields") and F in n["fields"] and tc_.sn(n["elems"][n["fields"].index(F)])["k"] == "un"
                     and tc_.sn(n["elems"][n["fields"].index(F)])["op"] == "*" for n in tc_.nodes.values())
        if applied and handed and copied:
            r4.ok("the tracker copies the options when the attempt is created, applies that copy before connect() and hands the same copy back", "field identity")
        else:
            r4.violation("track:snapshot", "snapshot field %s: copied at creation=%s, applied before connect=%s, handed back=%s" % (F, copied, applied, handed), loc=tg.file)

    # ------------------------------------------------------------------ R5
    r5 = ctx.rule("C11.R5", "creation-only attributes are refused with EACCES afterwards, changing nothing")
    rows = doc_rows()
    creation_only = sorted(n for n, (rw, d) in rows.items() if "W" in rw and re.search(r"Writable only", d))
    if len(creation_only) < 18:
        raise Broken("C11.R5: only %d creation-only attributes found in xcm.h: %s" % (len(creation_only), creation_only))
    ALLOWED_EXTRA = {"tcp.connect_timeout": {"resolving"}}       # xcm.h: may still be set while the name is being resolved (before any attempt)
    nset = 0
    for name in creation_only:
        lst = regs.get(name, [])
        sds = []
        for (rf, c, sd, gd) in lst:
            if sd is not None and sd not in sds:
                sds.append(sd)
        if not sds:
            raise Broken("C11.R5: attribute %s (xcm.h) has no registered setter" % name)
        for sd in sds:
            if name == "xcm.service":
                continue       # R7: the setter only validates, there is nothing to modify
            nset += 1
            r5.instance("%s: %s" % (name, sd.qname))
            allowed = {"init", "notconn", "notcreated"} | ALLOWED_EXTRA.get(name, set())
            gr = GuardRule(P, eng, sd, r5, name, allowed)
            S.run(gr, sd)
            if gr.nmut == 0:
                raise Broken("C11.R5: no modification found in the setter of %s (%s)" % (name, sd.name))
            if not gr.eacces_exit:
                r5.violation("%s:no-EACCES" % sd.name, "the setter of creation-only attribute %s has no exit answering -1/EACCES" % name, loc=sd.file)
            elif not gr.reported:
                r5.ok("%s: %d modification(s) all behind the state guard; the other edge answers EACCES" % (name, gr.nmut), "path exploration with inlined helpers")
    if nset < 18:
        raise Broken("C11.R5: only %d creation-only setters explored" % nset)
    # accept refuses connect-only attributes before accept4
    r5.instance("%s: connect-only attributes" % acc.qname)

    class AcceptGuard(S.SeqRule):
        def __init__(s2, prog):
            super().__init__(prog)
            s2.tested = set()
            s2.ok = True

        def user0(s2, fn):
            return frozenset()

        def on_branch(s2, fn, st, blk, cond, label):
            if label not in ("T", "F"):
                return None
            txt = fn.show(cond)
            for key in ("laddr", "dns_algorithm", "tcp_connect_timeout"):
                if key in txt:
                    return st.user | {(key, label)}
            return None

        def on_call(s2, fn, st, nid, callees, exts):
            if "accept4" in exts or any(d.name == "ut_accept" for d in callees):
                keys = {k for k, lab in st.user}
                s2.tested = keys
                if keys != {"laddr", "dns_algorithm", "tcp_connect_timeout"}:
                    s2.ok = False
            return None

        def on_exit(s2, fn, st, ret_nid, ret_cls, top):
            pass
    ag = AcceptGuard(P)
    S.run(ag, acc)
    if ag.ok and len(ag.tested) == 3:
        r5.ok("accept tests local address, DNS algorithm and connect timeout before accept4()", "path exploration")
    else:
        r5.violation("%s:connect-only" % acc.name, "accept4() is reached without all connect-only attributes having been tested (tested: %s)" % sorted(ag.tested), loc=acc.file)
    # and each rejecting edge sets EACCES
    nacc = 0
    for b, i, e, lhs, rhs, op in acc.stores():
        if acc.show(lhs) == "errno" and rhs is not None and C.const_of(acc, rhs) == EACCES:
            nacc += 1
    if nacc >= 3:
        r5.ok("each of the three refusals sets EACCES", "constant store")
    else:
        r5.violation("%s:EACCES" % acc.name, "only %d of the connect-only refusals set EACCES" % nacc, loc=acc.file)

    # ------------------------------------------------------------------ R6
    r6 = ctx.rule("C11.R6", "attributes are applied after init and before connect/server/accept; defaults before the user's map")
    for api, op in (("xcm_connect_a", "xcm_tp_socket_connect"), ("xcm_server_a", "xcm_tp_socket_server"), ("xcm_accept_a", "xcm_tp_socket_accept")):
        f = P.fn(api)
        r6.instance(api)

        class Ord(C.Rule):
            def initial(s2, fn):
                return (False, False)       # (init done, attrs set)

            def elem(s2, fn, st, nid, blk, idx):
                n = fn.nodes[nid]
                if n["k"] != "call":
                    return None
                cal = n.get("callee") or ""
                if cal == "xcm_tp_socket_init":
                    return (True, st[1])
                if cal == "set_attrs":
                    if not st[0]:
                        r6.violation("%s:attrs-before-init" % fn.name, "set_attrs runs before the transport's init", loc=fn.loc(nid))
                    return (st[0], True)
                if cal == op:
                    if st == (True, True):
                        r6.ok("%s: %s after init and set_attrs" % (fn.name, op), "path exploration")
                    else:
                        r6.violation("%s:op-before-attrs" % fn.name, "%s runs on a path where the attribute map has not been applied" % op, loc=fn.loc(nid))
                return None
        if not list(f.calls(op)) or not list(f.calls("set_attrs")):
            raise Broken("C11.R6: %s does not call %s/set_attrs" % (api, op))
        C.explore(f, Ord())
    sa_ = P.fn("set_attrs")
    r6.instance("set_attrs")
    bad_order = []
    seen_user = []

    class Ord2(C.Rule):
        def initial(s2, fn):
            return False

        def elem(s2, fn, st, nid, blk, idx):
            n = fn.nodes[nid]
            if n["k"] == "call" and n.get("callee") == "set_default_attrs":
                return True
            if n["k"] == "call" and n.get("callee") == "set_user_attrs":
                seen_user.append(nid)
                if not st:
                    bad_order.append(nid)
            return None
    C.explore(sa_, Ord2())
    if not seen_user:
        raise Broken("C11.R6: set_attrs does not call set_user_attrs")
    if not bad_order:
        r6.ok("defaults are set before the user's attributes on every path (the user's value wins)", "path exploration")
    else:
        r6.violation("set_attrs:order", "the user's attributes are applied on a path where the defaults have not been set yet (defaults would override them)", loc=sa_.loc(bad_order[0]))

    # ------------------------------------------------------------------ R7
    r7 = ctx.rule("C11.R7", "xcm.service admits only `any` or the actual service; xcm.blocking is xcm_set_blocking")
    for (rf, c, sd, gd) in regs.get("xcm.service", []):
        if sd is None:
            continue
        r7.instance("xcm.service: %s" % sd.qname)

        class Svc(S.SeqRule):
            def __init__(s2, prog):
                super().__init__(prog)
                s2.bad = False
                s2.n0 = 0

            def user0(s2, fn):
                return False

            def on_branch(s2, fn, st, blk, cond, label):
                if label not in ("T", "F"):
                    return None
                l, op, r = C.cond_atom(fn, cond, label == "T")
                ln = fn.sn(l)
                if ln["k"] == "call" and ln.get("callee") == "strcmp" and C.const_of(fn, r) == 0 and op == "==":
                    return True
                return None

            def on_exit(s2, fn, st, ret_nid, ret_cls, top):
                if ret_cls == S.ZERO:
                    s2.n0 += 1
                    if not st.user:
                        s2.bad = True
                if ret_cls == S.NEG and st.efact != ("eq", EINVAL):
                    s2.bad = True
        sv = Svc(P)
        S.run(sv, sd)
        if sv.bad or sv.n0 < 2:
            r7.violation("%s:service" % sd.name, "xcm.service is accepted on a path without a matching string comparison, or refused without EINVAL", loc=sd.file)
        else:
            r7.ok("xcm.service: success only on an equal edge of strcmp; otherwise EINVAL", "path exploration")
        # the two strings compared: "any" and the actual service chosen by xcm_tp_socket_is_bytestream
        strs = sorted(m["v"] for m in sd.nodes.values() if m["k"] == "str")
        if strs == ["any", "bytestream", "messaging"] and list(sd.calls("xcm_tp_socket_is_bytestream")):
            r7.ok("the admissible values are `any` and the socket's actual service", "literals")
        else:
            r7.violation("%s:values" % sd.name, "xcm.service compares against %s" % strs, loc=sd.file)
    for (rf, c, sd, gd) in regs.get("xcm.blocking", []):
        if sd is None:
            continue
        r7.instance("xcm.blocking: %s" % sd.qname)
        missed = []

        class ViaApi(C.Rule):
            def initial(s2, fn):
                return False

            def elem(s2, fn, st, nid, blk, idx):
                n = fn.nodes[nid]
                if n["k"] == "call" and n.get("callee") == "xcm_set_blocking":
                    return True
                if n["k"] == "return" and n.get("sub") is not None and not st:
                    cv = C.const_of(fn, n["sub"])
                    if cv is None or cv >= 0:
                        missed.append(nid)
                return None
        C.explore(sd, ViaApi())
        getter_ok = gd is not None and any(m["k"] == "member" and m["field"] == "is_blocking" for m in gd.nodes.values())
        if list(sd.calls("xcm_set_blocking")) and not missed and getter_ok:
            r7.ok("xcm.blocking: every successful path of the setter goes through xcm_set_blocking; read from the same flag", "path exploration")
        else:
            r7.violation("%s:blocking" % sd.name, "the xcm.blocking setter can succeed without calling xcm_set_blocking(): the attribute and the function are "
                         "no longer the same switch (pending work is neither finished nor reported)", loc=sd.loc(missed[0]) if missed else sd.file)
    # nobody else writes the flag
    r7.instance("who writes xcm_socket.is_blocking")
    wr = sorted({f.name for f in P.functions for b, i, e, lhs, rhs, op in f.stores() if f.fields_of(lhs)[-1:] == ("is_blocking",)})
    if set(wr) <= {"xcm_set_blocking", "xcm_tp_socket_create"} and "xcm_set_blocking" in wr:
        r7.ok("the blocking flag is written only by xcm_set_blocking and at creation", "who-may-write")
    else:
        r7.violation("is_blocking:writers", "the blocking flag is written by %s" % wr, loc=None)
    r7.floor(2, "registrations")

    # ------------------------------------------------------------------ R8
    r8 = ctx.rule("C11.R8", "accepted sockets inherit the server socket's scope")
    bi = bt.slots["init"]
    r8.instance(bi.qname)
    inh = False
    for b, i, e, lhs, rhs, op in bi.stores():
        if rhs is not None and bi.fields_of(lhs)[-1:] == ("scope",) and bi.fields_of(rhs)[-1:] == ("scope",) and bi.apath(lhs)[0] != bi.apath(rhs)[0]:
            # the copy is on the parent != NULL edge
            inh = True
    if inh:
        r8.ok("btcp init copies ipv6.scope from the parent socket", "store")
    else:
        r8.violation("%s:scope" % bi.name, "the parent's scope is not inherited", loc=bi.file)

    # ------------------------------------------------------------------ R9
    r9 = ctx.rule("C11.R9", "accepted TLS sockets inherit every TLS policy attribute of the server socket, whatever the other attributes hold")
    from . import C09 as c09
    btl = [t for t in tables if t.proto == "btls"][0]
    c09.check_inheritance(P, btl, P.fn("set_verify"), r9)
    r9.floor(9, "inherited TLS policy fields")

    # ------------------------------------------------------------------ R10
    r10 = ctx.rule("C11.R10", "attribute setters answer 0 or -1: the walk over an attribute map stops on any non-zero status but fails only on a negative one")
    check_setter_status(P, r10)
    _ctx_items_rule(ctx, P)


def check_setter_status(P, rule):
    """xcm.c applies an attribute map with a callback that stops at the first non-zero status, and its caller treats only a
    negative status as failure: a setter answering a positive value makes every attribute after it (xcm.blocking included)
    silently unapplied.  Every registered setter, and every status-returning helper it calls directly, has no path that
    returns a positive constant."""
    regs = registrations(P)
    fns = {}
    for name, lst in regs.items():
        for rf, c, sd, gd in lst:
            if sd is None:
                continue
            fns[sd.key] = sd
            for cc in sd.calls():
                for d in P.callees(sd, cc)[0]:
                    if (d.ret or "").strip() == "int" and d.file.startswith("libxcm/tp/") and ("set" in d.name):
                        fns[d.key] = d
    if len(fns) < 10:
        raise Broken("setter-status: only %d setters found" % len(fns))
    nbad = 0
    for d in sorted(fns.values(), key=lambda g: g.qname):
        rule.instance(d.qname)
        def origin_bad(x, depth=0):
            """None if the value is 0, -1 or another function's status; else the offending expression"""
            x = d._strip0(x)
            m = d.nodes[x]
            cv = C.const_of(d, x)
            if cv is not None:
                return None if cv in (0, -1) else x
            if m["k"] == "call":
                return None
            if m["k"] == "cond":
                return origin_bad(m["tv"], depth + 1) or origin_bad(m["fv"], depth + 1)
            if m["k"] == "ref" and m.get("dk") == "local" and depth < 4:
                defs = []
                for mm in d.nodes.values():
                    if mm["k"] == "decl":
                        defs += [v["init"] for v in mm["vars"] if v.get("did") == m.get("did") and v.get("init") is not None]
                    elif mm["k"] == "bin" and mm["op"] == "=" and d.nodes[d._strip0(mm["l"])].get("did") == m.get("did") and d.nodes[d._strip0(mm["l"])]["k"] == "ref":
                        defs.append(mm["r"])
                for dx in defs:
                    b = origin_bad(dx, depth + 1)
                    if b is not None:
                        return b
                return None if defs else x
            return x
        pos = None
        for n in d.nodes.values():
            if n["k"] == "return" and n.get("sub") is not None:
                b = origin_bad(n["sub"])
                if b is not None:
                    pos = (n, b)
                    break
        if pos:
            nbad += 1
            rule.violation("%s:status-not-0-or-minus-1" % d.name, "%s can answer `%s`, which may be positive: the attribute map walk stops (status != 0) but the call is not failed "
                           "(status >= 0), so the attributes not yet applied - xcm.blocking among them - are silently dropped" % (d.name, d.show(pos[1])[:50]), loc=d.loc(pos[0]))
        else:
            rule.ok("%s answers 0, -1 or another setter's status only" % d.qname, "value origin of every return")


def _ctx_items_rule(ctx, P):
    # credentials and revocation lists given in the xcm_accept_a()/xcm_connect_a() map take effect: the context is built
    # from the items of the socket being configured (C18.R9's engine)
    from . import C18 as c18
    r11 = ctx.rule("C11.R11", "tls.* credential attributes of a socket take effect on that socket: its context is built from its own items")
    c18.check_ctx_args(P, r11)
