"""C08 - no resource leaks, stray closes or aborts on any lifecycle path
(structural clauses).  See DESIGN.md section 3/C08 for the rule list."""
import os

from .. import callgraph as CG
from .. import cfg as C
from .. import summary as SUM
from .. import seq as S
from .. import subsock as SS
from .. import tp as TP
from ..model import Program
from ..report import Broken


def run(ctx):
    P = Program(("libxcm",))
    ctx.analysed = {"units": len(P.units), "functions": len(P.functions)}
    ctx.explanation = ("Typestate exploration (contract of xcm_tp.h) of every transport's init/connect/server/accept/close/cleanup op and of the "
                       "xcm_*_a entry points with same-unit helpers inlined and parameters bound; descriptor ownership on all paths; call-graph "
                       "reachability with the owner flag folded; assertion reachability from resource-creating calls.")
    ctx.trust("clang 14 AST/CFG; kernel releases a descriptor's epoll registrations on close")
    tables = TP.ops_tables(P)

    # ------------------------------------------------------------------ lemmas
    cands = []
    for t in tables:
        if t.slots.get("init") and t.slots["init"] not in cands:
            cands.append(t.slots["init"])
    for name in ("xcm_tp_socket_create", "xcm_tp_socket_init", "ut_malloc", "ut_calloc", "create_sub_socket", "socket_create"):
        f = P.fn_opt(name)
        if f and f not in cands:
            cands.append(f)
    # creators: static functions returning a socket pointer that call xcm_tp_socket_create
    creators = {}
    for f in P.functions:
        if SS.is_sock_ptr(f.ret) and f.static and any(True for _ in f.calls("xcm_tp_socket_create")):
            inits = any(True for _ in f.calls("xcm_tp_socket_init"))
            creators[f.name] = SS.INITED if inits else SS.UNINIT
    nf, helpers, init_of = SS.never_fails(P, cands, tables, {k for k, v in creators.items() if v == SS.INITED})
    ctx.assume("derived on this tree (protocol-resolved init dispatch): never fail / never return NULL: %s" % sorted(nf))
    if len(helpers) < 4:
        raise Broken("C08: only %d proto helpers recognised: %s" % (len(helpers), helpers))

    # ------------------------------------------------------------------ R1
    r1 = ctx.rule("C08.R1", "sub-socket typestate per the xcm_tp.h contract on every path of every lifecycle op")
    nops = 0
    for t in tables:
        own = None
        for slot in ("init", "connect", "server", "accept", "close", "cleanup"):
            f = t.slots.get(slot)
            if f is None:
                continue
            rr = SS.Sub(P, f, r1, slot, never_fails=nf, creators=creators, helpers=helpers, init_of=init_of)
            if not rr.own_fields(f):
                continue
            if "%s.%s" % (os.path.basename(f.file), f.name) in [str(i) for i in r1.instances]:
                continue
            r1.instance("%s.%s" % (os.path.basename(f.file), f.name))
            nops += 1
            S.run(rr, f)
            if rr.exits < 1:
                raise Broken("C08.R1: no exit explored in %s" % f.name)
            if not rr.reported:
                r1.ok("%s (%s): %d exits, sub-sockets %s end in the state the contract demands" % (f.qname, slot, rr.exits, rr.own_fields(f)), "typestate exploration")
    # creators themselves and the API entry points
    for f in P.functions:
        if f.name in creators or f.name in ("xcm_connect_a", "xcm_server_a", "xcm_accept_a", "xcm_close", "xcm_cleanup", "socket_create", "socket_destroy"):
            r1.instance(f.qname)
            slot = "api"
            rr = SS.Sub(P, f, r1, slot, never_fails=nf, creators={k: v for k, v in creators.items() if k != f.name}, helpers=helpers, init_of=init_of)
            S.run(rr, f)
            nops += 1
            if not rr.reported:
                r1.ok("%s: every socket created locally is returned, handed over or destroyed after being closed/cleaned" % f.qname, "typestate exploration")
    if nops < 20:
        raise Broken("C08.R1: only %d ops explored" % nops)

    check_ops_before_open(P, ctx)
    check_drain_loops(P, ctx, tables)
    check_active_fd_share(P, ctx)
    check_epoll_del_tolerance(P, ctx)
    check_fd_ownership(P, ctx)
    check_owner_false(P, ctx, tables)
    check_resource_asserts(P, ctx)
    check_fields_released(P, ctx)
    check_files(P, ctx, tables)
    check_local_ownership(P, ctx)
    check_record_teardown(P, ctx)
    check_outparam_dangling(P, ctx)


FD_SOURCES = {"socket", "accept", "accept4", "eventfd", "timerfd_create", "epoll_create1", "epoll_create", "open", "openat", "dup", "signalfd", "inotify_init1"}
CLOSERS = {"close", "ut_close", "ut_close_if_valid"}
# registration is not ownership: these keep a descriptor number without ever closing it
NOT_OWNERS = {"xpoll_fd_reg_add", "epoll_ctl", "xpoll_fd_reg_mod"}


def fd_returning(P):
    """functions whose result is a descriptor they created (or a negative error)"""
    out = set()
    changed = True
    while changed:
        changed = False
        for f in P.functions:
            if f in out or f.ret != "int":
                continue
            srcvars = set()
            for nid, n in f.nodes.items():
                init = None
                if n["k"] == "decl":
                    for v in n["vars"]:
                        if v.get("init") is not None and _is_src(P, f, v["init"], out):
                            srcvars.add(v["did"])
                elif n["k"] == "bin" and n["op"] == "=" and f.sn(n["l"])["k"] == "ref" and _is_src(P, f, n["r"], out):
                    srcvars.add(f.sn(n["l"]).get("did"))
            for nid, n in f.nodes.items():
                if n["k"] == "return" and n.get("sub") is not None:
                    r = f.sn(n["sub"])
                    # `x != NULL ? x->fd : -1`: a pooled descriptor or a failure
                    pooled = False
                    if r["k"] == "cond":
                        arms = [f.sn(r["tv"]), f.sn(r["fv"])]
                        consts = [C.const_of(f, r["tv"]), C.const_of(f, r["fv"])]
                        if any(c is not None and c < 0 for c in consts) and any(a["k"] == "member" and (a["field"] or "").endswith("fd") for a in arms):
                            pooled = any(True for c in f.calls() if _reaches_source(P, f, c, out, 2))
                    if _is_src(P, f, n["sub"], out) or (r["k"] == "ref" and r.get("did") in srcvars) or pooled:
                        out.add(f)
                        changed = True
                        break
    return out


def _reaches_source(P, f, call, fdret, depth):
    n = f.nodes[call]
    if n.get("callee") in FD_SOURCES:
        return True
    d = P.resolve_direct(f, n["callee"]) if n.get("callee") else None
    if d is None or depth <= 0:
        return False
    return d in fdret or any(_reaches_source(P, d, c, fdret, depth - 1) for c in d.calls())


def _is_src(P, f, nid, fdret):
    n = f.sn(nid)
    if n["k"] == "bin" and n["op"] == "=":
        return _is_src(P, f, n["r"], fdret)
    if n["k"] != "call":
        return False
    if n.get("callee") in FD_SOURCES:
        return True
    d = P.resolve_direct(f, n["callee"]) if n.get("callee") else None
    return d is not None and d in fdret


def takers(P):
    """function -> set of parameter indexes whose descriptor the function takes over (stores in a field or closes)"""
    tk = {}
    changed = True
    while changed:
        changed = False
        for f in P.functions:
            if f.name in NOT_OWNERS:
                continue
            cur = tk.get(f, set())
            new = set(cur)
            for i, p in enumerate(f.params):
                if p.get("t") != "int" or i in new:
                    continue
                for nid, n in f.nodes.items():
                    if n["k"] == "bin" and n["op"] == "=" and f.sn(n["l"])["k"] == "member":
                        r = f.sn(n["r"])
                        if r["k"] == "ref" and r["dk"] == "param" and r["name"] == p["name"]:
                            new.add(i)
                    elif n["k"] == "init" and n.get("fields"):
                        for e in n["elems"]:
                            r = f.sn(e)
                            if r["k"] == "ref" and r.get("dk") == "param" and r["name"] == p["name"]:
                                new.add(i)
                    elif n["k"] == "call":
                        for ai, a in enumerate(n["args"]):
                            r = f.sn(a)
                            if r["k"] == "ref" and r.get("dk") == "param" and r["name"] == p["name"]:
                                if n.get("callee") in CLOSERS:
                                    new.add(i)
                                d = P.resolve_direct(f, n["callee"]) if n.get("callee") else None
                                if d is not None and ai in tk.get(d, ()):
                                    new.add(i)
            if new != cur:
                tk[f] = new
                changed = True
    return tk


def field_closers(P):
    """function -> set of field names whose descriptor it closes (transitively through direct callees)"""
    fc = {}
    changed = True
    while changed:
        changed = False
        for f in P.functions:
            cur = fc.get(f, set())
            new = set(cur)
            for c in f.calls():
                n = f.nodes[c]
                if n.get("callee") in CLOSERS and n["args"]:
                    fl = f.fields_of(n["args"][0])
                    if fl:
                        new.add(fl[-1])
                d = P.resolve_direct(f, n["callee"]) if n.get("callee") else None
                if d is not None:
                    new |= fc.get(d, set())
            if new != cur:
                fc[f] = new
                changed = True
    return fc


def check_fd_ownership(P, ctx):
    r2 = ctx.rule("C08.R2", "every descriptor created is, on every path, closed, stored in an owning field, returned or handed to a function that takes it over; "
                            "a descriptor stored in the socket during a failing connect/server/accept is closed before the failure is reported")
    fdret = fd_returning(P)
    tk = takers(P)
    fc = field_closers(P)
    nsrc = 0
    for f in P.functions:
        srcs = [c for c in f.calls() if _is_src(P, f, c, fdret)]
        if not srcs or f.name in ("ut_accept",):
            continue
        nsrc += len(srcs)
        r2.instance("%s (%d source call(s))" % (f.qname, len(srcs)))
        bad = []

        class Fd(C.Rule):
            def initial(self, fn):
                return frozenset()

            def _own(self, fn, st, lhs_nid, nid):
                ln = fn.sn(lhs_nid)
                if ln["k"] == "ref" and ln["dk"] in ("local",):
                    key = ("v", ln["name"])
                    if key in st:
                        bad.append(("overwrite:" + ln["name"], "descriptor in `%s` is overwritten while still owned" % ln["name"], nid))
                    return st | {key}
                if ln["k"] == "member" and ln["field"]:
                    return st | {("f", ln["field"])}
                return st

            def elem(self, fn, st, nid, blk, idx):
                n = fn.nodes[nid]
                k = n["k"]
                if k == "decl":
                    for v in n["vars"]:
                        if v.get("init") is not None and _is_src(P, fn, v["init"], fdret):
                            st = st | {("v", v["name"])}
                    return st
                if k == "bin" and n["op"] == "=":
                    if _is_src(P, fn, n["r"], fdret):
                        return self._own(fn, st, n["l"], nid)
                    r = fn.sn(n["r"])
                    # hand-over to a field / out-parameter
                    if r["k"] == "ref" and ("v", r.get("name")) in st:
                        ln = fn.sn(n["l"])
                        if ln["k"] in ("member", "un", "index"):
                            st = (st - {("v", r["name"])}) | {("moved", r["name"])}
                            if ln["k"] == "member" and ln["field"]:
                                st = st | {("f", ln["field"])}
                            return st
                    # compound literal / struct initialiser mentioning the variable
                    for x in fn.walk(n["r"]):
                        m = fn.nodes[x]
                        if m["k"] == "init" and m.get("fields"):
                            for e in m["elems"]:
                                rr = fn.sn(e)
                                if rr["k"] == "ref" and ("v", rr.get("name")) in st:
                                    st = st - {("v", rr["name"])}
                    return st
                if k == "call":
                    name = n.get("callee") or ""
                    d = P.resolve_direct(fn, name) if name else None
                    for ai, a in enumerate(n["args"]):
                        r = fn.sn(a)
                        if r["k"] == "ref" and ("moved", r.get("name")) in st and name in CLOSERS:
                            bad.append(("double-close:" + r["name"], "`%s` is closed although the descriptor was already handed over to a field of the socket, whose "
                                        "release function closes it too: the same descriptor number is closed twice (a stray close of whatever got the number in between)" % r["name"], nid))
                        if r["k"] == "ref" and ("v", r.get("name")) in st:
                            if name in CLOSERS or (d is not None and ai in tk.get(d, ())):
                                st = st - {("v", r["name"])}
                        fl = fn.fields_of(a)
                        if name in CLOSERS and fl and ("f", fl[-1]) in st:
                            st = st - {("f", fl[-1])}
                    if d is not None:
                        for fld in fc.get(d, ()):
                            st = st - {("f", fld)}
                    return st
                if k == "return":
                    sub = n.get("sub")
                    rv = fn.sn(sub) if sub is not None else None
                    for key in st:
                        if key[0] == "moved":
                            continue
                        if key[0] == "v":
                            if rv is not None and rv["k"] == "ref" and rv.get("name") == key[1]:
                                continue
                            bad.append(("leak:" + key[1], "the descriptor in `%s` is neither closed, stored, returned nor handed over on this path" % key[1], nid))
                        else:
                            cv = C.const_of(fn, sub) if sub is not None else None
                            failing = cv is not None and (cv < 0 or (cv == 0 and "*" in (fn.ret or "")))
                            if failing:
                                bad.append(("field-leak:" + key[1], "a failure is reported while the descriptor stored in field `%s` is still open and nothing on "
                                            "the path closes it (the caller will not call close after a failed connect/server/accept)" % key[1], nid))
                    return None
                return None

            def branch(self, fn, st, blk, cond, label):
                if label not in ("T", "F"):
                    return None
                l, op, r = C.cond_atom(fn, cond, label == "T")
                c = r[1] if isinstance(r, tuple) else C.const_of(fn, r)
                ln = fn.sn(l)
                if ln["k"] == "bin" and ln["op"] == "=":
                    ln = fn.sn(ln["l"])
                key = None
                if ln["k"] == "ref":
                    key = ("v", ln["name"])
                elif ln["k"] == "member" and ln["field"]:
                    key = ("f", ln["field"])
                if key is None or key not in st or c is None:
                    return None
                neg = (op == "<" and c <= 0) or (op == "<=" and c < 0) or (op == "==" and c < 0)
                if neg:
                    return st - {key}
                return None
        C.explore(f, Fd(), max_states=100000)
        seen = set()
        for key, msg, nid in bad:
            if key in seen:
                continue
            seen.add(key)
            r2.violation("%s:%s" % (f.name, key), "%s: %s" % (f.name, msg), loc=f.loc(nid))
        if not bad:
            r2.ok("%s: every created descriptor has exactly one owner on every path" % f.qname, "ownership typestate on all paths")
    if nsrc < 9:
        raise Broken("C08.R2: only %d descriptor-creating call sites" % nsrc)


SHARED_EFFECTS = {"epoll_ctl": "changes the epoll set shared with the owner process", "unlink": "removes a file the owner still uses",
                  "SSL_shutdown": "sends a TLS close_notify on the owner's connection", "shutdown": "shuts the owner's connection down",
                  "send": "writes to the owner's connection", "sendmsg": "writes to the owner's connection", "write": "writes to a shared descriptor",
                  "SSL_write": "writes to the owner's connection", "timerfd_settime": "re-arms a timer shared with the owner"}


class OwnerGuard(CG.Guard):
    def __init__(self, val):
        self.val = val

    def decide(self, fn, cond):
        if self.val is None:
            return None
        l, op, r = C.cond_atom(fn, cond, True)
        ln = fn.sn(l)
        c = r[1] if isinstance(r, tuple) else C.const_of(fn, r)
        if ln["k"] == "ref" and ln["dk"] == "param" and ln["name"] == "owner" and c is not None and op in ("==", "!="):
            v = 1 if self.val else 0
            return (v == c) if op == "==" else (v != c)
        return None


def check_owner_false(P, ctx, tables):
    """R6: context-sensitive reachability from the cleanup ops with the owner flag propagated"""
    r6 = ctx.rule("C08.R6", "xcm_cleanup (owner == false) touches nothing shared with the owner process: no epoll_ctl, unlink, shutdown, write")
    roots = []
    for t in tables:
        f = t.slots.get("cleanup")
        if f is not None and f not in roots:
            roots.append(f)
    for name in ("xcm_cleanup", "xcm_tp_socket_cleanup"):
        roots.append(P.fn(name))
    for f in roots:
        r6.instance(f.qname)
    callbacks = CG.library_callbacks(P)
    seen = {}
    work = [(f, None, None) for f in roots]
    for f in roots:
        seen[(f, None)] = None
    hits = []
    while work:
        f, val, _ = work.pop()
        live = OwnerGuard(val).live_blocks(f)
        for e, defs, exts in CG.call_edges(P, f, live, callbacks):
            n = f.nodes[e]
            for x in exts:
                if x in SHARED_EFFECTS:
                    hits.append((f, val, e, x))
            for d in defs:
                # the cleanup ops reach each other's close ops only through the sub-socket's *cleanup*
                oi = [i for i, p in enumerate(d.params) if p["name"] == "owner"]
                dv = None
                if oi and oi[0] < len(n["args"]):
                    a = f.sn(n["args"][oi[0]])
                    cv = C.const_of(f, n["args"][oi[0]])
                    if cv is not None:
                        dv = bool(cv)
                    elif a["k"] == "ref" and a["dk"] == "param" and a["name"] == "owner":
                        dv = val
                    else:
                        dv = None
                elif not oi:
                    dv = None
                if (d, dv) not in seen:
                    seen[(d, dv)] = (f, val, e)
                    work.append((d, dv, None))
    def chain(f, val):
        out = []
        k = (f, val)
        while k is not None and k in seen:
            out.append("%s%s" % (k[0].name, "" if k[1] is None else "(owner=%s)" % k[1]))
            p = seen[k]
            k = (p[0], p[1]) if p else None
        return list(reversed(out))
    # functions that have no owner parameter but are only reached below an owner=false call are in cleanup context too
    reported = set()
    for f, val, e, x in hits:
        ch = chain(f, val)
        if val is True:
            continue        # an owner=true context (cannot arise from a cleanup root unless a callee passes true explicitly)
        key = "%s:%s" % (f.name, x)
        if key in reported:
            continue
        reported.add(key)
        r6.violation(key, "%s() is reachable from xcm_cleanup's path (%s): it %s" % (x, " -> ".join(ch[-5:]), SHARED_EFFECTS[x]), loc=f.loc(e), chain=ch)
    if not hits:
        r6.ok("%d (function, owner) contexts reachable from %d cleanup roots; none calls a shared-effect primitive" % (len(seen), len(roots)), "context-sensitive reachability")
    else:
        r6.ok("%d contexts explored" % len(seen), "context-sensitive reachability")
    if len(seen) < 40:
        raise Broken("C08.R6: only %d contexts reachable from the cleanup ops" % len(seen))
    # positive control: from the close ops the same primitives must be reachable
    croots = [t.slots["close"] for t in tables if t.slots.get("close")]
    par, edges_of = CG.reach(P, croots, callbacks=callbacks)
    found = {x for f, es in edges_of.items() for e, d, xs in es for x in xs if x in SHARED_EFFECTS}
    if not {"epoll_ctl", "unlink"} <= found:
        raise Broken("C08.R6 self-check: epoll_ctl/unlink not reachable from the close ops (%s)" % sorted(found))


FALLIBLE_EXT = {"socket", "accept", "accept4", "epoll_create1", "epoll_create", "eventfd", "timerfd_create", "bind", "listen", "connect",
                "open", "fopen", "openat", "epoll_ctl", "pthread_create", "opendir"}


def _aborts_block(fn, b):
    from .C01 import aborts
    return aborts(fn, b)


def assert_preconditions(P):
    """function -> {param index: text} for parameters the function asserts to be valid (non-negative / non-NULL)"""
    out = {}
    for f in P.functions:
        pre = {}
        for b, cond in C.cond_blocks(f):
            es = C.edges(f, b)
            ab = [lab for s_, lab in es if _aborts_block(f, s_)]
            if len(ab) != 1:
                continue
            l, op, r = C.cond_atom(f, cond, True)
            ln = f.sn(l)
            if ln["k"] == "ref" and ln["dk"] == "param":
                i = [k for k, p in enumerate(f.params) if p["name"] == ln["name"]]
                # only assertions at the top of the function (not after a reassignment)
                if i and not any(op2 == "=" and f.sn(lhs)["k"] == "ref" and f.sn(lhs)["name"] == ln["name"] for bb, ii, e, lhs, rhs, op2 in f.stores()):
                    pre[i[0]] = f.show(cond)
        if pre:
            out[f] = pre
    return out


def check_resource_asserts(P, ctx):
    r7 = ctx.rule("C08.R7", "a failing resource-creating call is reported through the documented error return, never asserted away")
    fdret = fd_returning(P)
    pre = assert_preconditions(P)
    n_sites = 0
    for f in P.functions:
        if not f.file.startswith("libxcm/"):
            continue
        # (b) direct: the result of a fallible system call decides an aborting branch
        holders = {}
        for c in f.calls():
            n = f.nodes[c]
            name = n.get("callee") or ""
            if name not in FALLIBLE_EXT:
                continue
            if name == "epoll_ctl":
                continue        # handled below per operation
            n_sites += 1
            h = _holder(f, c)
            if h:
                holders[h] = (c, name)
        for c in f.calls("epoll_ctl"):
            n = f.nodes[c]
            opv = C.const_of(f, n["args"][1])
            if opv == 1:       # EPOLL_CTL_ADD allocates kernel memory: ENOMEM/ENOSPC are resource exhaustion
                n_sites += 1
                h = _holder(f, c)
                if h:
                    holders[h] = (c, "epoll_ctl(EPOLL_CTL_ADD)")
        for b, cond in C.cond_blocks(f):
            es = C.edges(f, b)
            ab = [lab for s_, lab in es if _aborts_block(f, s_)]
            if len(ab) != 1:
                continue
            l, op, r = C.cond_atom(f, cond, True)
            ln = f.sn(l)
            key = None
            if ln["k"] == "ref":
                key = ("v", ln.get("did"))
            elif ln["k"] == "call":
                key = ("c", ln["id"])
            if key in holders:
                c, name = holders[key]
                r7.instance("%s:%s" % (f.qname, name))
                # is the aborting edge feasible at all?  (an assertion after `if (fd < 0) return ...` can never fail)
                ab_blocks = {s_ for s_, lab in es if _aborts_block(f, s_)}
                reached = set()

                class AbortReach(S.SeqRule):
                    def inline(s2, fn, nid, callee):
                        return False

                    def on_abort(s2, fn, st, blk, top):
                        if top:
                            reached.add(blk.id)
                try:
                    S.run(AbortReach(P), f)
                    feasible = bool(reached & set().union(*[C.reachable_blocks(f, x) for x in ab_blocks])) if ab_blocks else True
                    # only aborts whose path goes through THIS condition's failing edge count
                    if feasible:
                        live_edge = set()

                        class Edge(S.SeqRule):
                            def inline(s2, fn, nid, callee):
                                return False

                            def on_branch(s2, fn, st, blk, cond2, label):
                                if blk.id == b.id and label in ab:
                                    live_edge.add(label)
                                return None
                        S.run(Edge(P), f)
                        feasible = bool(live_edge)
                except RuntimeError:
                    feasible = True
                if not feasible:
                    r7.ok("%s: the assertion on the result of %s cannot fail (the failure was handled before)" % (f.qname, name), "sign classes on the path")
                    continue
                r7.violation("%s:%s:asserted" % (f.name, name), "the result of %s is asserted (`%s`): when the call fails for lack of resources "
                             "(EMFILE/ENFILE/ENOMEM/ENOSPC) the process is aborted instead of the error being returned" % (name, f.show(cond)), loc=f.loc(c))
        # (a) a possibly failed descriptor handed to a function that asserts it valid
        srcs = [c for c in f.calls() if _is_src(P, f, c, fdret)]
        if not srcs:
            continue

        bad = []

        class Unchecked(C.Rule):
            def initial(self, fn):
                return frozenset()

            def _key(self, fn, nid):
                n = fn.sn(nid)
                if n["k"] == "ref" and n["dk"] in ("local",):
                    return "v:" + n["name"]
                if n["k"] == "member" and n["field"]:
                    return "f:" + fn.apath_str(nid)
                if n["k"] == "bin" and n["op"] == "=":
                    return self._key(fn, n["l"])
                return None

            def elem(self, fn, st, nid, blk, idx):
                n = fn.nodes[nid]
                if n["k"] == "decl":
                    for v in n["vars"]:
                        if v.get("init") is not None and _is_src(P, fn, v["init"], fdret):
                            st = st | {"v:" + v["name"]}
                    return st
                if n["k"] == "bin" and n["op"] == "=" and _is_src(P, fn, n["r"], fdret):
                    k = self._key(fn, n["l"])
                    return st | {k} if k else st
                if n["k"] == "call":
                    for d in P.callees(fn, nid)[0]:
                        for ai, txt in pre.get(d, {}).items():
                            if ai < len(n["args"]):
                                k = self._key(fn, n["args"][ai])
                                if k and k in st:
                                    bad.append((k, d, txt, nid))
                return None

            def branch(self, fn, st, blk, cond, label):
                if label not in ("T", "F"):
                    return None
                l, op, r = C.cond_atom(fn, cond, label == "T")
                k = self._key(fn, l)
                if k and k in st:
                    return st - {k}
                return None
        C.explore(f, Unchecked(), max_states=50000)
        seen = set()
        for k, d, txt, nid in bad:
            if (k, d.name) in seen:
                continue
            seen.add((k, d.name))
            r7.instance("%s -> %s" % (f.qname, d.name))
            r7.violation("%s:%s->%s:unchecked" % (f.name, k.split(":", 1)[1], d.name),
                         "%s may hold a failed descriptor (-1: the creating call ran out of descriptors) and is handed unchecked to %s(), which asserts `%s`: "
                         "descriptor exhaustion aborts the process" % (k.split(":", 1)[1], d.name, txt), loc=f.loc(nid))
    r7.ok("%d resource-creating call sites examined" % n_sites, "enumeration")
    if n_sites < 12:
        raise Broken("C08.R7: only %d resource-creating call sites" % n_sites)


def _holder(f, call):
    par = f.parents().get(call)
    x = call
    while par is not None and f.nodes[par]["k"] in ("paren", "cast"):
        x = par
        par = f.parents().get(par)
    pn = f.nodes.get(par, {})
    if pn.get("k") == "bin" and pn["op"] == "=" and f.sn(pn["l"])["k"] == "ref":
        return ("v", f.sn(pn["l"]).get("did"))
    if pn.get("k") == "decl":
        for v in pn["vars"]:
            if v.get("init") is not None and f.strip(v["init"]) == f.strip(x):
                return ("v", v["did"])
    return ("c", call)


def check_fields_released(P, ctx):
    """R3: every field that receives a descriptor is closed by a function reachable from every close and cleanup op;
    R4: a descriptor handed out of a record through an out-parameter leaves the record (slot reset to -1)."""
    r3 = ctx.rule("C08.R3", "every field that owns a descriptor is closed on the close and on the cleanup path")
    fdret = fd_returning(P)
    tk = takers(P)
    owning = {}     # field -> where it receives a descriptor
    for f in P.functions:
        if not f.file.startswith("libxcm/"):
            continue
        srcvars = set()
        for nid, n in f.nodes.items():
            if n["k"] == "decl":
                for v in n["vars"]:
                    if v.get("init") is not None and _is_src(P, f, v["init"], fdret):
                        srcvars.add(v["name"])
            elif n["k"] == "bin" and n["op"] == "=" and f.sn(n["l"])["k"] == "ref" and _is_src(P, f, n["r"], fdret):
                srcvars.add(f.sn(n["l"])["name"])
        takes = {f.params[i]["name"] for i in tk.get(f, ())}
        for nid, n in f.nodes.items():
            if n["k"] == "bin" and n["op"] == "=" and f.sn(n["l"])["k"] == "member":
                r = f.sn(n["r"])
                fdname = (f.sn(n["l"])["field"] or "").endswith(("fd", "fd4", "fd6"))
                if _is_src(P, f, n["r"], fdret) or (r["k"] == "ref" and (r.get("name") in srcvars or (fdname and r.get("dk") == "param" and r.get("name") in takes))):
                    owning.setdefault((f.sn(n["l"]).get("record") or "?", f.sn(n["l"])["field"]), f.loc(nid))
            elif n["k"] == "init" and n.get("fields"):
                for fld, e in zip(n["fields"], n["elems"]):
                    r = f.sn(e)
                    if _is_src(P, f, e, fdret) or (r["k"] == "ref" and (r.get("name") in srcvars or (r.get("dk") == "param" and r.get("name") in takes and (fld or "").endswith(("fd", "fd4", "fd6"))))):
                        owning.setdefault((n.get("record") or "?", fld), f.loc(nid))
    # registration tables keep descriptor numbers without owning them
    owning = {k: v for k, v in owning.items() if k[0] not in ("xpoll_fd_reg",)}
    closers = {}
    for f in P.functions:
        for c in f.calls():
            n = f.nodes[c]
            if (n.get("callee") in CLOSERS or n.get("callee") == "active_fd_put") and n["args"]:
                a = f.sn(n["args"][0])
                if a["k"] == "member":
                    closers.setdefault((a.get("record") or "?", a["field"]), []).append(f)
                elif a["k"] == "un" and a["op"] == "*":
                    # *fd = ... helpers (track_get_current_fd_ptr): treated through their callers below
                    pass
    tables = TP.ops_tables(P)
    cb = CG.library_callbacks(P)
    close_reach = {}
    for slot in ("close", "cleanup"):
        for t in tables:
            f = t.slots.get(slot)
            if f is not None and (slot, f) not in close_reach:
                close_reach[(slot, f)] = set(CG.reach(P, [f], callbacks=cb)[0])
    api_reach = {name: set(CG.reach(P, [P.fn(name)], callbacks=cb)[0]) for name in ("xcm_close", "xcm_cleanup")}
    for (rec, fld), where in sorted(owning.items()):
        r3.instance("%s.%s" % (rec, fld))
        cl = closers.get((rec, fld), [])
        if not cl:
            # the tracker closes its two descriptors through the tconnect record that lent them
            if rec == "track" and (("tconnect", fld) in closers):
                r3.ok("%s.%s is a borrowed copy of tconnect.%s, which is closed by %s" % (rec, fld, fld, closers[("tconnect", fld)][0].name), "ownership stays with the lender")
                continue
            r3.violation("%s.%s:never-closed" % (rec, fld), "field %s.%s receives a descriptor (%s) but no function closes it" % (rec, fld, where), loc=where)
            continue
        missing = [name for name, rs in api_reach.items() if not any(c in rs for c in cl)]
        if missing:
            r3.violation("%s.%s:not-on-%s" % (rec, fld, "+".join(missing)), "the function closing %s.%s (%s) is not reachable from %s" % (rec, fld, cl[0].name, missing), loc=cl[0].file)
        else:
            r3.ok("%s.%s is closed by %s, reachable from xcm_close and xcm_cleanup" % (rec, fld, cl[0].name), "who-closes + reachability")
    r3.floor(7, "descriptor-owning fields")

    r4 = ctx.rule("C08.R4", "a descriptor handed out of a record leaves exactly one owner: the source slot is reset on the success path")
    for f in P.functions:
        if not f.file.startswith("libxcm/"):
            continue
        outp = [p["name"] for p in f.params if (p.get("t") or "").strip() == "int *" and "fd" in p["name"]]
        if not outp:
            continue
        hands = [e for b, i, e, lhs, rhs, op in f.stores() if op == "=" and f.sn(lhs)["k"] == "un" and f.sn(f.sn(lhs)["sub"]).get("name") in outp]
        passes = [c for c in f.calls() if any(f.sn(a).get("name") in outp for a in f.nodes[c]["args"]) and f.nodes[c].get("callee") not in ("__log_event",)]
        if not hands and not passes:
            continue
        r4.instance(f.qname)
        ok = [False]
        seen_success = [0]

        class Reset(C.Rule):
            def initial(self, fn):
                return False

            def elem(self, fn, st, nid, blk, idx):
                n = fn.nodes[nid]
                if n["k"] == "bin" and n["op"] == "=" and C.const_of(fn, n["r"]) == -1 and _is_fd_slot(fn, n["l"]):
                    return True
                if n["k"] == "call":
                    d = P.resolve_direct(fn, n["callee"]) if n.get("callee") else None
                    if d is not None and any(C.const_of(d, r2) == -1 and _is_fd_slot(d, l2) for b2, i2, e2, l2, r2, o2 in d.stores() if r2 is not None and o2 == "="):
                        return True
                if n["k"] == "return" and n.get("sub") is not None and C.const_of(fn, n["sub"]) == 0:
                    seen_success[0] += 1
                    if not st:
                        ok[0] = True
                return None
        C.explore(f, Reset())
        if seen_success[0] == 0:
            r4.note("%s: no constant success return" % f.qname)
            continue
        if ok[0]:
            r4.violation("%s:slot-not-reset" % f.name, "%s hands a descriptor out through `%s` and returns success on a path where the record's own slot is not reset to -1: "
                         "the record's destructor would close a descriptor the connection still uses" % (f.name, outp[0]), loc=f.file)
        else:
            r4.ok("%s resets the source slot before it reports success" % f.qname, "path exploration")
    r4.floor(2, "hand-over functions")


def _is_fd_slot(fn, lhs):
    """lvalue is a descriptor slot: a field named *fd/fd4/fd6, or *p with p an int pointer (a pointer to such a slot)"""
    n = fn.sn(lhs)
    if n["k"] == "member":
        return (n["field"] or "").endswith(("fd", "fd4", "fd6"))
    if n["k"] == "un" and n["op"] == "*":
        return (fn.sn(n["sub"]).get("t") or "").strip() == "int *"
    return False


def check_files(P, ctx, tables):
    r8 = ctx.rule("C08.R8", "socket files vanish with their socket: the path is recorded only after a successful bind and unlinked by the owner's close")
    ux = [t for t in tables if t.proto == "uxf"]
    if not ux:
        raise Broken("C08.R8: uxf table not found")
    srv = ux[0].slots["server"]
    r8.instance(srv.qname)
    bad = []
    nrec = [0]

    class PathAfterBind(S.SeqRule):
        def user0(s2, fn):
            return None

        def on_call(s2, fn, st, nid, callees, exts):
            n = fn.nodes[nid]
            if "bind" in exts:
                return nid
            if n.get("callee") in ("strcpy", "strncpy", "memcpy", "snprintf") and n["args"] and fn.fields_of(n["args"][0])[-1:] == ("path",):
                nrec[0] += 1
                b = st.user
                okb = False
                if b is not None:
                    c = st.get(("call", b))
                    if c in (S.ZERO, S.NONNEG, S.POS):
                        okb = True
                if not okb:
                    bad.append(nid)
            return None
    S.run(PathAfterBind(P), srv)
    if nrec[0] == 0:
        raise Broken("C08.R8: ux_server does not record the path")
    if bad:
        r8.violation("%s:path-before-bind" % srv.name, "the socket file's path is recorded on a path where bind() has not succeeded: a failed server attempt would unlink "
                     "a file that belongs to another socket", loc=srv.loc(bad[0]))
    else:
        r8.ok("the path to unlink is recorded only on the success edge of bind()", "path exploration")
    # ... and no later than that: a failure AFTER the bind (listen, say) goes through the common clean-up, which unlinks
    # the recorded path - so on every failing exit behind a successful bind the path has been recorded (or unlinked)
    r8.instance("%s: failure exits after bind" % srv.qname)
    left = []
    nfail = [0]

    # the recording may itself be conditional (only the file-system flavour creates a file): the other outcome of that
    # condition means there is nothing to record
    rec_guards = {}
    for c in srv.calls():
        n = srv.nodes[c]
        if n.get("callee") in ("strcpy", "strncpy", "memcpy", "snprintf") and n["args"] and srv.fields_of(n["args"][0])[-1:] == ("path",):
            wb = srv.where()[c][0]
            for b, cond in C.cond_blocks(srv):
                l, opx, rr = C.cond_atom(srv, cond, True)
                ln = srv.sn(l)
                # only tests of WHAT KIND of socket this is (a comparison of the ops table, a static predicate on the
                # socket) - not the outcome of a system or library call
                kind_test = (ln["k"] == "call" and any(d.static and d.file == srv.file for d in P.callees(srv, ln["id"])[0])) or \
                            (ln["k"] in ("call", "member", "ref") and not isinstance(rr, tuple) and srv.sn(rr)["k"] == "un" and srv.sn(rr)["op"] == "&")
                if not kind_test:
                    continue
                for lab in ("T", "F"):
                    if wb in C.only_via_edge(srv, b, lab):
                        rec_guards[b.id] = lab

    class Recorded(S.SeqRule):
        def user0(s2, fn):
            return (None, False)          # (bind call, path recorded or unlinked)

        def inline(s2, fn, nid, callee):
            return False

        def on_branch(s2, fn, st, blk, cond, label):
            if fn is srv and blk.id in rec_guards and label in ("T", "F") and label != rec_guards[blk.id] and st.user[0] is not None:
                return (st.user[0], True)
            return None

        def on_call(s2, fn, st, nid, callees, exts):
            n = fn.nodes[nid]
            b, rec = st.user
            if "bind" in exts:
                return (nid, False)
            if n.get("callee") in ("strcpy", "strncpy", "memcpy", "snprintf") and n["args"] and fn.fields_of(n["args"][0])[-1:] == ("path",):
                return (b, True)
            if "unlink" in exts:
                return (b, True)
            return None

        def on_exit(s2, fn, st, ret_nid, ret_cls, top):
            b, rec = st.user
            if not top or ret_cls != S.NEG or b is None:
                return
            c = st.get(("call", b))
            bound = c in (S.ZERO, S.NONNEG, S.POS)
            if not bound:
                for k, v in st.vals:
                    if isinstance(k, tuple) and k[0] == "src" and v == ("call", b) and st.get(k[1]) in (S.ZERO, S.NONNEG, S.POS):
                        bound = True
            if bound:
                nfail[0] += 1
                if not rec and not left:
                    left.append(ret_nid)
    S.run(Recorded(P), srv)
    if left:
        r8.violation("%s:file-left-on-failure" % srv.name, "%s can fail after bind() has created the socket file without having recorded (or removed) its path: the file "
                     "stays behind and every later server on that address fails with EADDRINUSE" % srv.name, loc=srv.loc(left[0]) if left[0] else srv.file)
    elif nfail[0] >= 1:
        r8.ok("every failure exit behind a successful bind has the path recorded for the clean-up", "path exploration")
    else:
        r8.ok("no fallible step follows the bind", "path exploration")
    dn = [f for f in P.fns_in("ux/xcm_tp_ux.c") if any(True for _ in f.calls("unlink"))]
    r8.instance("unlink in the ux transport")
    okd = False
    for f in dn:
        for c in f.calls("unlink"):
            if f.fields_of(f.nodes[c]["args"][0])[-1:] == ("path",) and SUM.guarded(P, f, c, lambda g, cond: "owner" in g.show(cond)):
                cr = set(CG.reach(P, [ux[0].slots["close"]])[0])
                if f in cr:
                    okd = True
    if okd:
        r8.ok("the recorded path is unlinked under `owner` by a function the close op reaches", "control dependence + reachability")
    else:
        r8.violation("ux:unlink", "no unlink of the recorded path under the owner guard reachable from ux_close", loc="libxcm/tp/ux/xcm_tp_ux.c")


def check_ops_before_open(P, ctx):
    """R10: between init and connect/server/accept only attribute callbacks and close are allowed on a socket
    (xcm_tp.h).  The attribute map is applied in that window; the xcm.blocking setter finishes outstanding work
    when a non-blocking socket becomes blocking - which must not happen there."""
    r = ctx.rule("C08.R10", "no data-path op (finish/send/receive/update) is reachable on a socket between init and connect/server/accept")
    data_ops = {"xcm_tp_socket_finish", "xcm_tp_socket_send", "xcm_tp_socket_receive", "xcm_tp_socket_update"}
    callbacks = CG.library_callbacks(P)
    sa = P.fn("set_attrs")
    for api in ("xcm_connect_a", "xcm_server_a", "xcm_accept_a"):
        f = P.fn(api)
        r.instance(api)
        # the blocking mode the new socket is created with
        mode = None
        for c in f.calls("socket_create"):
            mode = C.const_of(f, f.nodes[c]["args"][2])
        guard = CG.FieldFalse("xcm_socket", "is_blocking", True) if mode == 1 else (CG.FieldFalse("xcm_socket", "is_blocking", False) if mode == 0 else None)
        parent, edges_of = CG.reach(P, [sa], guard=guard, callbacks=callbacks)
        hits = [d for d in parent if d.name in data_ops]
        if not hits:
            r.ok("%s: the socket is created %s; applying the attribute map reaches no data-path op" % (api, "blocking" if mode == 1 else "non-blocking"),
                 "call-graph reachability with the creation mode folded into xcm_set_blocking's test")
        else:
            chain = [g.name for g in CG.path_to(parent, hits[0])]
            r.violation("%s:set_attrs->%s" % (api, hits[0].name),
                        "%s creates the new socket in the mode of %s and applies the attribute map before the socket is opened: xcm.blocking=true on a "
                        "non-blocking one calls %s on an initialised-only socket (%s), which the transports answer with an assertion failure"
                        % (api, "its server socket" if mode is None else "a constant", hits[0].name, " -> ".join(chain)), loc=f.file, chain=chain)
    # positive control: with the guard off the finish call must be found from set_attrs
    parent, _ = CG.reach(P, [sa], guard=None, callbacks=callbacks)
    if not any(d.name == "xcm_tp_socket_finish" for d in parent):
        raise Broken("C08.R10 self-check: xcm_tp_socket_finish is not reachable from set_attrs with the guard off")


# creators: name -> releasers (any of them, object as first argument unless an index is given)
OWN_PAIRS = {
    "xpoll_create": {"xpoll_destroy"}, "xcm_dns_resolve": {"xcm_dns_query_destroy"}, "attr_tree_create": {"attr_tree_destroy"},
    "attr_path_parse": {"attr_path_destroy"}, "slist_split": {"slist_destroy"}, "slist_create": {"slist_destroy"}, "slist_clone": {"slist_destroy"},
    "cert_get_subject_names": {"slist_destroy"}, "cert_get_subject_names_by_type": {"slist_destroy"},
    "ut_asprintf": {"ut_free", "free"}, "ut_vasprintf": {"ut_free", "free"}, "ut_strdup": {"ut_free", "free"}, "ut_strndup": {"ut_free", "free"},
    "ut_malloc": {"ut_free", "free"}, "ut_calloc": {"ut_free", "free"}, "ut_memdup": {"ut_free", "free"}, "ut_realloc": {"ut_free", "free"},
    "slist_join": {"ut_free", "free"}, "strdup": {"free", "ut_free"}, "malloc": {"free", "ut_free"},
    "SSL_get_peer_certificate": {"X509_free"}, "SSL_get1_peer_certificate": {"X509_free"}, "PEM_read_bio_X509": {"X509_free"},
    "PEM_read_bio_X509_AUX": {"X509_free"}, "PEM_read_bio_PrivateKey": {"EVP_PKEY_free"}, "PEM_read_bio_X509_CRL": {"X509_CRL_free"},
    "BIO_new_mem_buf": {"BIO_free", "BIO_free_all"}, "BIO_new": {"BIO_free", "BIO_free_all"}, "EVP_MD_CTX_new": {"EVP_MD_CTX_free", "EVP_MD_CTX_destroy"},
    "EVP_MD_CTX_create": {"EVP_MD_CTX_free", "EVP_MD_CTX_destroy"}, "X509_get_ext_d2i": {"sk_GENERAL_NAME_pop_free", "GENERAL_NAMES_free", "OPENSSL_sk_pop_free"},
    "SSL_CTX_new": {"SSL_CTX_free"}, "SSL_new": {"SSL_free"}, "xcm_attr_map_create": {"xcm_attr_map_destroy"}, "xcm_attr_map_clone": {"xcm_attr_map_destroy"},
    "fopen": {"fclose"}, "opendir": {"closedir"}, "tconnect_create": {"tconnect_destroy"}, "timer_mgr_create": {"timer_mgr_destroy"},
    "ctl_create": {"ctl_destroy"}, "X509_STORE_new": {"X509_STORE_free"}, "PEM_X509_INFO_read_bio": {"sk_X509_INFO_pop_free", "OPENSSL_sk_pop_free"},
}
# creators that hand the object out through an out-parameter on success: name -> (argument index, releasers)
OUT_CREATORS = {"item_load": (1, {"ut_free", "free"}), "ut_load_text_file": (1, {"ut_free", "free"}), "ut_load_file": (1, {"ut_free", "free"})}
# external functions that take over the object given at these argument positions (OpenSSL set0/add0 conventions)
OWN_SINKS_EXT = {"SSL_set_bio": (1, 2), "SSL_CTX_add0_chain_cert": (1,), "SSL_CTX_set0_chain": (1,), "SSL_CTX_set_cert_store": (1,),
                 "SSL_CTX_ctrl": (3,), "OPENSSL_sk_push": (1,), "sk_X509_push": (1,), "X509_STORE_add_crl": (), "BIO_push": (0, 1)}


def check_local_ownership(P, ctx):
    """R9: an object obtained from a creator is, on every path to every exit, released, stored in memory that outlives
    the function, returned, or handed to a function that keeps it."""
    from .. import escape as ESC
    r9 = ctx.rule("C08.R9", "every object a function obtains from a creator is released, stored, returned or handed over on every path")
    E = ESC.Escape(P)
    relmemo = {}
    allrel = set()
    for v in OWN_PAIRS.values():
        allrel |= v
    # out-parameter creators and the helpers that pass their own out-parameters on to one (load_credentials(..., &cert_data,
    # ...) -> item_load(cert, cert_data)): name -> (argument positions, releasers, is a wrapper)
    outc = {k: ([v[0]], v[1], False) for k, v in OUT_CREATORS.items()}
    changed = True
    while changed:
        changed = False
        for g in P.functions:
            if not g.file.startswith(("libxcm/", "common/")) or g.name in OUT_CREATORS:
                continue
            for c in g.calls():
                nm = g.nodes[c].get("callee") or ""
                if nm not in outc:
                    continue
                for ai in outc[nm][0]:
                    if ai >= len(g.nodes[c]["args"]):
                        continue
                    a = g.nodes[g.origin(g.nodes[c]["args"][ai])]
                    if a["k"] == "ref" and a.get("dk") == "param":
                        pi = [i for i, p_ in enumerate(g.params) if p_["name"] == a["name"]][0]
                        cur = outc.get(g.name, ([], outc[nm][1], True))
                        if pi not in cur[0]:
                            outc[g.name] = (sorted(cur[0] + [pi]), cur[1] | outc[nm][1], True)
                            changed = True
    ninst = 0
    for f in P.functions:
        if not f.file.startswith(("libxcm/", "common/")) or f.name in OWN_PAIRS:
            continue
        creators = [c for c in f.calls() if (f.nodes[c].get("callee") or "") in OWN_PAIRS or (f.nodes[c].get("callee") or "") in outc]
        if not creators:
            continue
        bad = []

        class Own(C.Rule):
            def initial(self, fn):
                return frozenset()

            def _var(self, fn, nid):
                n = fn.sn(nid)
                if n["k"] == "ref" and n["dk"] == "local":
                    return n["name"]
                return None

            def elem(self, fn, st, nid, blk, idx):
                n = fn.nodes[nid]
                k = n["k"]
                if k == "decl":
                    for v in n["vars"]:
                        if v.get("init") is not None:
                            cr = self._creator_of(fn, v["init"])
                            if cr and "*" in (v.get("t") or ""):
                                st = st | {(v["name"], cr)}
                            else:
                                st = self._moves(fn, st, v["init"], to_local=True)
                    return st
                if k == "bin" and n["op"] == "=":
                    lv = self._var(fn, n["l"])
                    cr = self._creator_of(fn, n["r"])
                    if cr:
                        if lv is not None:
                            old = [x for x in st if x[0] == lv]
                            if old and cr != "ut_realloc":
                                bad.append((lv, old[0][1], "overwritten by a new %s() result while still owned" % cr, nid))
                            return frozenset(x for x in st if x[0] != lv) | {(lv, cr)}
                        return st        # stored straight into a field / out-parameter: owned by that record
                    # x = NULL after release, or hand-over into memory
                    if lv is None:
                        return self._moves(fn, st, n["r"], to_local=False)
                    return st
                if k == "call":
                    name = n.get("callee") or ""
                    defs, exts = P.callees(fn, nid)
                    if name in outc:
                        for oi in outc[name][0]:
                            if oi >= len(n["args"]):
                                continue
                            a = fn.sn(n["args"][oi])
                            if a["k"] == "un" and a["op"] == "&":
                                v = self._var(fn, a["sub"])
                                if v is not None:
                                    # owned from here on; the failing edge of the call's own test drops it again (branch)
                                    st = frozenset(x for x in st if x[0] != v) | {(v, name)}
                        return st
                    for ai, a in enumerate(n["args"]):
                        v = self._var(fn, a)
                        if v is None and (name in allrel or name.endswith("_free")):
                            # OpenSSL's typed-stack macros wrap the argument in a checker call
                            for x in fn.walk(a):
                                m = fn.nodes[x]
                                if m["k"] == "ref" and m.get("dk") == "local" and any(y[0] == m["name"] for y in st):
                                    v = m["name"]
                        if v is None:
                            continue
                        owned = [x for x in st if x[0] == v]
                        if not owned:
                            continue
                        cr = owned[0][1]
                        if name in OWN_PAIRS.get(cr, ()) or name in allrel or (name.endswith("_free") and ai == 0) or (cr in outc and name in outc[cr][1]):
                            st = st - {owned[0]}
                        elif ai in OWN_SINKS_EXT.get(name, ()):
                            st = st - {owned[0]}
                        elif any(ai < len(d.params) and E.escapes(d, ai) for d in defs):
                            st = st - {owned[0]}
                        elif defs and all(ai in SUM.must_call_params(P, d, (OWN_PAIRS.get(cr) or set()) | (outc[cr][1] if cr in outc else set()), 0, _memo=relmemo) for d in defs):
                            st = st - {owned[0]}        # a helper that releases this argument on every path (free_credentials_data)
                        elif name == "ut_realloc":
                            st = st - {owned[0]}
                    return st
                if k == "return":
                    rv = self._var(fn, n["sub"]) if n.get("sub") is not None else None
                    for v, cr in st:
                        if v == rv:
                            continue
                        if n.get("sub") is not None and any(fn.nodes[x]["k"] == "ref" and fn.nodes[x].get("name") == v for x in fn.walk(n["sub"])):
                            continue
                        bad.append((v, cr, "still owned at this return", nid))
                    return frozenset()
                return None

            def _creator_of(self, fn, nid, depth=0):
                """creator whose result the expression is (both arms of a conditional count)"""
                c = fn.sn(nid)
                if c["k"] == "call" and (c.get("callee") or "") in OWN_PAIRS:
                    return c["callee"]
                if c["k"] == "cond" and depth < 2:
                    return self._creator_of(fn, c["tv"], depth + 1) or self._creator_of(fn, c["fv"], depth + 1)
                return None

            def _moves(self, fn, st, rhs, to_local):
                """ownership moves with a plain copy of the variable into memory (fields, *out) or into another local"""
                v = self._var(fn, rhs)
                if v is None:
                    # struct initialiser / compound literal mentioning owned variables
                    for x in fn.walk(rhs):
                        m = fn.nodes[x]
                        if m["k"] == "init":
                            for e in m["elems"]:
                                vv = self._var(fn, e)
                                st = frozenset(y for y in st if y[0] != vv)
                    return st
                if to_local:
                    return st
                return frozenset(y for y in st if y[0] != v)

            def branch(self, fn, st, blk, cond, label):
                if label not in ("T", "F"):
                    return None
                l, op, r = C.cond_atom(fn, cond, label == "T")
                c = r[1] if isinstance(r, tuple) else C.const_of(fn, r)
                if c != 0:
                    return None
                ln = fn.sn(l)
                if ln["k"] == "bin" and ln["op"] == "=":
                    ln = fn.sn(ln["l"])
                v = ln["name"] if ln["k"] == "ref" and ln.get("dk") == "local" else None
                if v is not None and op == "==":
                    return frozenset(y for y in st if y[0] != v)     # NULL: nothing was obtained
                if ln["k"] == "call" and (ln.get("callee") or "") in outc and not outc[ln["callee"]][2] and op == "<":
                    a = fn.sn(ln["args"][outc[ln["callee"]][0][0]])
                    if a["k"] == "un" and a["op"] == "&":
                        ov = self._var(fn, a["sub"])
                        return frozenset(y for y in st if y[0] != ov)    # the call failed: nothing was handed out
                    # (a wrapper that loads several items may fail after some were handed out: they stay owned)
                return None

            def at_exit(self, fn, st, blk):
                # falling off the end of a void function
                for v, cr in st:
                    bad.append((v, cr, "still owned when the function ends", None))
        try:
            C.explore(f, Own(), max_states=60000)
        except RuntimeError:
            r9.note("%s: exploration budget exceeded" % f.qname)
            continue
        # implicit returns of void functions: check at blocks leading to exit without return
        ninst += len(creators)
        r9.instance("%s (%d creator call(s))" % (f.qname, len(creators)))
        seen = set()
        for v, cr, why, nid in bad:
            if (v, cr) in seen:
                continue
            seen.add((v, cr))
            r9.violation("%s:%s<-%s" % (f.name, v, cr), "%s: the object in `%s` (from %s) is %s: it is neither released (%s), stored, returned nor handed over on this path"
                         % (f.name, v, cr, why, "/".join(sorted(OWN_PAIRS.get(cr) or outc[cr][1]))), loc=f.loc(nid) if nid is not None else f.file)
        if not bad:
            r9.ok("%s: every locally obtained object has an owner at every exit" % f.qname, "ownership typestate on all paths")
    if ninst < 60:
        raise Broken("C08.R9: only %d creator call sites" % ninst)


def check_drain_loops(P, ctx, tables):
    """R11: on the close/cleanup path a loop that empties a counted collection by calling a remover (a function
    that decrements the collection's count, usually compacting the array) must run until the count is zero.  A loop
    that advances an index against the shrinking count (`for (i = 0; i < n->count; i++) remove(n, i)`) stops half way:
    every second element - its descriptor, its registration - is left behind."""
    r = ctx.rule("C08.R11", "teardown loops over a counted collection run until the collection is empty")
    roots = [f for t in tables for s_ in ("close", "cleanup") for f in [t.slots.get(s_)] if f is not None]
    roots += [g for g in (P.fn_opt("xcm_close"), P.fn_opt("xcm_cleanup")) if g is not None]
    parent, _ = CG.reach(P, roots)
    memo = {}

    def shrinks(g, depth=2):
        """field names g decrements (directly or through callees)"""
        if g.key in memo:
            return memo[g.key]
        memo[g.key] = set()
        out = set()
        for b, i, e, lhs, rhs, op in g.stores():
            fl = g.fields_of(lhs)
            if not fl:
                continue
            if op in ("--", "post--") or (op == "-=" and rhs is not None and C.const_of(g, rhs) == 1):
                out.add(fl[-1])
            elif op == "=" and rhs is not None:
                rn = g.sn(rhs)
                if rn["k"] == "bin" and rn["op"] == "-" and g.fields_of(rn["l"])[-1:] == (fl[-1],) and C.const_of(g, rn["r"]) == 1:
                    out.add(fl[-1])
        if depth > 0:
            for c in g.calls():
                for d in P.callees(g, c)[0]:
                    out |= shrinks(d, depth - 1)
        memo[g.key] = out
        return out
    n = 0
    for f in parent:
        if not f.blocks:
            continue
        for comp in C.sccs(f):
            shr = set()
            for b in comp:
                for e in f.blocks[b].elems:
                    if f.nodes[e]["k"] == "call":
                        for d in P.callees(f, e)[0]:
                            if d is not f:
                                shr |= shrinks(d)
            if not shr:
                continue
            # variables advanced inside the loop
            adv = set()
            for b in comp:
                for e in f.blocks[b].elems:
                    m = f.nodes[e]
                    if (m["k"] == "un" and m["op"] in ("++", "post++")) or (m["k"] == "bin" and m["op"] == "+="):
                        ln = f.sn(m["sub"] if m["k"] == "un" else m["l"])
                        if ln["k"] == "ref":
                            adv.add(ln.get("did"))
            for b in comp:
                blk = f.blocks[b]
                cond = blk.term.get("cond") if blk.term else None
                if cond is None or not any(s_ not in comp for s_ in C.succs(f, b)):
                    continue
                l, op, rr = C.cond_atom(f, cond, True)
                sides = [l] + ([rr] if not isinstance(rr, tuple) else [])
                flds = {f.fields_of(x)[-1] for x in sides if f.fields_of(x)}
                if not flds & shr:
                    continue
                n += 1
                r.instance("%s: loop on %s" % (f.qname, f.show(cond)[:50]))
                idx = [x for x in sides if f.sn(x)["k"] == "ref" and f.sn(x).get("did") in adv]
                if idx:
                    r.violation("%s:drain-loop-skips" % f.name, "the loop `%s` advances %s against a count that its own body decrements (%s): it ends with elements left - their "
                                "descriptors and registrations are never released" % (f.show(cond), f.show(idx[0]), sorted(flds & shr)), loc=f.loc(cond))
                else:
                    r.ok("%s: the loop ends only when %s says the collection is empty" % (f.qname, f.show(cond)[:50]), "loop condition vs. the remover's effect")
    if n < 1:
        raise Broken("C08.R11: no draining loop found on the close/cleanup path (ctl_destroy expected)")


def check_outparam_dangling(P, ctx):
    """R15: a function that releases what its out-parameter points to (`ut_free(*data)`) stores into the out-parameter
    again before it returns.  The caller still holds the variable: its own clean-up (`out_free: ut_free(cert_data)`)
    releases the stale pointer a second time - a double free under the context store's lock."""
    from .. import seq as S
    r = ctx.rule("C08.R15", "an out-parameter never leaves a function pointing at memory the function has released")
    REL = ("ut_free", "free")
    n = 0
    for f in P.functions:
        if not f.file.startswith(("libxcm/", "common/")):
            continue
        pp = {p["name"] for p in f.params if (p.get("t") or "").replace(" ", "").endswith("**")}
        if not pp:
            continue

        def deref_param(fn, nid):
            m = fn.nodes[fn._strip0(nid)]
            if m["k"] == "un" and m["op"] == "*":
                b = fn.nodes[fn._strip0(m["sub"])]
                if b["k"] == "ref" and b.get("dk") == "param" and b["name"] in pp:
                    return b["name"]
            return None
        sites = [c for c in f.calls() if (f.nodes[c].get("callee") or "") in REL and f.nodes[c]["args"] and deref_param(f, f.nodes[c]["args"][0])]
        if not sites:
            continue
        n += 1
        r.instance("%s (%d release(s) through an out-parameter)" % (f.qname, len(sites)))
        bad = []

        class Dangling(S.SeqRule):
            max_depth = 0

            def user0(s2, fn):
                return frozenset()

            def on_call(s2, fn, st, nid, callees, exts):
                if nid in sites:
                    return st.user | {deref_param(fn, fn.nodes[nid]["args"][0])}
                return None

            def on_store(s2, fn, st, nid, lhs, rhs, op):
                p_ = deref_param(fn, lhs)
                if p_ is not None and op == "=":
                    return st.user - {p_}
                return None

            def on_exit(s2, fn, st, ret_nid, ret_cls, top):
                if top and st.user and not bad:
                    bad.append((ret_nid, sorted(st.user)[0]))
        S.run(Dangling(P), f)
        if bad:
            ret, p_ = bad[0]
            r.violation("%s:*%s:dangling" % (f.name, p_), "%s can return with *%s still pointing at memory it has released: the caller's own clean-up of that variable frees it a "
                        "second time" % (f.name, p_), loc=f.loc(ret) if ret is not None else f.file)
        else:
            r.ok("%s: every release through an out-parameter is followed by a store into it" % f.qname, "path exploration")
    if n < 1:
        raise Broken("C08.R15: no release through an out-parameter found (load_file expected)")


# out-parameter creators whose object lands in a field (&rec->f); success is the value 0 of the result
FIELD_OUT_CREATORS = {"ares_init_options": (0, {"ares_destroy"})}


def check_record_teardown(P, ctx):
    """R14: a function that builds a record (allocates it, fills owning fields from creators) and gives up on a failure
    path frees the record itself - by then every field that already owns something on that path must have been
    released: the record is the only reference.  Path-sensitive: which fields own something depends on how far the
    function got (a creator that failed handed out nothing)."""
    r = ctx.rule("C08.R14", "a half-built record is freed only after the fields that already own something were released")
    allrel = set()
    for v in OWN_PAIRS.values():
        allrel |= v
    nrec = 0
    for f in P.functions:
        if not f.file.startswith(("libxcm/", "common/")):
            continue
        # locals that hold a freshly allocated record
        recs = set()
        for nid, n in f.nodes.items():
            if n["k"] == "decl":
                for v in n["vars"]:
                    if v.get("init") is not None and "*" in (v.get("t") or "") and "struct" in (v.get("t") or ""):
                        c = f.sn(v["init"])
                        if c["k"] == "call" and c.get("callee") in ("ut_malloc", "ut_calloc", "malloc", "calloc"):
                            recs.add(v["name"])
        if not recs or not any(f.nodes[c].get("callee") in ("ut_free", "free") for c in f.calls()):
            continue

        def field_of(fn, nid):
            """(record local, field) for `rec->f`"""
            m = fn.sn(nid)
            if m["k"] == "member" and m.get("field"):
                b = fn.sn(m["base"])
                if b["k"] == "ref" and b.get("name") in recs:
                    return (b["name"], m["field"])
            return None
        bad = []
        nown = [0]

        class Tear(C.Rule):
            def initial(self, fn):
                return frozenset()        # (record, field, creator, variable the outcome is pending in | None)

            def elem(self, fn, st, nid, blk, idx):
                n = fn.nodes[nid]
                k = n["k"]
                if k == "bin" and n["op"] == "=":
                    lf = field_of(fn, n["l"])
                    ln = fn.sn(n["l"])
                    rn = fn.sn(n["r"])
                    if lf and rn["k"] == "call" and (rn.get("callee") or "") in OWN_PAIRS:
                        nown[0] += 1
                        return frozenset(x for x in st if (x[0], x[1]) != lf) | {(lf[0], lf[1], rn["callee"], None)}
                    # *rec = (struct T) { .f = creator(...) }
                    if ln["k"] == "un" and ln["op"] == "*" and fn.sn(ln["sub"]).get("name") in recs:
                        rec = fn.sn(ln["sub"])["name"]
                        for x in fn.walk(n["r"]):
                            m = fn.nodes[x]
                            if m["k"] == "init" and m.get("fields"):
                                for fld, e in zip(m["fields"], m["elems"]):
                                    en = fn.sn(e)
                                    if en["k"] == "call" and (en.get("callee") or "") in OWN_PAIRS:
                                        nown[0] += 1
                                        st = st | {(rec, fld, en["callee"], None)}
                        return st
                    # the result of a field out-creator kept in a local
                    if rn["k"] == "call" and (rn.get("callee") or "") in FIELD_OUT_CREATORS and ln["k"] == "ref":
                        return self._out(fn, st, rn, ln["name"])
                    return None
                if k == "decl":
                    for v in n["vars"]:
                        if v.get("init") is not None:
                            c = fn.sn(v["init"])
                            if c["k"] == "call" and (c.get("callee") or "") in FIELD_OUT_CREATORS:
                                st = self._out(fn, st, c, v["name"])
                    return st
                if k == "call":
                    name = n.get("callee") or ""
                    if name in ("ut_free", "free") and n["args"]:
                        a = fn.sn(n["args"][0])
                        if a["k"] == "ref" and a.get("name") in recs:
                            for x in st:
                                if x[0] == a["name"]:
                                    bad.append((x, nid))
                            return frozenset(x for x in st if x[0] != a["name"])
                    for a in n["args"]:
                        lf = field_of(fn, a)
                        if lf and (name in allrel or name.endswith(("_free", "_destroy")) or any(name in FIELD_OUT_CREATORS[c_][1] for c_ in FIELD_OUT_CREATORS)):
                            st = frozenset(x for x in st if (x[0], x[1]) != lf)
                    return st
                if k == "return":
                    return frozenset()
                return None

            def _out(self, fn, st, call, var):
                ai = FIELD_OUT_CREATORS[call["callee"]][0]
                if ai < len(call["args"]):
                    a = fn.sn(call["args"][ai])
                    if a["k"] == "un" and a["op"] == "&":
                        lf = field_of(fn, a["sub"])
                        if lf:
                            nown[0] += 1
                            return st | {(lf[0], lf[1], call["callee"], var)}
                return st

            def branch(self, fn, st, blk, cond, label):
                if label not in ("T", "F"):
                    return None
                l, op, r_ = C.cond_atom(fn, cond, label == "T")
                c = r_[1] if isinstance(r_, tuple) else C.const_of(fn, r_)
                ln = fn.sn(l)
                if c is None or ln["k"] != "ref":
                    return None
                pend = [x for x in st if x[3] == ln.get("name")]
                if not pend:
                    return None
                failed = (op == "==" and c != 0) or (op == "!=" and c == 0) or (op == "<" and c <= 0) or (op == ">" and c >= 0)
                ok = (op == "==" and c == 0)
                if failed:
                    return frozenset(x for x in st if x not in pend)
                if ok:
                    return frozenset(x for x in st if x not in pend) | {(x[0], x[1], x[2], None) for x in pend}
                return None
        try:
            C.explore(f, Tear(), max_states=60000)
        except RuntimeError:
            r.note("%s: exploration budget exceeded" % f.qname)
            continue
        if nown[0] == 0:
            continue
        nrec += 1
        r.instance("%s (record %s)" % (f.qname, ", ".join(sorted(recs))))
        seen = set()
        for x, nid in bad:
            if x[:3] in seen:
                continue
            seen.add(x[:3])
            rel = OWN_PAIRS.get(x[2]) or FIELD_OUT_CREATORS[x[2]][1]
            r.violation("%s:%s.%s<-%s" % (f.name, x[0], x[1], x[2]), "%s frees the record `%s` on a path on which its field `%s` still owns what %s() produced: nothing else refers to "
                        "it, so it is never released (%s)" % (f.name, x[0], x[1], x[2], "/".join(sorted(rel))), loc=f.loc(nid))
        if not bad:
            r.ok("%s: every path that frees the half-built record has released its owning fields" % f.qname, "field-ownership typestate on all paths")
    if nrec < 1:
        raise Broken("C08.R14: no record-building function with a failure path found")


def check_active_fd_share(P, ctx):
    """R12: the always-readable descriptor is shared by a bounded number of epoll instances.  Trusted (fs/eventpoll.c,
    path_limits[]): a file may be watched through nested epoll instances by at most 1000/500/100/50/10 paths of depth
    1..5; an application that keeps xcm_fd() in its own epoll instance, itself watched by another, is at depth 3: 100.
    Beyond that EPOLL_CTL_ADD fails with EINVAL - which reg_epoll_mod answers with an assertion (see K2)."""
    r = ctx.rule("C08.R12", "no always-readable descriptor is shared by more epoll instances than the kernel's path limit for nested epoll (100)")
    LIMIT = 100
    n = 0
    for f in P.fns_in("tp/common/active_fd.c"):
        for b, cond in C.cond_blocks(f):
            l, op, rr = C.cond_atom(f, cond, True)
            if isinstance(rr, tuple) or f.sn(l)["k"] != "member":
                continue
            k = C.const_of(f, rr)
            if k is None or k < 2 or op not in ("<", "<="):
                continue
            # the T edge hands out the shared descriptor once more
            # the same function hands the descriptor out once more (counts the new user) when the test lets it
            shares = any(m["k"] == "un" and m["op"] in ("++", "post++") and f.fields_of(m["sub"])[-1:] == f.fields_of(l)[-1:] for m in f.nodes.values())
            if not shares:
                continue
            n += 1
            users = k if op == "<" else k + 1
            r.instance("%s: %s" % (f.qname, f.show(cond)))
            if users <= LIMIT:
                r.ok("%s: at most %d users per descriptor" % (f.qname, users), "constant vs. the kernel's limit")
            else:
                r.violation("%s:share-limit" % f.name, "one always-readable descriptor is handed to up to %d sockets: from the %dst epoll instance on (with xcm_fd() watched "
                            "through a nested epoll instance) EPOLL_CTL_ADD fails with EINVAL and the process is aborted by reg_epoll_mod's assertion" % (users, LIMIT + 1), loc=f.loc(cond))
    if n < 1:
        raise Broken("C08.R12: the sharing test of active_fd.c was not found")


def check_epoll_del_tolerance(P, ctx):
    """R13: a descriptor number the library has already closed (UX deinit closes before it deregisters; the kernel drops
    registrations implicitly at close) may meanwhile belong to anything another thread opened.  EPOLL_CTL_DEL on such a
    number fails with EBADF (closed), ENOENT (a different file) or EPERM (a file that cannot be polled).  The wrapper's
    failure branch aborts the process, so all three must be among the errnos it forgives."""
    r = ctx.rule("C08.R13", "a failing EPOLL_CTL_DEL is survivable for every errno a stale descriptor number can produce (EBADF, ENOENT, EPERM)")
    NEED = {9: "EBADF", 2: "ENOENT", 1: "EPERM"}
    n = 0
    for f in P.fns_in("core/xpoll.c"):
        for c in f.calls("epoll_ctl"):
            if C.const_of(f, f.nodes[c]["args"][1]) != 2:        # EPOLL_CTL_DEL
                continue
            n += 1
            r.instance("%s: %s" % (f.qname, f.show(c)[:60]))
            # the variable holding errno after the call, and the constants it is compared with on the way to the abort
            wb = f.where()[c][0]
            reach = C.reachable_blocks(f, wb)
            forgiven = set()
            aborting = False
            for b, cond in C.cond_blocks(f):
                if b.id not in reach:
                    continue
                l, op, rr = C.cond_atom(f, cond, True)
                k = C.const_of(f, rr)
                ln = f.sn(l)
                if not isinstance(rr, tuple) and k is not None and op in ("!=", "==") and (f.show(l) == "errno" or (ln["k"] == "ref" and "errno" in ln["name"])):
                    forgiven.add(k)
                # a predicate helper over the errno value: is_fd_gone_errno(epoll_errno)
                if ln["k"] == "call" and C.const_of(f, rr) == 0:
                    for d in P.callees(f, ln["id"])[0]:
                        if not (d.static and d.file == f.file):
                            continue
                        for i, a in enumerate(ln["args"]):
                            an = f.sn(a)
                            if i < len(d.params) and (f.show(a) == "errno" or (an["k"] == "ref" and "errno" in an.get("name", ""))):
                                pn = d.params[i]["name"]
                                for m in d.nodes.values():
                                    if m["k"] == "bin" and m["op"] in ("==", "!="):
                                        ml = d.sn(m["l"])
                                        kk = C.const_of(d, m["r"])
                                        if ml["k"] == "ref" and ml.get("name") == pn and kk is not None:
                                            forgiven.add(kk)
            for bb in reach:
                if f.blocks[bb].noreturn:
                    aborting = True
            missing = [nm for k, nm in NEED.items() if k not in forgiven]
            if not aborting:
                r.ok("%s: a failing EPOLL_CTL_DEL does not end the process" % f.qname, "no aborting block after the call")
            elif missing:
                r.violation("%s:EPOLL_CTL_DEL:%s" % (f.name, "+".join(missing)), "%s aborts the process when EPOLL_CTL_DEL fails with %s: the descriptor number was closed before and "
                            "may have been reused by another thread for a file of any kind" % (f.name, "/".join(missing)), loc=f.loc(c))
            else:
                r.ok("%s forgives EBADF, ENOENT and EPERM from EPOLL_CTL_DEL" % f.qname, "errno comparisons on the path to the abort")
    if n < 1:
        raise Broken("C08.R13: no EPOLL_CTL_DEL in xpoll.c")
