"""C08 - no resource leaks, stray closes or aborts on any lifecycle path
(structural clauses).  See DESIGN.md section 3/C08 for the rule list."""
import os

from .. import callgraph as CG
from .. import cfg as C
from .. import seq as S
from .. import subsock as SS
from .. import tp as TP
from ..model import Program
from ..report import Broken


def run(ctx):
    P = Program(("libxcm",))
    ctx.analysed = {"units": len(P.units), "functions": len(P.functions)}
    ctx.explanation = ("Typestate exploration (contract of xcm_tp.h) of every transport's init/connect/server/accept/close/cleanup op and of the "
                       "xcm_*_a entry points with same-unit helpers inlined and parameters bound; descriptor ownership on all paths; call-graph "
                       "reachability with the owner flag folded; assertion reachability from resource-creating calls.")
    ctx.trust("clang 14 AST/CFG; kernel releases a descriptor's epoll registrations on close")
    tables = TP.ops_tables(P)

    # ------------------------------------------------------------------ lemmas
    cands = []
    for t in tables:
        if t.slots.get("init") and t.slots["init"] not in cands:
            cands.append(t.slots["init"])
    for name in ("xcm_tp_socket_create", "xcm_tp_socket_init", "ut_malloc", "ut_calloc", "create_sub_socket", "socket_create"):
        f = P.fn_opt(name)
        if f and f not in cands:
            cands.append(f)
    # creators: static functions returning a socket pointer that call xcm_tp_socket_create
    creators = {}
    for f in P.functions:
        if SS.is_sock_ptr(f.ret) and f.static and any(True for _ in f.calls("xcm_tp_socket_create")):
            inits = any(True for _ in f.calls("xcm_tp_socket_init"))
            creators[f.name] = SS.INITED if inits else SS.UNINIT
    nf, helpers, init_of = SS.never_fails(P, cands, tables, {k for k, v in creators.items() if v == SS.INITED})
    ctx.assume("derived on this tree (protocol-resolved init dispatch): never fail / never return NULL: %s" % sorted(nf))
    if len(helpers) < 4:
        raise Broken("C08: only %d proto helpers recognised: %s" % (len(helpers), helpers))

    # ------------------------------------------------------------------ R1
    r1 = ctx.rule("C08.R1", "sub-socket typestate per the xcm_tp.h contract on every path of every lifecycle op")
    nops = 0
    for t in tables:
        own = None
        for slot in ("init", "connect", "server", "accept", "close", "cleanup"):
            f = t.slots.get(slot)
            if f is None:
                continue
            rr = SS.Sub(P, f, r1, slot, never_fails=nf, creators=creators, helpers=helpers, init_of=init_of)
            if not rr.own_fields(f):
                continue
            if "%s.%s" % (os.path.basename(f.file), f.name) in [str(i) for i in r1.instances]:
                continue
            r1.instance("%s.%s" % (os.path.basename(f.file), f.name))
            nops += 1
            S.run(rr, f)
            if rr.exits < 1:
                raise Broken("C08.R1: no exit explored in %s" % f.name)
            if not rr.reported:
                r1.ok("%s (%s): %d exits, sub-sockets %s end in the state the contract demands" % (f.qname, slot, rr.exits, rr.own_fields(f)), "typestate exploration")
    # creators themselves and the API entry points
    for f in P.functions:
        if f.name in creators or f.name in ("xcm_connect_a", "xcm_server_a", "xcm_accept_a", "xcm_close", "xcm_cleanup", "socket_create", "socket_destroy"):
            r1.instance(f.qname)
            slot = "api"
            rr = SS.Sub(P, f, r1, slot, never_fails=nf, creators={k: v for k, v in creators.items() if k != f.name}, helpers=helpers, init_of=init_of)
            S.run(rr, f)
            nops += 1
            if not rr.reported:
                r1.ok("%s: every socket created locally is returned, handed over or destroyed after being closed/cleaned" % f.qname, "typestate exploration")
    if nops < 20:
        raise Broken("C08.R1: only %d ops explored" % nops)
