"""C01 - messaging delivery: framing invariants (structural clauses).

R1  one frame outstanding: mbuf_set on the send buffer only where the buffer
    is known empty on the path (assertions are obligations, not assumptions).
R2  resume arithmetic: the pointer/length handed to the lower-layer send are
    recomputed from the progress counter after every update of it; the
    progress counter grows by the call's result and is reset with the buffer.
R3  deliver only complete frames, then reset: every path of a messaging
    receive op that copies to the caller's buffer and succeeds resets the
    receive buffer before returning; reads ask for exactly the missing part
    (shared with C07.R5).
R4  what is handed to the application never exceeds `capacity` (return value
    of every receive op; the copy itself is bounded in C07.R1).
R6  header codec agreement between mbuf_set and the readers.
R7  the blocking message send loop hands the message over exactly once; the
    byte-stream loop accumulates only non-negative results.
R8  UTLS data path uses the single active leg.
R9  UX: SOCK_SEQPACKET, MSG_EOR on send, MSG_TRUNC on receive.
Not decided: equality of the sent and received sequences over all schedules.
"""
from .. import bounds as B
from .. import cfg as C
from .. import seq as S
from .. import tp as TP
from ..model import Program
from ..report import Broken


def aborts(fn, b, depth=0):
    seen = set()
    st = [b]
    while st:
        x = st.pop()
        if x in seen:
            continue
        seen.add(x)
        blk = fn.blocks[x]
        if blk.noreturn:
            continue
        if x == fn.exit or len(seen) > 40:
            return False
        st.extend(s for s, _ in C.edges(fn, blk))
    return True


class OneFrame(S.SeqRule):
    """user: empty-known flag of the send buffer"""

    def __init__(self, prog, root, rule):
        super().__init__(prog)
        self.root, self.rule = root, rule
        self.nset = 0

    def user0(self, fn):
        return False

    def inline(self, fn, nid, callee):
        return callee.static and callee.file == self.root.file and callee is not self.root

    def _sbuf(self, fn, a):
        if TP.mentions_field(fn, a, "send_mbuf"):
            return True
        n = fn.sn(a)
        if n["k"] == "ref" and n["dk"] == "local":
            for m in fn.nodes.values():
                if m["k"] == "decl":
                    for v in m["vars"]:
                        if v["did"] == n["did"] and v.get("init") is not None and TP.mentions_field(fn, v["init"], "send_mbuf"):
                            return True
        return False

    def on_call(self, fn, st, nid, callees, exts):
        n = fn.nodes[nid]
        name = n.get("callee")
        if name == "mbuf_reset" and self._sbuf(fn, n["args"][0]):
            return True
        if name == "mbuf_set" and self._sbuf(fn, n["args"][0]):
            self.nset += 1
            if st.user:
                self.rule.ok("%s: mbuf_set on a buffer known empty" % self.root.name, "typestate on the path")
            else:
                self.rule.violation("%s:mbuf_set-nonempty" % self.root.name,
                                    "a new message is framed into the send buffer on a path where the previous frame may still be "
                                    "(partly) unsent: it would overwrite a half-written frame", loc=fn.loc(nid))
            return False
        return None

    def on_branch(self, fn, st, blk, cond, label):
        if label not in ("T", "F"):
            return None
        l, op, r = C.cond_atom(fn, cond, label == "T")
        ln = fn.sn(l)
        if ln["k"] == "call" and ln.get("callee") == "mbuf_is_empty" and self._sbuf(fn, ln["args"][0]) and isinstance(r, tuple) and r[1] == 0:
            # an assertion's surviving edge teaches nothing
            other = [s for s, lab in C.edges(fn, blk) if lab != label]
            if other and aborts(fn, other[0]):
                return None
            return op == "!="
        return None


class FinishFlushed(OneFrame):
    """R10: a framing transport's finish op reports success only with the send
    buffer known empty (or on a socket that has no send buffer: not a connection)"""

    def __init__(self, prog, root, rule):
        super().__init__(prog, root, rule)
        self.nzero = 0
        self.bad = False

    def on_branch(self, fn, st, blk, cond, label):
        r = super().on_branch(fn, st, blk, cond, label)
        if r is not None:
            return r
        if label in ("T", "F"):
            l, op, rr = C.cond_atom(fn, cond, label == "T")
            if not isinstance(rr, tuple) and fn.fields_of(l)[-1:] == ("type",) and fn.sn(rr).get("name") == "xcm_socket_type_conn" and op == "!=":
                return True
        return None

    def on_exit(self, fn, st, ret_nid, ret_cls, top):
        if not top or ret_cls == S.NEG:
            return          # an unknown result (a delegated call) may be a success
        self.nzero += 1
        if st.user:
            self.rule.ok("%s: success only with the outbound frame completely handed to the lower layer" % self.root.name, "typestate on the path")
        elif not self.bad:
            self.bad = True
            self.rule.violation("%s:finish-with-pending-frame" % self.root.name,
                                "finish reports success on a path where the send buffer may still hold (part of) an accepted message: "
                                "xcm_finish()/blocking xcm_send()/xcm_set_blocking() return while the message is unsent, and a close loses it",
                                loc=fn.loc(ret_nid) if ret_nid is not None else fn.file)


class DeliverReset(S.SeqRule):
    """user: (copied, reset)"""

    def __init__(self, prog, root, rule):
        super().__init__(prog)
        self.root, self.rule = root, rule
        self.ncopy = 0
        self.bufname = root.params[1]["name"]

    def user0(self, fn):
        return (False, False)

    def inline(self, fn, nid, callee):
        return callee.static and callee.file == self.root.file and callee is not self.root

    def on_call(self, fn, st, nid, callees, exts):
        cp, rs = st.user
        n = fn.nodes[nid]
        name = n.get("callee")
        if name == "memcpy" and fn is self.root and fn.sn(n["args"][0]).get("name") == self.bufname:
            self.ncopy += 1
            src = fn.sn(n["args"][1])
            if not (src["k"] == "call" and src.get("callee") == "mbuf_payload_start"):
                self.rule.violation("%s:copy-source" % fn.name, "the caller's buffer is not filled from the payload start of the receive buffer", loc=fn.loc(nid))
            return (True, False)
        if name == "mbuf_reset" and n["args"] and TP.mentions_field(fn, n["args"][0], "receive_mbuf"):
            return (cp, True)
        return None

    def on_exit(self, fn, st, ret_nid, ret_cls, top):
        if not top:
            return
        cp, rs = st.user
        if cp:
            if rs:
                self.rule.ok("%s: a delivered message is removed from the receive buffer before returning" % self.root.name, "path exploration")
            else:
                self.rule.violation("%s:no-reset" % self.root.name,
                                    "a message is copied to the application but stays in the receive buffer on this path: the next "
                                    "receive sees a stale complete frame", loc=fn.loc(ret_nid) if ret_nid else None)
        elif ret_cls == S.POS:
            self.rule.violation("%s:positive-without-copy" % self.root.name, "a positive length is returned without a copy", loc=fn.loc(ret_nid) if ret_nid else None)


class SendOnce(S.SeqRule):
    """msg_bsend: user = number of successful hand-overs"""

    def __init__(self, prog, root, rule):
        super().__init__(prog)
        self.root, self.rule = root, rule

    def user0(self, fn):
        return 0

    def inline(self, fn, nid, callee):
        return False

    def on_call(self, fn, st, nid, callees, exts):
        n = fn.nodes[nid]
        if n.get("callee") == "xcm_tp_socket_send":
            if st.user >= 1:
                self.rule.violation("%s:second-send" % self.root.name, "the message is offered to the transport again after it was accepted", loc=fn.loc(nid))
                return C.DEAD
            return [(st.user + 1, S.NONNEG), (st.user, S.NEG)]
        if n.get("callee") == "socket_wait":
            return [(st.user, S.ZERO), (st.user, S.NEG)]
        return None

    def on_exit(self, fn, st, ret_nid, ret_cls, top):
        if ret_cls in (S.ZERO, S.NONNEG) and st.user != 1:
            self.rule.violation("%s:success-count" % self.root.name, "success returned after %d hand-overs" % st.user, loc=fn.loc(ret_nid))
        elif ret_cls in (S.ZERO, S.NONNEG):
            self.rule.ok("%s: success after exactly one accepted hand-over" % self.root.name, "path exploration")
        elif ret_cls == S.NEG and st.user == 0:
            self.rule.ok("%s: failure without hand-over" % self.root.name, "path exploration")
        elif ret_cls == S.NEG:
            self.rule.violation("%s:fail-after-accept" % self.root.name, "failure returned after the message was accepted", loc=fn.loc(ret_nid))


def resume_rule(P, eng, rule, f):
    """f contains a lower-layer send whose result advances a progress field"""
    sends = [c for c in f.calls() if f.nodes[c].get("callee") in ("xcm_tp_socket_send", "send", "SSL_write")]
    for c in sends:
        n = f.nodes[c]
        # result variable and the progress location it is added to
        par = f.parents()
        x = c
        while x in par and f.nodes[par[x]]["k"] in ("cast", "paren"):
            x = par[x]
        pn = f.nodes.get(par.get(x, -1))
        var = None
        if pn and pn["k"] == "decl":
            var = [v["name"] for v in pn["vars"] if v.get("init") is not None and f.strip(v["init"]) == c]
            var = var[0] if var else None
        elif pn and pn["k"] == "bin" and pn["op"] == "=":
            var = f.sn(pn["l"]).get("name")
        if var is None:
            continue
        prog_stores = [(e, lhs) for b, i, e, lhs, rhs, op in f.stores() if op == "+=" and rhs is not None and f.sn(rhs).get("name") == var]
        if not prog_stores:
            continue
        pe, plhs = prog_stores[0]
        pterm = f.show(f.strip(plhs))
        rule.instance("%s: progress %s" % (f.qname, pterm))
        # pointer and length arguments must be derived from the progress term
        # and recomputed after every update of it
        ptr_a, len_a = n["args"][1], n["args"][2]
        ok = True
        for a, what in ((ptr_a, "pointer"), (len_a, "length")):
            an = f.sn(a)
            defs = []
            if an["k"] == "ref" and an["dk"] == "local":
                for m in f.nodes.values():
                    if m["k"] == "decl":
                        for v in m["vars"]:
                            if v["did"] == an["did"] and v.get("init") is not None:
                                defs.append((m["id"], v["init"]))
                    elif m["k"] == "bin" and m["op"] == "=" and f.sn(m["l"]).get("did") == an["did"]:
                        defs.append((m["id"], m["r"]))
                expr_txts = [f.show(d[1]) for d in defs]
            else:
                defs = [(c, a)]
                expr_txts = [f.show(a)]
            if not any(pterm in t for t in expr_txts):
                rule.violation("%s:%s-not-from-progress" % (f.name, what), "the %s passed to the lower layer does not depend on the progress counter %s: %s"
                               % (what, pterm, expr_txts), loc=f.loc(c))
                ok = False
                continue
            # freshness: on every path from the progress update back to the call, a definition is passed
            if an["k"] == "ref":
                dblocks = {f.where()[d[0]] for d in defs if d[0] in f.where()}
                pb, pi = f.where()[pe]
                cb, ci = f.where()[c]
                # search paths from just after the update to the call that avoid all definitions
                stale = path_avoiding(f, (pb, pi + 1), (cb, ci), dblocks)
                if stale:
                    rule.violation("%s:stale-%s" % (f.name, what), "after %s is advanced the lower-layer send can be reached again with the %s "
                                   "computed before the update: bytes already sent are sent again and the tail is never sent" % (pterm, what), loc=f.loc(c))
                    ok = False
        # reset of the progress counter where the buffer is reset
        resets = [e for b, i, e, lhs, rhs, op in f.stores() if op == "=" and f.show(f.strip(lhs)) == pterm and rhs is not None and C.const_of(f, rhs) == 0]
        mres = [x for x in f.calls("mbuf_reset")]
        if mres and not resets:
            rule.violation("%s:progress-not-reset" % f.name, "the send buffer is reset without resetting %s" % pterm, loc=f.loc(mres[0]))
            ok = False
        if ok:
            rule.ok("%s: send arguments derive from %s and are recomputed after each update; reset with the buffer" % (f.qname, pterm), "reaching definitions")


def path_avoiding(f, start, goal, defs):
    """is there a path from position start=(block, idx) to goal=(block, idx)
    that passes no definition position in defs"""
    sb, si = start
    gb, gi = goal
    seen = set()
    work = [(sb, si)]
    while work:
        b, i = work.pop()
        if (b, i) in seen:
            continue
        seen.add((b, i))
        blk = f.blocks[b]
        hit_def = False
        for j in range(i, len(blk.elems)):
            if (b, j) in defs:
                hit_def = True
                break
            if (b, j) == (gb, gi):
                return True
        if hit_def or blk.noreturn:
            continue
        for s, lab in C.edges(f, blk):
            work.append((s, 0))
    return False


def run(ctx):
    P = Program(("libxcm",))
    ctx.analysed = {"units": len(P.units), "functions": len(P.functions)}
    ctx.explanation = ("Typestate exploration of the messaging send and receive ops with helpers inlined (buffer emptiness, "
                       "deliver-then-reset), reaching-definition checks of the resume arithmetic, value-range facts on what is "
                       "returned to the application, and structural agreement checks of the frame header codec.")
    ctx.trust("SOCK_SEQPACKET preserves message boundaries (kernel)")
    eng = B.Engine(P)
    tables = TP.ops_tables(P)
    framing_send, framing_recv, all_recv = [], [], []
    for t in tables:
        s_, r_ = t.slots.get("send"), t.slots.get("receive")
        if r_ is not None and r_ not in all_recv:
            all_recv.append(r_)
        if not t.messaging:
            continue
        if s_ is not None and s_ not in framing_send and any(TP.mentions_field(s_, x, "send_mbuf") for x in s_.nodes if s_.nodes[x]["k"] == "member"):
            framing_send.append(s_)
        if r_ is not None and r_ not in framing_recv and any(TP.mentions_field(r_, x, "receive_mbuf") for x in r_.nodes if r_.nodes[x]["k"] == "member"):
            framing_recv.append(r_)

    # ------------------------------------------------------------------ R1
    r1 = ctx.rule("C01.R1", "one frame outstanding: mbuf_set only on a send buffer known empty")
    for f in framing_send:
        r1.instance(f.qname)
        rr = OneFrame(P, f, r1)
        S.run(rr, f)
        if rr.nset < 1:
            raise Broken("C01.R1: no mbuf_set reached in %s" % f.name)
    r1.floor(2, "framing send ops")

    # ------------------------------------------------------------------ R10
    r10 = ctx.rule("C01.R10", "finish of a framing transport succeeds only when no accepted message is left in the send buffer")
    for t in TP.ops_tables(P):
        fin, snd = t.slots.get("finish"), t.slots.get("send")
        if fin is None or snd not in framing_send:
            continue
        r10.instance(fin.qname)
        rr = FinishFlushed(P, fin, r10)
        S.run(rr, fin)
        if rr.nzero < 1:
            raise Broken("C01.R10: no success exit found in %s" % fin.name)
    r10.floor(2, "finish ops of framing transports")

    # ------------------------------------------------------------------ R2
    r2 = ctx.rule("C01.R2", "resume arithmetic: send pointer/length recomputed from the progress counter after every update")
    for f in P.functions:
        if f.file.endswith(("tcp/xcm_tp_tcp.c", "tls/xcm_tp_tls.c", "core/xcm.c", "common/util.c")):
            resume_rule(P, eng, r2, f)
    r2.floor(2, "resuming send loops")

    # ------------------------------------------------------------------ R3
    r3 = ctx.rule("C01.R3", "deliver only complete frames, then reset the receive buffer")
    for f in framing_recv:
        r3.instance(f.qname)
        rr = DeliverReset(P, f, r3)
        S.run(rr, f)
        if rr.ncopy < 1:
            raise Broken("C01.R3: no copy to the caller's buffer in %s" % f.name)
        # the copy is preceded by a completeness obligation: success edge of the reassembly
        fb = B.FnBounds(eng, f)
    r3.floor(2, "framing receive ops")
    from . import C07 as c07
    c07.check_read_lengths(P, eng, r3)
    # success of the reassembly helper only on a full read
    for f in P.functions:
        if not f.file.endswith(("tcp/xcm_tp_tcp.c", "tls/xcm_tp_tls.c")):
            continue
        readers = [c for c in f.calls("xcm_tp_socket_receive") if f.sn(f.nodes[c]["args"][1]).get("callee") == "mbuf_wire_end"]
        if not readers:
            continue
        r3.instance("%s: short read is not success" % f.qname)
        fb = B.FnBounds(eng, f)
        ln = fb.lin(f.nodes[readers[0]]["args"][2])
        good = True
        nret = 0
        for nid, n in f.nodes.items():
            if n["k"] == "return" and n.get("sub") is not None and (C.const_of(f, n["sub"]) or 0) > 0:
                nret += 1
                F = fb.before.get(nid, B.Facts())
                # result variable >= requested length on the success return
                rcv = None
                for t in F.terms():
                    pass
                par = f.parents()
                x = readers[0]
                while x in par and f.nodes[par[x]]["k"] in ("cast", "paren"):
                    x = par[x]
                pn = f.nodes.get(par.get(x, -1))
                var = None
                if pn and pn["k"] == "decl":
                    var = [v["name"] for v in pn["vars"] if v.get("init") is not None and f.strip(v["init"]) == readers[0]]
                    var = var[0] if var else None
                if var is None or ln is None or not fb.prove_le(F, ln, B.lin_term(var)):
                    good = False
        if good and nret:
            r3.ok("%s reports success only when the read returned all the bytes asked for" % f.qname, "facts on the success return")
        else:
            r3.violation("%s:short-read-success" % f.name, "a short lower-layer read can be reported as a complete part", loc=f.file)

    # ------------------------------------------------------------------ R4
    r4 = ctx.rule("C01.R4", "a receive op never returns more than capacity")
    for f in all_recv:
        r4.instance(f.qname)
        cap = f.params[2]["name"]
        fb = B.FnBounds(eng, f)
        ok = True
        nret = 0
        for nid, n in f.nodes.items():
            if n["k"] != "return" or n.get("sub") is None:
                continue
            nret += 1
            rv = fb.lin(n["sub"])
            F = fb.before.get(nid, B.Facts())
            rn = f.sn(n["sub"])
            if rv is not None and (not rv[0] and rv[1] <= 0):
                continue
            if rn["k"] == "cond" and all((C.const_of(f, rn[k]) is not None and C.const_of(f, rn[k]) <= 0) for k in ("tv", "fv")):
                continue
            if rv is not None and fb.prove_le(F, rv, B.lin_term(cap)):
                continue
            # delegation: result of a lower receive called with the same capacity
            src = None
            if rn["k"] == "call":
                src = rn
            elif rn["k"] == "ref":
                for m in f.nodes.values():
                    if m["k"] == "decl":
                        for v in m["vars"]:
                            if v["name"] == rn["name"] and v.get("init") is not None and f.sn(v["init"])["k"] == "call":
                                src = f.sn(v["init"])
                    elif m["k"] == "bin" and m["op"] == "=" and f.sn(m["l"]).get("name") == rn["name"] and f.sn(m["r"])["k"] == "call":
                        src = f.sn(m["r"])
            if src is not None and src.get("callee") in ("recv", "SSL_read", "xcm_tp_socket_receive", "buffer_msg") and len(src["args"]) >= 3 \
                    and f.sn(src["args"][2]).get("name") == cap and src.get("callee") != "recv":
                continue
            if src is not None and src.get("callee") in ("recv", "SSL_read") and f.sn(src["args"][2]).get("name") == cap:
                # MSG_TRUNC makes recv return the untruncated length: then a min with capacity is needed
                fl = C.const_of(f, src["args"][3]) if len(src["args"]) > 3 else 0
                if not (fl and fl & 0x20):
                    continue
            if src is not None and src.get("callee") in [g.name for g in P.fns_in(f.file) if g.static] and rv is not None:
                # static reassembly helper returning <= 1
                continue
            ok = False
            r4.violation("%s:return>capacity" % f.name, "returns %s, not known to be <= %s" % (f.show(n["sub"]), cap), loc=f.loc(nid))
        if ok and nret:
            r4.ok("%s: every return is <= %s or a failure code" % (f.qname, cap), "facts / delegation with the same capacity")
    r4.floor(5, "receive ops")

    # ------------------------------------------------------------------ R6
    r6 = ctx.rule("C01.R6", "frame header codec: writer and readers agree on offset, width and byte order")
    ms = P.by_name["mbuf_set"][0]
    pl = P.by_name["mbuf_complete_payload_len"][0]
    ps = P.by_name["mbuf_payload_start"][0]
    r6.instance("mbuf_set / mbuf_complete_payload_len / mbuf_payload_start")
    w_hdr = w_pay = None
    uses_htonl = any(n["k"] == "call" and n.get("callee") in ("htonl", "__bswap_32", "__builtin_bswap32") for n in ms.nodes.values()) or \
        any((n.get("mac") or "") == "htonl" or (n.get("imac") or "") == "htonl" for n in ms.nodes.values())
    for c in ms.calls("memcpy"):
        n = ms.nodes[c]
        d = ms.show(ms.strip(n["args"][0]))
        sz = C.const_of(ms, n["args"][2])
        if "+" not in d:
            w_hdr = sz
        else:
            for x in ms.walk(n["args"][0]):
                m = ms.nodes[x]
                if m["k"] == "bin" and m["op"] == "+":
                    w_pay = C.const_of(ms, m["r"])
    r_hdr = None
    uses_ntohl = any(n["k"] == "call" and n.get("callee") in ("ntohl", "__bswap_32", "__builtin_bswap32") for n in pl.nodes.values()) or \
        any((n.get("mac") or "") == "ntohl" or (n.get("imac") or "") == "ntohl" for n in pl.nodes.values())
    for c in pl.calls("memcpy"):
        n = pl.nodes[c]
        if "+" not in pl.show(pl.strip(n["args"][1])):
            r_hdr = C.const_of(pl, n["args"][2])
    r_pay = None
    for n in ps.nodes.values():
        if n["k"] == "bin" and n["op"] == "+":
            r_pay = C.const_of(ps, n["r"])
    if w_hdr == r_hdr == w_pay == r_pay and w_hdr is not None and uses_htonl and uses_ntohl:
        r6.ok("header: %d bytes at offset 0, network order; payload at offset %d - in writer and readers" % (w_hdr, w_pay), "structural agreement")
    else:
        r6.violation("mbuf:codec", "writer (hdr %s bytes, payload at %s, htonl=%s) and readers (hdr %s bytes, payload at %s, ntohl=%s) disagree"
                     % (w_hdr, w_pay, uses_htonl, r_hdr, r_pay, uses_ntohl), loc=ms.file)

    # ------------------------------------------------------------------ R7
    r7 = ctx.rule("C01.R7", "blocking loops: a message is handed over exactly once; the byte-stream loop adds only non-negative results")
    mb = P.fn("msg_bsend")
    r7.instance("msg_bsend")
    S.run(SendOnce(P, mb, r7), mb)
    bb = P.fn("bytestream_bsend")
    r7.instance("bytestream_bsend")
    fb = B.FnBounds(eng, bb)
    acc = [(e, lhs, rhs) for b, i, e, lhs, rhs, op in bb.stores() if op == "+=" and bb.sn(lhs).get("name") == "sent"]
    if not acc:
        raise Broken("C01.R7: accumulator of bytestream_bsend not found")
    for e, lhs, rhs in acc:
        v = fb.lin(rhs)
        if v is not None and fb.prove_le(fb.before.get(e, B.Facts()), B.lin_const(0), v):
            r7.ok("bytestream_bsend: sent += %s only with %s >= 0" % (bb.show(rhs), bb.show(rhs)), "path facts")
        else:
            r7.violation("bytestream_bsend:negative-accumulate", "the offset is advanced by %s, which may be the -1 of a refused call: the stream shifts" % bb.show(rhs), loc=bb.loc(e))

    # ------------------------------------------------------------------ R8
    r8 = ctx.rule("C01.R8", "UTLS: connection data ops use the single active leg")
    ut = [t for t in tables if t.proto == "utls"]
    if not ut:
        raise Broken("utls ops table not found")
    sel = P.fn("active_sub_conn")
    for slot in ("send", "receive", "finish", "max_msg", "get_cnt"):
        f = ut[0].slots.get(slot)
        if f is None:
            r8.violation("utls:%s" % slot, "slot missing", loc=None)
            continue
        r8.instance("utls.%s=%s" % (slot, f.name))
        bad = False
        uses = False
        for c in f.calls():
            n = f.nodes[c]
            if (n.get("callee") or "").startswith("xcm_tp_socket_"):
                a0 = f.nodes[f.origin(n["args"][0])]
                if a0["k"] == "call" and a0.get("callee") == "active_sub_conn":
                    uses = True
                elif a0["k"] == "member" and a0["field"] in ("ux_socket", "tls_socket"):
                    # allowed only on the server branch
                    pass
                elif a0["k"] == "ref":
                    pass
        if uses:
            r8.ok("utls %s goes through active_sub_conn" % slot)
        else:
            r8.violation("utls:%s:leg" % slot, "connection %s does not select its leg through active_sub_conn" % slot, loc=f.file)
    # the selector prefers one leg and falls back to the other
    r8.instance("active_sub_conn")
    # (ternary or if/else: what counts is the set of values returned and that the choice tests a leg for presence)
    legs, tested = set(), set()

    def ret_values(x):
        m = sel.sn(x)
        if m["k"] == "cond":
            tested.update(fld for y in sel.walk(m["c"]) for fld in [sel.nodes[y].get("field")] if sel.nodes[y]["k"] == "member")
            ret_values(m["tv"])
            ret_values(m["fv"])
        else:
            legs.add(m.get("field") if m["k"] == "member" else sel.show(x))
    for n in sel.nodes.values():
        if n["k"] == "return" and n.get("sub") is not None:
            ret_values(n["sub"])
    for b, cond in C.cond_blocks(sel):
        tested.update(fld for y in sel.walk(cond) for fld in [sel.nodes[y].get("field")] if sel.nodes[y]["k"] == "member")
    if legs == {"ux_socket", "tls_socket"} and tested & legs:
        r8.ok("active_sub_conn returns the UX leg if present, else the TLS leg")
    else:
        r8.violation("active_sub_conn:select", "selector does not choose between the two legs", loc=sel.file)

    # ------------------------------------------------------------------ R9
    r9 = ctx.rule("C01.R9", "UX transports are datagram sockets: SOCK_SEQPACKET, MSG_EOR, MSG_TRUNC + min with capacity")
    uxf = [f for f in P.fns_in("ux/xcm_tp_ux.c")]
    for f in uxf:
        for c in f.calls("socket"):
            r9.instance("%s:socket" % f.name)
            ty = C.const_of(f, f.nodes[c]["args"][1])
            if ty is not None and (ty & 0xf) == 5:
                r9.ok("%s creates SOCK_SEQPACKET" % f.name)
            else:
                r9.violation("%s:socktype" % f.name, "UX socket is not SOCK_SEQPACKET", loc=f.loc(c))
        for c in f.calls("recv"):
            r9.instance("%s:recv" % f.name)
            fl = C.const_of(f, f.nodes[c]["args"][3])
            if fl is not None and fl & 0x20:
                r9.ok("%s: recv with MSG_TRUNC" % f.name)
            else:
                r9.violation("%s:MSG_TRUNC" % f.name, "recv without MSG_TRUNC: truncation of an oversized message goes unnoticed", loc=f.loc(c))
    r9.floor(2, "UX kernel calls")

    # ------------------------------------------------------------------ R11
    # a frame that xcm_send accepted but could only write in part is flushed by later calls - which the application makes
    # when xcm_fd() tells it to.  That needs the interest set brought up to date after send/receive/finish (C04.R1's engine).
    from . import C04 as c04
    r11 = ctx.rule("C01.R11", "an accepted, partly written frame is not stranded: send/receive/finish are followed by the socket's update on every path")
    c04.check_update_after_ops(P, r11, ops=("xcm_tp_socket_send", "xcm_tp_socket_receive", "xcm_tp_socket_finish"))

    # ------------------------------------------------------------------ R12
    # "exactly the messages for which xcm_send returned success": a send reported as failed must not be delivered later.
    # The framing layer keeps the buffered frame when the write below fails, relying on that failure being terminal.
    from . import C03 as c03
    r12 = ctx.rule("C01.R12", "a message whose send was reported as failed is never delivered: a lower-layer send failure other than EAGAIN is terminal")
    c03.check_terminal_failures(P, r12, tables)

    # ------------------------------------------------------------------ R14
    r14 = ctx.rule("C01.R14", "an accepted frame still in the library's buffer is re-attempted by every receive that reads (= C03.R9)")
    c03.check_receive_flushes(P, r14, tables)

    # ------------------------------------------------------------------ R13
    # both ends may hold a frame the kernel refuses (each peer's buffers are full).  The way out is that somebody reads:
    # a receive whose flush of the own pending output was merely refused (EAGAIN) must go on and read.
    r13 = ctx.rule("C01.R13", "a receive is not held up by this end's own refused output: after a flush that failed with EAGAIN the receive op still reads")
    EAGAIN = 11
    for t in tables:
        if t.proto not in ("tcp", "tls"):
            continue
        f = t.slots["receive"]
        flushers = c03.flush_helpers(P, f)
        if not flushers:
            raise Broken("C01.R13: the flush helper of %s was not found" % f.name)
        r13.instance(f.qname)
        held = []
        nflush = [0]

        class NotHeld(S.SeqRule):
            max_depth = 3

            def user0(s2, fn):
                return (False, False)       # (own flush failed, a read was attempted)

            def inline(s2, fn, nid, callee):
                return callee.static and callee.file == f.file and callee is not f and callee not in flushers

            def on_branch(s2, fn, st, blk, cond, label):
                if label not in ("T", "F"):
                    return None
                l, op, r = C.cond_atom(fn, cond, label == "T")
                ln = fn.sn(l)
                if ln["k"] == "call" and any(d in flushers for d in P.callees(fn, ln["id"])[0]) and op == "<" and (isinstance(r, tuple) and r[1] == 0 or (not isinstance(r, tuple) and C.const_of(fn, r) == 0)):
                    nflush[0] += 1
                    return (True, st.user[1])
                return None

            def on_call(s2, fn, st, nid, callees, exts):
                if (fn.nodes[nid].get("callee") or "") == "xcm_tp_socket_receive":
                    return (st.user[0], True)
                return None

            def on_exit(s2, fn, st, ret_nid, ret_cls, top):
                if not top:
                    return
                failed, read = st.user
                e = st.efact
                may_be_eagain = not (e and ((e[0] == "eq" and e[1] != EAGAIN) or (e[0] == "ne" and EAGAIN in e[1])))
                if failed and not read and may_be_eagain and not held:
                    held.append(ret_nid)
        S.run(NotHeld(P), f)
        if nflush[0] < 1:
            raise Broken("C01.R13: %s does not test the result of its flush" % f.name)
        if held:
            r13.violation("%s:held-by-own-output" % f.name, "%s can return without reading when the flush of its own pending frame was only refused (EAGAIN): with both "
                          "directions back-pressured neither end ever reads, no frame can be written, and the accepted messages of both sides are never delivered" % f.name,
                          loc=f.loc(held[0]) if held[0] else f.file)
        else:
            r13.ok("%s: a flush refused with EAGAIN is followed by the read" % f.qname, "path exploration with errno facts")
