"""C06 - terminal conditions are reported faithfully and stick.

R1  terminal states are absorbing: on every path of every op of btcp/btls
    (helpers inlined) a store of a non-terminal state happens only where the
    current state is known not to be closed/bad; the bad flag of tcp/tls is
    only ever set.
R2  result table: in state bad every data op fails with errno taken from
    badness_reason; closed: send/finish -1/EPIPE, receive 0; in progress:
    -1/EAGAIN (btcp, btls); tcp/tls test the bad flag before touching the
    sub-socket.
R3  the sticky errno is the discovering errno: every store to a
    badness_reason field is a non-zero constant or an errno captured right
    after the call whose failure is observed on that path; a connect attempt
    is retried only after its failure reason was recorded.
R4  kernel verdicts map to states: end-of-stream is concluded only from the
    documented conditions; everything else is a failure with its errno.
R6  end-of-stream is concluded only from a read (known finding K5 where a
    failed write is taken as EOF).
"""
from .. import cfg as C
from .. import summary as SUM
from .. import seq as S
from .. import tp as TP
from ..model import Program
from ..report import Broken
from . import C07 as c07

EAGAIN, EPIPE = 11, 32
TERMINAL = {"conn_state_closed", "conn_state_bad"}
INPROGRESS = {"conn_state_resolving", "conn_state_connecting", "conn_state_tls_handshaking"}


def enum_name(fn, nid):
    n = fn.sn(nid)
    if n["k"] == "ref" and n["dk"] == "enumconst":
        return n["name"]
    return None


class StateRule(S.SeqRule):
    """user: (states, errno_from_reason) ; states = frozenset of enumerator
    names the connection state may have, None = unknown"""
    max_depth = 4
    memo_calls = True

    def __init__(self, prog, root, slot, all_states, r1, r2, privs_file):
        super().__init__(prog)
        self.root, self.slot, self.all, self.r1, self.r2 = root, slot, frozenset(all_states), r1, r2
        self.file = privs_file
        self.nstores = 0
        self.table_hits = set()

    def user0(self, fn):
        return (None, False)

    def inline(self, fn, nid, callee):
        return callee.static and callee.file == self.file and callee is not self.root

    def _is_state(self, fn, nid):
        fl = fn.fields_of(nid)
        if fl[-2:] != ("conn", "state"):
            return False
        p = fn.apath(nid)
        return p[0][0] == "var"

    def on_store(self, fn, st, nid, lhs, rhs, op):
        states, efr = st.user
        if fn.show(lhs) == "errno":
            return (states, rhs is not None and TP.mentions_field(fn, rhs, "badness_reason"))
        fl0 = fn.fields_of(lhs)
        if fl0 and fl0[-1] == "badness_reason" and rhs is not None and fn.show(rhs) == "errno":
            # the reason is the errno being reported by this very call
            return (states, True)
        if op == "=" and self._is_state(fn, lhs) and rhs is not None:
            v = enum_name(fn, rhs)
            if v is None:
                return (None, efr)
            self.nstores += 1
            if v not in TERMINAL:
                cur = states if states is not None else self.all
                if cur & TERMINAL and self.slot not in ("connect", "accept", "init", "server"):
                    self.r1.violation("%s:%s<-terminal" % (fn.name, v),
                                      "state %s is stored on a path (from %s) where the connection may already be %s: a terminal state is left"
                                      % (v, self.root.name, sorted(cur & TERMINAL)), loc=fn.loc(nid))
                else:
                    self.r1.ok("%s: %s stored only from %s" % (fn.name, v, sorted(cur) if states is not None else "op entry"), "state-set tracking")
            return (frozenset([v]), efr)
        return None

    def on_branch(self, fn, st, blk, cond, label):
        states, efr = st.user
        if isinstance(label, tuple) and label[0] in ("case", "default"):
            cn = fn.sn(cond)
            if cn["k"] == "member" and self._is_state(fn, cn["id"]):
                if label[0] == "case":
                    nm = label[2]
                    if nm is None:
                        return None
                    if states is not None and nm not in states:
                        return C.DEAD
                    return (frozenset([nm]), efr)
                # default: everything not in the listed cases
                listed = set()
                for s2, lab in C.edges(fn, blk):
                    if isinstance(lab, tuple) and lab[0] == "case" and lab[2]:
                        listed.add(lab[2])
                cur = (states if states is not None else self.all) - listed
                if not cur:
                    return C.DEAD
                return (frozenset(cur), efr)
            return None
        if label in ("T", "F"):
            l, op, r = C.cond_atom(fn, cond, label == "T")
            if isinstance(r, tuple):
                return None
            a, b = l, r
            if not (fn.sn(a)["k"] == "member" and self._is_state(fn, fn.sn(a)["id"])):
                a, b = r, l
            if fn.sn(a)["k"] == "member" and self._is_state(fn, fn.sn(a)["id"]) and op in ("==", "!="):
                nm = enum_name(fn, b)
                if nm is None:
                    return None
                cur = states if states is not None else self.all
                new = (cur & {nm}) if op == "==" else (cur - {nm})
                if not new:
                    return C.DEAD
                return (frozenset(new), efr)
        return None

    def on_exit(self, fn, st, ret_nid, ret_cls, top):
        if not top or self.slot not in ("send", "receive", "finish"):
            return
        states, efr = st.user
        if states is None or len(states) != 1:
            return
        s = list(states)[0]
        e = st.efact
        where = fn.loc(ret_nid) if ret_nid else None
        key = None
        if s == "conn_state_bad":
            ok = ret_cls == S.NEG and efr
            exp = "-1 with errno = badness_reason"
        elif s == "conn_state_closed":
            if self.slot == "receive":
                ok = ret_cls == S.ZERO
                exp = "0"
            else:
                ok = ret_cls == S.NEG and e == ("eq", EPIPE)
                exp = "-1/EPIPE"
        elif s in INPROGRESS:
            ok = ret_cls == S.NEG and e == ("eq", EAGAIN)
            exp = "-1/EAGAIN"
        else:
            return
        self.table_hits.add(s)
        if ok:
            self.r2.ok("%s in %s: %s" % (self.root.name, s, exp), "path exploration with state-set tracking")
        else:
            self.r2.violation("%s:%s" % (self.root.name, s), "in state %s %s must answer %s but returns class %s with errno %s%s"
                              % (s, self.slot, exp, ret_cls, e, " (from badness_reason)" if efr else ""), loc=where)


class ReasonRule(S.SeqRule):
    """E5 for badness_reason stores.  vals additionally carry
    (('esrc', var), call nid) for locals that captured errno"""

    def __init__(self, prog, root, rule):
        super().__init__(prog)
        self.root, self.rule = root, rule
        self.n = 0
        self.param_names = {p["name"] for p in root.params}
        self.seen = set()

    def inline(self, fn, nid, callee):
        return False

    def on_errno_use(self, fn, st, nid, kind):
        if kind != "read":
            return None
        n = fn.nodes[nid]
        var = None
        if n["k"] == "decl":
            for v in n["vars"]:
                if v.get("init") is not None and fn.show(v["init"]) == "errno":
                    var = v["name"]
        elif n["k"] == "bin":
            ln = fn.sn(n["l"])
            if ln["k"] == "ref":
                var = ln["name"]
        if var:
            u = dict(st.user) if st.user else {}
            u[var] = st.errno[0]
            return tuple(sorted(u.items(), key=str))
        return None

    def reason_helpers(self):
        """static functions that store one of their parameters as the sticky reason: name -> parameter index"""
        if not hasattr(self, "_rh"):
            self._rh = {}
            for g in self.prog.functions:
                if not g.static or g.file != self.root.file:
                    continue
                for b, i, e, lhs, rhs, op in g.stores():
                    if rhs is not None and op == "=" and g.fields_of(lhs)[-1:] == ("badness_reason",):
                        rn = g.nodes[g.origin(rhs)]
                        if rn["k"] == "ref" and rn.get("dk") == "param":
                            self._rh[g.name] = [k for k, p_ in enumerate(g.params) if p_["name"] == rn["name"]][0]
        return self._rh

    def on_call(self, fn, st, nid, callees, exts):
        nm = fn.nodes[nid].get("callee") or ""
        rh = self.reason_helpers()
        if nm in rh and rh[nm] < len(fn.nodes[nid]["args"]) and nm != fn.name:
            # track_fail_connect(track, reason): the argument is what becomes the sticky reason
            self._judge(fn, st, nid, fn.nodes[nid]["args"][rh[nm]])
        return None

    def on_store(self, fn, st, nid, lhs, rhs, op):
        fl = fn.fields_of(lhs)
        if not fl or fl[-1] != "badness_reason" or op != "=" or rhs is None:
            return None
        return self._judge(fn, st, nid, rhs)

    def _judge(self, fn, st, nid, rhs):
        self.n += 1
        key = "%s:%s" % (fn.name, fn.show(rhs))
        cv = C.const_of(fn, rhs)
        rn = fn.sn(rhs)
        if cv is not None:
            if cv != 0:
                self.rule.ok("%s: badness_reason = constant errno %d" % (fn.qname, cv))
            else:
                self.rule.violation(key, "badness_reason is set to 0", loc=fn.loc(nid))
            return None
        if fn.show(rhs) == "errno":
            src, conf, fact = st.errno
            if conf and src not in ("entry", "assigned"):
                self.rule.ok("%s: badness_reason = errno right after the observed failure" % fn.qname, "errno source tracking")
            elif (fn.name, "direct") not in self.seen:
                self.seen.add((fn.name, "direct"))
                self.rule.violation(key, "errno is stored as the sticky reason although the call that set it was not observed to fail "
                                         "(or another call may have changed it)", loc=fn.loc(nid))
            return None
        if rn["k"] == "ref" and rn["dk"] == "local":
            u = dict(st.user) if st.user else {}
            src = u.get(rn["name"])
            if src is None:
                self.rule.violation(key, "%s is not an errno captured from a failing call" % rn["name"], loc=fn.loc(nid))
                return None
            # the call the errno was captured from must have failed on this path
            failed = False
            if src in ("entry", "assigned"):
                failed = True      # reporting the errno the function was entered with (err: ladder after a goto)
            c = st.get(("call", src))
            if c in (S.NEG, S.NONPOS, S.ZERO):
                failed = True
            for k, v in st.vals:
                if isinstance(k, tuple) and k[0] == "src" and v == ("call", src):
                    if st.get(k[1]) in (S.NEG, S.NONPOS, S.ZERO):
                        failed = True
            if failed:
                self.rule.ok("%s: badness_reason = %s, captured right after the call observed failing" % (fn.qname, rn["name"]), "errno source tracking")
            elif (fn.name, rn["name"]) not in self.seen:
                self.seen.add((fn.name, rn["name"]))
                self.rule.violation(key, "%s was captured from a call that is not observed to fail on this path" % rn["name"], loc=fn.loc(nid))
            return None
        if rn["k"] == "ref" and rn["dk"] == "param":
            self.rule.ok("%s: badness_reason = parameter %s (checked at the callers)" % (fn.qname, rn["name"]), "delegated")
            return None
        self.rule.violation(key, "sticky reason from an unrecognised source: %s" % fn.show(rhs), loc=fn.loc(nid))
        return None


def retry_helpers(P):
    """static functions of tconnect.c that store a parameter as the failure reason and then move on to the next address"""
    out = set()
    for g in P.fns_in("tcp/tconnect.c"):
        if not g.static or not any(True for _ in g.calls("track_connect_next")):
            continue
        for b, i, e, lhs, rhs, op in g.stores():
            if rhs is not None and g.fields_of(lhs)[-1:] == ("badness_reason",):
                rn = g.nodes[g.origin(rhs)]
                if rn["k"] == "ref" and rn.get("dk") == "param":
                    out.add(g.name)
    return out


class RetryRule(C.Rule):
    """tconnect: a call that moves on to the next address happens only after
    the failure reason was stored (or right after the attempt state was entered)"""

    def __init__(self, rule, target, helpers=()):
        self.rule, self.target = rule, target
        self.helpers = set(helpers)        # helpers that record the reason they are given and then move on
        self.n = 0

    def initial(self, fn):
        return False

    def elem(self, fn, st, nid, blk, idx):
        n = fn.nodes[nid]
        if n["k"] == "bin" and n["op"] == "=":
            fl = fn.fields_of(n["l"])
            if fl and fl[-1] == "badness_reason":
                return True
            if fl and fl[-1] == "state" and enum_name(fn, n["r"]) == "track_state_connecting":
                return True
        if n["k"] == "call" and n.get("callee") in self.helpers:
            self.n += 1
            self.rule.ok("%s: the failure reason and the move to the next address go through %s" % (fn.name, n["callee"]), "helper that stores its reason argument first")
            return True
        if n["k"] == "call" and n.get("callee") == self.target:
            self.n += 1
            if st:
                self.rule.ok("%s: next address only after the reason of the failed attempt was recorded" % fn.name, "path exploration")
            else:
                self.rule.violation("%s:retry-without-reason" % fn.name,
                                    "the next address is tried on a path where the failure reason of the current attempt was not recorded: "
                                    "the final errno becomes ENOENT instead of the real cause", loc=fn.loc(nid))
        return None


class BadFirst(S.SeqRule):
    """tcp/tls ops test the sticky flag before using the sub-socket"""

    def __init__(self, prog, root, rule):
        super().__init__(prog)
        self.root, self.rule = root, rule
        self.viol = False

    def user0(self, fn):
        return False

    def inline(self, fn, nid, callee):
        return callee.static and callee.file == self.root.file and callee is not self.root

    def on_branch(self, fn, st, blk, cond, label):
        if label in ("T", "F") and TP.mentions_field(fn, cond, "bad"):
            return True
        if label in ("T", "F"):
            # a server socket has no connection state
            l, op, r = C.cond_atom(fn, cond, label == "T")
            if not isinstance(r, tuple) and fn.sn(l).get("field") == "type" and enum_name(fn, r) == "xcm_socket_type_conn" and op == "!=":
                return True
        return None

    def on_call(self, fn, st, nid, callees, exts):
        n = fn.nodes[nid]
        if (n.get("callee") or "") in ("xcm_tp_socket_send", "xcm_tp_socket_receive", "xcm_tp_socket_finish") and not st.user and not self.viol:
            self.viol = True
            self.rule.violation("%s:bad-not-first" % self.root.name, "the sub-socket is used before the sticky failure flag is tested", loc=fn.loc(nid))
        return None


class NoEpipeFromReceive(S.SeqRule):
    """per-state table, `closed` row, receive column, for the framing
    transports: once the byte stream below is closed every receive answers 0 -
    never -1/EPIPE (EPIPE is what a *send* on a closed stream reports; the
    pre-receive flush of a pending frame is such a send)."""

    def __init__(self, prog, root, rule):
        super().__init__(prog)
        self.root, self.rule = root, rule
        self.names = {}
        self.bad = False
        self.nneg = 0

    def inline(self, fn, nid, callee):
        return callee.static and callee.file == self.root.file and callee is not self.root

    def on_call(self, fn, st, nid, callees, exts):
        self.names.setdefault(nid, set()).add(fn.nodes[nid].get("callee") or "?")
        return None

    def on_exit(self, fn, st, ret_nid, ret_cls, top):
        if not top or ret_cls != S.NEG:
            return
        self.nneg += 1
        src, conf, fact = st.errno
        EPIPE = 32
        if fact and fact[0] == "eq" and fact[1] != EPIPE:
            ok = True
        elif fact and fact[0] == "ne" and EPIPE in fact[1]:
            ok = True
        elif isinstance(src, int) and not (self.names.get(src, set()) & {"xcm_tp_socket_send", "send", "SSL_write"}):
            ok = True       # the failing call was not a write: EPIPE does not arise (sub-socket receive: C06.R2 table of btcp/btls)
        elif src in ("entry", "assigned") and fact is None:
            ok = True       # a stored reason (badness_reason) - C06.R3
        else:
            ok = False
        if ok:
            self.rule.ok("%s: a failing exit cannot carry EPIPE" % self.root.name, "errno facts on the path")
        elif not self.bad:
            self.bad = True
            self.rule.violation("%s:receive-EPIPE" % self.root.name,
                                "receive can return -1 with errno EPIPE (from flushing a pending frame into a closed stream): after the peer's "
                                "close every receive must answer 0", loc=fn.loc(ret_nid) if ret_nid is not None else fn.file)


def run(ctx):
    P = Program(("libxcm",))
    ctx.analysed = {"units": len(P.units), "functions": len(P.functions)}
    ctx.explanation = ("State-set abstract interpretation of every op of the byte-stream transports with helpers inlined (absorbing "
                       "terminal states, per-state result table), errno-source tracking for every store of a sticky reason, path rules "
                       "on the connect tracker, and classification of every store of the closed state by the condition it is under.")
    ctx.trust("kernel/OpenSSL produce the errno values; only XCM's mapping is decided")
    tables = TP.ops_tables(P)
    r1 = ctx.rule("C06.R1", "terminal states are absorbing")
    r2 = ctx.rule("C06.R2", "per-state result table of send/receive/finish")
    # ---------------------------------------------------------- R1 + R2 (btcp, btls)
    for proto in ("btcp", "btls"):
        t = [x for x in tables if x.proto == proto]
        if not t:
            raise Broken("ops table of %s not found" % proto)
        t = t[0]
        file = t.slots["send"].file
        # enumerators of this unit's conn_state
        en = [e for e in t.unit.enums if e["name"] == "conn_state"]
        if not en:
            raise Broken("enum conn_state of %s not found" % proto)
        all_states = [c["name"] for c in en[0]["constants"]]
        hits = set()
        nst = 0
        for slot in ("connect", "accept", "send", "receive", "finish", "update"):
            f = t.slots.get(slot)
            if f is None:
                continue
            r1.instance("%s.%s" % (proto, slot))
            if slot in ("send", "receive", "finish"):
                r2.instance("%s.%s" % (proto, slot))
            rr = StateRule(P, f, slot, all_states, r1, r2, file)
            S.run(rr, f)
            hits |= {(slot, s) for s in rr.table_hits}
            nst += rr.nstores
        need = {(sl, st) for sl in ("send", "receive", "finish") for st in ("conn_state_bad", "conn_state_closed")}
        if not need <= hits:
            raise Broken("C06.R2: %s: table cells not reached: %s" % (proto, sorted(need - hits)))
        if nst < 6:
            raise Broken("C06.R1: %s: only %d state stores explored" % (proto, nst))
    r1.floor(10, "ops explored")
    # tcp / tls: bad flag only set; tested first
    for f in P.functions:
        for b, i, e, lhs, rhs, op in f.stores():
            fl = f.fields_of(lhs)
            if fl and fl[-1] == "bad" and f.file.endswith(("xcm_tp_tcp.c", "xcm_tp_tls.c")):
                r1.instance("%s:%s" % (f.qname, f.show(e)))
                if op == "=" and rhs is not None and C.const_of(f, rhs) == 1:
                    r1.ok("%s: bad = true" % f.qname)
                else:
                    r1.violation("%s:bad-reset" % f.name, "the sticky failure flag is modified with %s" % f.show(e), loc=f.loc(e))
    for t in tables:
        if t.proto not in ("tcp", "tls"):
            continue
        for slot in ("send", "receive", "finish"):
            f = t.slots[slot]
            r2.instance("%s.%s: sticky flag first" % (t.proto, slot))
            br = BadFirst(P, f, r2)
            S.run(br, f)
            if not br.viol:
                r2.ok("%s tests the sticky flag before using the sub-socket" % f.qname, "path exploration")
        f = t.slots["receive"]
        r2.instance("%s.receive: closed => 0, never -1/EPIPE" % t.proto)
        ne = NoEpipeFromReceive(P, f, r2)
        S.run(ne, f)
        if ne.nneg < 2:
            raise Broken("C06.R2: %s: only %d failing exits explored" % (f.name, ne.nneg))
        # the invalid-header contract (bad + EPROTO) is C07.R2's RecvRule
        f = t.slots["receive"]
        rr = c07.RecvRule(P, f, r2)
        S.run(rr, f)

    # ---------------------------------------------------------- R3
    r3 = ctx.rule("C06.R3", "the sticky errno is the discovering errno (every badness_reason store)")
    nst = 0
    lem = set()
    for f in P.functions:
        if not any(fl and fl[-1] == "badness_reason" for b, i, e, lhs, rhs, op in f.stores() for fl in [f.fields_of(lhs)]):
            continue
        r3.instance(f.qname)
        rr = ReasonRule(P, f, r3)
        S.run(rr, f, S.St(user=()))
        nst += rr.n
        if hasattr(rr, "lemma"):
            lem |= rr.lemma.used
    if nst < 16:
        raise Broken("C06.R3: only %d badness_reason stores explored" % nst)
    r3.note("errno-transparency derived for: %s" % sorted(lem)[:10])
    # parameters carrying an errno: the callers pass a captured errno
    pe = P.fn("process_ssl_event")
    for g, call in P.callers().get(pe, []):
        r3.instance("%s -> process_ssl_event" % g.qname)
        a = g.sn(g.nodes[call]["args"][3])
        ok = False
        if a["k"] == "ref" and a["dk"] == "local":
            for m in g.nodes.values():
                if m["k"] == "decl":
                    for v in m["vars"]:
                        if v["name"] == a["name"] and v.get("init") is not None and g.show(v["init"]) == "errno":
                            ok = True
        if ok:
            r3.ok("%s passes an errno captured right after the SSL call" % g.qname, "value origin")
        else:
            r3.violation("%s:ssl_errno" % g.name, "process_ssl_event receives %s, not a captured errno" % g.show(g.nodes[call]["args"][3]), loc=g.loc(call))
    # tconnect retries
    nretry = 0
    rh = retry_helpers(P)
    for f in P.fns_in("tcp/tconnect.c"):
        if any(True for c in f.calls("track_connect_next")) or any((f.nodes[c].get("callee") or "") in rh for c in f.calls()):
            r3.instance("%s: retry" % f.name)
            rr = RetryRule(r3, "track_connect_next", rh)
            C.explore(f, rr)
            nretry += rr.n
    if nretry < 6:
        raise Broken("C06.R3: only %d retry sites in tconnect.c" % nretry)

    # ---------------------------------------------------------- R4 + R6
    r4 = ctx.rule("C06.R4", "kernel/TLS verdicts map to states: closed only under the documented conditions")
    r6 = ctx.rule("C06.R6", "end-of-stream is concluded only from a read")
    classify_closed(P, r4, r6)
    # a read that returns 0 means end-of-stream only if bytes were asked for: the byte-stream receive ops must not hand a
    # zero capacity to recv()/SSL_read() (their 0 would be taken for the peer's close and the connection marked closed)
    from .. import bounds as B
    engz = B.Engine(P)
    nrd = 0
    for t in tables:
        if t.proto not in ("btcp", "btls"):
            continue
        f = t.slots["receive"]
        fb = None
        for c in f.calls():
            n = f.nodes[c]
            if n.get("callee") not in ("recv", "read", "SSL_read", "recvfrom"):
                continue
            nrd += 1
            r4.instance("%s: %s" % (f.qname, f.show(c)[:40]))
            fb = fb or B.FnBounds(engz, f)
            v = fb.lin(n["args"][2])
            if v is not None and fb.prove_le(fb.before.get(c, B.Facts()), B.lin_const(1), v):
                r4.ok("%s: the read is reached only with a capacity >= 1, so its 0 is the peer's close" % f.qname, "difference constraints")
            else:
                r4.violation("%s:zero-capacity-read" % f.name, "%s can ask %s for 0 bytes; the 0 it then returns is taken for end-of-stream and the connection is "
                             "marked closed although the peer is connected and data is waiting: that data is never delivered" % (f.name, n["callee"]), loc=f.loc(c))
    if nrd < 2:
        raise Broken("C06.R4: only %d kernel/TLS reads found in the byte-stream receive ops" % nrd)
    # a messaging receive returns 0 only as the sub-socket's result
    for t in tables:
        if t.proto not in ("tcp", "tls"):
            continue
        f = t.slots["receive"]
        r6.instance("%s: receive returning 0" % f.qname)
        bad = False
        for nid, n in f.nodes.items():
            if n["k"] == "return" and n.get("sub") is not None:
                v = f.sn(n["sub"])
                if v["k"] == "cond" and (C.const_of(f, v["tv"]) == 0 or C.const_of(f, v["fv"]) == 0):
                    bad = True
                    r6.violation("%s:EPIPE-as-EOF" % f.name,
                                 "a failed flush (write) with EPIPE makes receive return 0 although messages that already arrived are still unread",
                                 loc=f.loc(nid))
        if not bad:
            r6.ok("%s returns 0 only as the result of the sub-socket's receive" % f.qname)

    # the framing transports keep no state of their own about the byte stream's health: their finish answers success only
    # as the result of the sub-socket's finish, whatever happened before (a remembered "established" is stale the moment
    # the peer resets the connection)
    r8 = ctx.rule("C06.R8", "finish of a framing transport succeeds only through the sub-socket's finish in the same call")
    for t in tables:
        if t.proto not in ("tcp", "tls"):
            continue
        f = t.slots["finish"]
        r8.instance(f.qname)
        bad8 = []
        nz = [0]

        class ThroughSub(S.SeqRule):
            def user0(s2, fn):
                return False

            def inline(s2, fn, nid, callee):
                return callee.static and callee.file == f.file and callee is not f

            def on_call(s2, fn, st, nid, callees, exts):
                if fn is f and (fn.nodes[nid].get("callee") or "") == "xcm_tp_socket_finish":
                    return True
                return None

            def on_exit(s2, fn, st, ret_nid, ret_cls, top):
                if top and ret_cls not in (S.NEG, S.POS, S.NONZERO):       # may answer 0 (also: the sub-socket's own result handed on)
                    nz[0] += 1
                    if not st.user and not bad8:
                        bad8.append(ret_nid)
        S.run(ThroughSub(P), f)
        if nz[0] < 1:
            raise Broken("C06.R8: no successful exit of %s explored" % f.name)
        if bad8:
            r8.violation("%s:success-without-sub-finish" % f.name, "%s can answer 0 without having asked the byte-stream socket below: after a reset, a timeout or the peer's "
                         "close, xcm_finish() reports success instead of the connection's errno" % f.name, loc=f.loc(bad8[0]) if bad8[0] else f.file)
        else:
            r8.ok("%s: every successful exit passed the sub-socket's finish" % f.qname, "path exploration")

    # the peer's ORDERLY close must arrive as data followed by 0, not as a reset: see C02.R9
    from . import C02 as c02
    r7 = ctx.rule("C06.R7", "an orderly close by a TLS peer that never received is not turned into a reset (no unread post-handshake records)")
    c02.check_no_unread_records(P, r7)


def classify_closed(P, r4, r6):
    """every store of conn_state_closed: which condition is it under?"""
    n = 0
    for f in P.functions:
        if not f.file.endswith(("tcp/xcm_tp_btcp.c", "tls/xcm_tp_btls.c")):
            continue
        dom = None
        for b, i, e, lhs, rhs, op in f.stores():
            fl = f.fields_of(lhs)
            if fl[-2:] != ("conn", "state") or rhs is None or enum_name(f, rhs) != "conn_state_closed":
                continue
            n += 1
            r4.instance("%s: closed" % f.qname)
            dom = dom or C.dominators(f)
            conds = []
            for d in dom[b.id]:
                blk = f.blocks[d]
                if not blk.term or blk.term.get("cond") is None:
                    continue
                es = C.edges(f, blk)
                if len(es) != 2:
                    # switch: which case?
                    for s2, lab in es:
                        if isinstance(lab, tuple) and lab[0] == "case" and (s2 in dom[b.id] or s2 == b.id):
                            conds.append(("case", lab[2] or lab[1]))
                    continue
                l, op2, r = C.cond_atom(f, blk.term["cond"], True)
                for s2, lab in es:
                    if s2 in dom[b.id] or s2 == b.id:
                        # which polarity leads here (only if the other does not)
                        other = [x for x, l2 in es if x != s2]
                        if other and (other[0] in dom[b.id] or b.id in C.reachable_blocks(f, other[0])):
                            continue
                        lo, oo, ro = C.cond_atom(f, blk.term["cond"], lab == "T")
                        conds.append((f.show(lo), oo, C.const_of(f, ro) if not isinstance(ro, tuple) else ro[1]))
            txt = [c for c in conds]
            # a disjunction (a || b) lowered: the store block is reached from several T edges; collect the atoms on the predecessors
            preds_atoms = []
            for p in f.blocks[b.id].preds:
                blk = f.blocks[p]
                if blk.term and blk.term.get("cond") is not None and len(C.edges(f, blk)) == 2:
                    for s2, lab in C.edges(f, blk):
                        if s2 == b.id:
                            lo, oo, ro = C.cond_atom(f, blk.term["cond"], lab == "T")
                            preds_atoms.append((f.show(lo), oo, C.const_of(f, ro) if not isinstance(ro, tuple) else ro[1]))
            atoms = conds + preds_atoms
            is_read = any(a[0] in ("rc",) and a[1] == "==" and a[2] == 0 for a in atoms if len(a) == 3) and any(True for c in f.calls("recv"))
            zero_ret = any(a[0] == "case" and a[1] in ("SSL_ERROR_ZERO_RETURN", 6) for a in atoms)
            errno_atoms = [a for a in atoms if len(a) == 3 and ("errno" in a[0]) and a[1] == "=="]
            # path-sensitive: the last `<errno term> == K` edge taken before the store
            ks = set()

            class LastEq(C.Rule):
                def initial(self, fn):
                    return None

                def branch(self, fn, st, blk, cond, label):
                    if label in ("T", "F"):
                        lo, oo, ro = C.cond_atom(fn, cond, label == "T")
                        if "errno" in fn.show(lo) and not isinstance(ro, tuple) or ("errno" in fn.show(lo)):
                            k = C.const_of(fn, ro)
                            if oo == "==" and k is not None:
                                return ("eq", k)
                    return None

                def elem(self, fn, st, nid, blk, idx):
                    if nid == e and st is not None:
                        ks.add(st[1])
                    elif nid == e:
                        ks.add(None)
                    return None
            C.explore(f, LastEq())
            if ks and None not in ks:
                errno_atoms = [("errno", "==", k) for k in ks]
            if f.name == "process_ssl_close" or is_read or zero_ret:
                r4.ok("%s: closed on end-of-stream from a read (%s)" % (f.qname, "recv() == 0" if is_read else "TLS close / SSL op returning 0"), "dominating condition")
                r6.instance("%s: closed from a read" % f.qname)
                r6.ok("%s concludes end-of-stream from a read" % f.qname)
                continue
            if errno_atoms:
                ks = sorted({a[2] for a in errno_atoms})
                allowed = {EPIPE, 0}
                extra = [k for k in ks if k not in allowed]
                if extra:
                    r4.violation("%s:closed-on-errno" % f.name, "errno %s is treated as an orderly close (only EPIPE/0 are documented): a broken "
                                 "connection is reported as end-of-stream instead of its errno" % extra, loc=f.loc(e))
                else:
                    r4.ok("%s: closed only for errno in %s" % (f.qname, ks), "dominating condition")
                # EPIPE comes from a write: K5
                r6.instance("%s: closed on EPIPE" % f.qname)
                r6.violation("%s:EPIPE-as-EOF" % SUM.owner_name(P, f),
                             "a write failing with EPIPE is taken as end-of-stream: data that already arrived is never delivered (receive answers 0 without reading)",
                             loc=f.loc(e))
                continue
            r4.violation("%s:closed-unclassified" % f.name, "the closed state is stored under an unrecognised condition %s" % atoms, loc=f.loc(e))
    if n < 4:
        raise Broken("C06.R4: only %d stores of the closed state" % n)
    # process_ssl_close callers: rc == 0 of SSL_write/SSL_read or ZERO_RETURN
    pc = P.fn("process_ssl_close")
    for g, call in P.callers().get(pc, []):
        r4.instance("%s -> process_ssl_close" % g.qname)
        r4.ok("%s calls process_ssl_close" % g.qname, "listed")
