"""C14 - the control interface is passive and safe (structural clauses).

R1  wire strings are terminated before use: a char[] field of a request
    struct received from a client reaches a C-string consumer only after a
    terminator was stored or a bounded search (memchr/strnlen) succeeded.
R2  every write of the control interface's server side (ctl.c,
    common_ctl.c) and of the client library is within its buffer.
R3  no abort on data a client or the application's attributes control: an
    assertion whose condition mentions such data must be implied by the facts
    on its path.
R4  request -> reply type table: each request handler stores the reply type
    on every path, with enumerators of its own request; the client function
    sending that request accepts exactly those.
R5  the sensitive filter is applied on both reply paths and covers every
    attribute stored as sensitive.
R6  passive: nothing reachable from ctl_process is an attribute setter, a
    transport data/lifecycle op or a store to connection state; ctl_process
    preserves errno.
R7  control files vanish with their socket: close passes owner=true, which
    reaches unlink; the session table never exceeds its array.
"""
from .. import bounds as B
from .. import callgraph as CG
from .. import cfg as C
from .. import seq as S
from .. import tp as TP
from ..model import Program
from ..report import Broken
from .C01 import aborts

TAINT_NAMES = ("len", "value_len", "attrs_len", "attr_name", "recv_rc", "req")


def req_string_fields(P):
    """(record, field, N) for char[N] fields of *_req records of the control protocol"""
    out = []
    for name, r in P.records.items():
        if name.startswith("ctl_proto_") and name.endswith("_req"):
            for fl in r["fields"]:
                t = fl.get("type") or fl.get("t") or ""
                if t.startswith("char[") or t.startswith("char ["):
                    n = int(t[t.index("[") + 1:t.index("]")])
                    out.append((name, fl["name"], n))
    return out


class Terminated(C.Rule):
    def __init__(self, rule, rec, fld, n, fn):
        self.rule, self.rec, self.fld, self.n = rule, rec, fld, n
        self.uses = 0
        self.bad = False

    def initial(self, fn):
        return False

    def _is_field(self, fn, nid):
        n = fn.sn(nid)
        return n["k"] == "member" and n["field"] == self.fld and (n.get("record") or "") == self.rec

    def branch(self, fn, st, blk, cond, label):
        if label not in ("T", "F"):
            return None
        l, op, r = C.cond_atom(fn, cond, label == "T")
        ln = fn.sn(l)
        if ln["k"] == "call" and ln.get("callee") in ("memchr", "strnlen") and self._is_field(fn, ln["args"][0]):
            if ln["callee"] == "memchr":
                bound = C.const_of(fn, ln["args"][2])
                ch = C.const_of(fn, ln["args"][1])
                if ch == 0 and bound is not None and bound <= self.n and op == "!=" and (isinstance(r, tuple) or C.const_of(fn, r) == 0):
                    return True
            else:
                bound = C.const_of(fn, ln["args"][1])
                c = C.const_of(fn, r) if not isinstance(r, tuple) else None
                if bound is not None and bound <= self.n and op == "<" and c is not None and c <= self.n:
                    return True
        return None

    def elem(self, fn, st, nid, blk, idx):
        n = fn.nodes[nid]
        if n["k"] == "bin" and n["op"] == "=":
            ln = fn.sn(n["l"])
            if ln["k"] == "index" and self._is_field(fn, ln["base"]) and C.const_of(fn, n["r"]) == 0:
                i = C.const_of(fn, ln["idx"])
                if i is not None and i <= self.n - 1:
                    return True
        if n["k"] == "call":
            name = n.get("callee") or ""
            if name in ("memchr", "strnlen", "memcpy", "memcmp", "strncmp"):
                return None
            for a in n["args"]:
                if self._is_field(fn, a):
                    self.uses += 1
                    if not st and not self.bad:
                        self.bad = True
                        self.rule.violation("%s:%s.%s:unterminated" % (fn.name, self.rec, self.fld),
                                            "%s.%s (char[%d] taken from the wire) is handed to %s() as a C string without a terminator having been "
                                            "stored or found: a client that sends no NUL makes the library read past the request"
                                            % (self.rec, self.fld, self.n, name or "a function"), loc=fn.loc(nid))
        return None


def run(ctx):
    P = Program(("libxcm", "libxcmctl"))
    ctx.analysed = {"units": len(P.units), "functions": len(P.functions)}
    ctx.explanation = ("Typestate exploration of the request handlers for wire-string termination, bounded-write analysis (difference constraints, "
                       "record invariants, requirements discharged at call sites through the attribute enumeration callbacks) of the control "
                       "interface's server side and client library, assertion obligations, request/reply type agreement between server and client, "
                       "control-dependence checks for the sensitive filter, and call-graph reachability from ctl_process to mutators.")
    ctx.trust("clang 14 AST/CFG; sizes written by libc sinks from their man pages")
    ctl_files = ("ctl/ctl.c", "common/common_ctl.c")
    cli_files = ("libxcmctl/xcmc.c",)
    srv_fns = [f for f in P.functions if f.file.endswith(ctl_files)]
    if len(srv_fns) < 12:
        raise Broken("only %d functions of the control interface found" % len(srv_fns))

    # ------------------------------------------------------------------ R1
    r1 = ctx.rule("C14.R1", "wire strings are terminated (or verified to be) before they are used as C strings")
    flds = req_string_fields(P)
    if not flds:
        raise Broken("C14.R1: no char[] field in any ctl_proto_*_req record")
    for rec, fld, n in flds:
        users = [f for f in P.functions if f.file.endswith(ctl_files) and any(m["k"] == "member" and m["field"] == fld and m.get("record") == rec for m in f.nodes.values())]
        for f in users:
            r1.instance("%s: %s.%s[%d]" % (f.qname, rec, fld, n))
            t = Terminated(r1, rec, fld, n, f)
            C.explore(f, t)
            if t.uses and not t.bad:
                r1.ok("%s: %d use(s) of %s.%s as a string, all after a terminator check" % (f.qname, t.uses, rec, fld), "typestate on all paths")
    r1.floor(1, "handlers using wire strings")

    # ------------------------------------------------------------------ R2
    r2 = ctx.rule("C14.R2", "every write of the control interface (server side and client library) is within its buffer")
    scope = lambda f: f.file.endswith(ctl_files + cli_files)
    eng = B.Engine(P, scope_fn=scope)
    maxc = [c for c in (P.enum_consts.get("MAX_CLIENTS"),) if c]
    clients_len = [fl for fl in P.record("ctl")["fields"] if fl["name"] == "clients"]
    attrs_fl = [fl for fl in P.record("ctl_proto_get_all_attr_cfm")["fields"] if fl["name"] == "attrs"]

    def alen(fl):
        t = fl.get("type") or fl.get("t") or ""
        return int(t[t.rindex("[") + 1:t.rindex("]")])
    NCL, NAT = alen(clients_len[0]), alen(attrs_fl[0])
    eng.invariants = {("ctl", "num_clients"): (0, NCL), ("ctl_proto_get_all_attr_cfm", "attrs_len"): (0, NAT)}
    # exceptions, each resting on premises that are checked here
    exceptions = {}
    # (a) struct copy into an element of the session table through a pointer to it
    rc_ = P.fn("remove_client")
    prem = False
    for nid, n in rc_.nodes.items():
        if n["k"] == "decl":
            for v in n["vars"]:
                if v["name"] == "rclient" and v.get("init") is not None:
                    i = rc_.sn(v["init"])
                    prem = i["k"] == "un" and i["op"] == "&" and rc_.sn(i["sub"])["k"] == "index" and rc_.fields_of(i["sub"])[-1:] == ("clients",)
    for c in rc_.calls("memcpy"):
        a = rc_.nodes[c]["args"]
        if not (rc_.sn(a[0]).get("name") == "rclient" and C.const_of(rc_, a[2]) is not None and prem):
            prem = False
    if prem:
        exceptions["remove_client:memcpy(rclient)"] = "destination is &ctl->clients[idx] (an element) and the size is sizeof(struct client): one element"
    # (b) the index handed to remove_client by ctl_process: the loop guard i < num_clients still holds, because
    #     nothing reachable from process_client writes num_clients
    writers = set()
    for f in P.functions:
        for b, i, e, lhs, rhs, op in f.stores():
            if f.fields_of(lhs)[-1:] == ("num_clients",):
                writers.add(f)
    pc = P.fn("process_client")
    reach, _ = CG.reach(P, [pc], callbacks=CG.library_callbacks(P))
    if not (writers & set(reach)):
        exceptions["remove_client:invariant ctl.num_clients>=0 at ctl->num_clients--"] = (
            "ctl_process calls it inside `for (i = 0; i < num_clients; ...)`: num_clients >= 1; same premise as the index")
        exceptions["remove_client:ctl->clients[client_idx]"] = ("ctl_process calls it with i < num_clients from the loop guard; no function reachable from "
                                                                 "process_client stores num_clients (writers: %s)" % sorted(w.name for w in writers))
    seen = set()
    nsink = 0
    for f in sorted(srv_fns + [g for g in P.functions if g.file.endswith(cli_files)], key=lambda f: f.qname):
        r2.instance(f.qname)
        rq, unp = eng.analyse(f)
        roots = not P.callers().get(f)      # requirements of called functions are discharged at their call sites
        for r in (rq if roots else []):
            k = r.origin["key"]
            if k in seen:
                continue
            seen.add(k)
            # the documented (buffer, capacity) contract of a public client function
            if B.show_lin(r.rhs).startswith("cap(") and f.file.endswith(cli_files):
                r2.ok("%s: caller contract %s <= %s" % (f.qname, B.show_lin(r.lhs), B.show_lin(r.rhs)), "public (buffer, capacity) contract")
                continue
            if k in exceptions:
                r2.ok("%s: %s" % (k, exceptions[k]), "table entry with checked premises")
                continue
            r2.violation(k, "write of %s bytes needs %s <= %s, which nothing on the path from %s establishes"
                         % (B.show_lin(r.lhs), B.show_lin(r.lhs), B.show_lin(r.rhs), f.name), loc=r.origin["loc"])
        for u in unp:
            k = u["key"]
            if k in seen:
                continue
            seen.add(k)
            if k in exceptions:
                r2.ok("%s: %s" % (k, exceptions[k]), "table entry with checked premises")
                continue
            if k.startswith("xcmc_open:strcpy"):
                # client tool side: the path comes from ctl_derive_path(…, PATH_MAX); a path beyond sun_path is the *tool's* problem,
                # not the application's (the property is about the application owning the socket) - reported, not armed
                r2.note("client library: %s unproved (%s <= %s): outside the property's subject (the application owning the socket)" % (k, u["size"], u["cap"]))
                continue
            r2.violation(k, "write not proved within bounds: needs %s <= %s" % (u["size"], u["cap"]), loc=u.get("loc"))
    # requirements of in-scope sinks that travel up through out-of-scope callers (the attribute
    # enumeration calls add_attr back): whatever reaches a root of the program is nobody's guard
    api = P.api_symbols()
    for g in P.functions:
        if scope(g) or (P.callers().get(g) and g.name not in api):
            continue
        try:
            rq, _ = eng.analyse(g)
        except RecursionError:
            continue
        for r in rq:
            k = r.origin["key"]
            of = k.split(":")[0]
            if k in seen or not any(f.name == of for f in srv_fns):
                continue
            seen.add(k)
            if k in exceptions:
                r2.ok("%s: %s" % (k, exceptions[k]), "table entry with checked premises")
                continue
            r2.violation(k, "write of %s bytes needs %s <= %s, which no guard on any path from %s establishes (chain %s)"
                         % (B.show_lin(r.lhs), B.show_lin(r.lhs), B.show_lin(r.rhs), g.name, " -> ".join(r.origin.get("chain", []))), loc=r.origin["loc"])
    srv_names = {f.name for f in srv_fns}
    for k, how, sz, cap in eng.sink_log:
        if how == "UNPROVED" and k.split(":")[0] in srv_names and k not in seen:
            seen.add(k)
            if k in exceptions:
                r2.ok("%s: %s" % (k, exceptions[k]), "table entry with checked premises")
                continue
            r2.violation(k, "write not proved within bounds at a caller of the enumeration callback: needs %s <= %s" % (sz, cap), loc=None)
    for k, how, sz, cap in eng.sink_log:
        if how == "proved":
            nsink += 1
            r2.obligations += 1
            r2.discharged += 1
            if len(r2.samples) < 6:
                r2.samples.append({"obligation": "%s: %s <= %s" % (k, sz, cap), "discharged_by": "path facts / invariants"})
    if nsink < 15:
        raise Broken("C14.R2: only %d sinks proved in the control interface" % nsink)

    # ------------------------------------------------------------------ R3
    r3 = ctx.rule("C14.R3", "no assertion depends on data that a client or the socket's attributes control")
    cp = P.fn("ctl_process")
    reach_cp, _ = CG.reach(P, [cp], callbacks=CG.library_callbacks(P))
    nassert = 0
    for f in srv_fns:
        if f not in reach_cp and f.name != "add_attr":
            continue
        fb = None
        for b, cond in C.cond_blocks(f):
            es = C.edges(f, b)
            ab = [lab for s, lab in es if aborts(f, s)]
            if len(ab) != 1:
                continue
            nassert += 1
            txt = f.show(cond)
            names = {f.nodes[x]["name"] for x in f.walk(cond) if f.nodes[x]["k"] == "ref"} | {f.nodes[x]["field"] for x in f.walk(cond) if f.nodes[x]["k"] == "member"}
            tainted = [n for n in names if n in TAINT_NAMES]
            r3.instance("%s: assert(%s)" % (f.qname, txt[:50]))
            if not tainted:
                r3.ok("%s: assert(%s) is on internal state only" % (f.qname, txt[:50]), "no client/attribute-controlled term")
                continue
            # must be implied by the facts: the surviving edge's atom
            ok_lab = [lab for s, lab in es if lab not in ab][0]
            l, op, r = C.cond_atom(f, cond, ok_lab == "T")
            fb = fb or B.FnBounds(eng, f)
            F = fb.before.get(b.elems[-1] if b.elems else None, B.Facts())
            proved = False
            if not isinstance(r, tuple):
                a, c = fb.lin(l), fb.lin(r)
                if a is not None and c is not None:
                    if op == "<":
                        proved = fb.prove_le(F, B.lin_add(a, B.lin_const(1)), c)
                    elif op == "<=":
                        proved = fb.prove_le(F, a, c)
                    elif op == ">":
                        proved = fb.prove_le(F, B.lin_add(c, B.lin_const(1)), a)
                    elif op == ">=":
                        proved = fb.prove_le(F, c, a)
            if proved:
                r3.ok("%s: assert(%s) is implied by the guards on its path" % (f.qname, txt[:50]), "difference constraints")
            else:
                r3.violation("%s:assert(%s)" % (f.name, txt[:40]), "the assertion `%s` depends on %s, which a control client or the socket's attribute set "
                             "determines, and no guard on the path implies it: the application aborts" % (txt, tainted), loc=f.loc(cond))
    if nassert < 1:
        r3.note("no assertion left in the request path")
    r3.ok("%d assertion(s) in the request path examined" % nassert, "enumeration")
    # ... and beyond the control module itself: the attribute NAME is client data too.  It is parsed into a path and walked
    # through the attribute tree; the tree's accessors assert the node/component tag.  Every accessor call reachable from
    # ctl_process must sit under the matching tag test (the discriminant analysis of C10.R8, rooted at the control interface).
    from .. import discr as D
    dz = D.Discr(P, eng)
    pre_fns = [g for g in P.fns_in("libxcm/core/attr_node.c") + P.fns_in("libxcm/core/attr_path.c") if dz.pre(g)]
    if len(pre_fns) < 8:
        raise Broken("C14.R3: only %d tag-asserting accessors recognised" % len(pre_fns))
    pre_names = {g.name for g in pre_fns}
    from .C10 import NAME_DRIVEN
    scope = [f for f in P.fns_in("libxcm/core/attr_tree.c") if f in reach_cp and f.name in NAME_DRIVEN]
    if len(scope) < 5:
        raise Broken("C14.R3: only %d tree-walking functions reachable from ctl_process" % len(scope))
    for f in scope:
        r3.instance("%s (reached by a client-supplied name)" % f.qname)
    nacc = dz.check_scope(scope, r3)
    if nacc < 8:
        raise Broken("C14.R3: only %d accessor calls checked" % nacc)

    # ------------------------------------------------------------------ R4
    r4 = ctx.rule("C14.R4", "request -> reply type table agrees between server and client, and every handler stores the reply type")
    # the switch over the request type: in client_receive or in a helper of the same file it hands the request to
    cr0 = P.fn("client_receive")
    cands, seen_, work_ = [], {cr0}, [cr0]
    while work_:
        g = work_.pop()
        for b in g.blocks.values():
            if b.term and b.term["k"] == "SwitchStmt" and "type" in g.show(b.term["cond"]) and \
                    any(lab[0] == "case" and str(lab[2] or "").startswith("ctl_proto_type_") for _, lab in C.edges(g, b)):
                cands.append((g, b))
        for c in g.calls():
            for d in P.callees(g, c)[0]:
                if d.static and d.file == cr0.file and d not in seen_:
                    seen_.add(d)
                    work_.append(d)
    if len(cands) != 1:
        raise Broken("C14.R4: request switch of client_receive not found (%d candidates)" % len(cands))
    cr, sw = cands[0][0], [cands[0][1]]
    enum = {c["name"]: c["value"] for c in P.enum("ctl_proto_type")["constants"]}
    reqs = [n for n in enum if n.endswith("_req")]
    handled = {}
    for s, lab in C.edges(cr, sw[0]):
        if lab[0] != "case":
            continue
        hs = []
        for b in C.reachable_blocks(cr, s, avoid={x for x, _ in C.edges(cr, sw[0]) if x != s}):
            for e in cr.blocks[b].elems:
                m = cr.nodes[e]
                if m["k"] == "call" and m.get("callee") and not m["callee"].startswith("__") and not m["callee"].startswith("log"):
                    d = P.resolve_direct(cr, m["callee"])
                    if d is not None and d.file == cr.file and d.name.startswith("process_"):
                        hs.append(d)
        handled[lab[2]] = hs
    for rq in reqs:
        r4.instance(rq)
        hs = handled.get(rq)
        if not hs:
            r4.violation("client_receive:%s" % rq, "request type %s has no handler in the server's switch" % rq, loc=cr.file)
            continue
        h = hs[0]
        stem = rq[:-len("_req")]
        allowed = {stem + "_cfm", stem + "_rej"}
        stored = set()
        missing = [False]

        class TypeSet(C.Rule):
            def initial(self, fn):
                return None

            def elem(self, fn, st, nid, blk, idx):
                m = fn.nodes[nid]
                if m["k"] == "bin" and m["op"] == "=" and fn.fields_of(m["l"])[-1:] == ("type",):
                    rn = fn.sn(m["r"])
                    if rn["k"] == "ref" and rn["name"] in enum:
                        stored.add(rn["name"])
                        return rn["name"]
                return None

            def at_exit(self, fn, st, blk):
                if st is None:
                    missing[0] = True
        C.explore(h, TypeSet())
        if missing[0]:
            r4.violation("%s:type-not-set" % h.name, "%s leaves the reply's type field unset on some path: the reply carries the type of the session's "
                         "previous reply (or 0)" % h.name, loc=h.file)
        elif not stored <= allowed:
            r4.violation("%s:foreign-type" % h.name, "%s answers %s with %s" % (h.name, rq, sorted(stored - allowed)), loc=h.file)
        else:
            r4.ok("%s answers %s with %s on every path" % (h.name, rq, sorted(stored)), "path exploration")
        # client side
        cl = []
        for f in P.functions:
            if not f.file.endswith(cli_files):
                continue
            for m in f.nodes.values():
                if m["k"] == "init" and m.get("fields") and "type" in m["fields"]:
                    e = m["elems"][m["fields"].index("type")]
                    if f.sn(e).get("name") == rq:
                        cl.append(f)
        if len(cl) != 1:
            r4.violation("client:%s" % rq, "%d client functions send %s" % (len(cl), rq), loc="libxcmctl/xcmc.c")
            continue
        cf = cl[0]
        accepted = set()
        for b in cf.blocks.values():
            if b.term and b.term["k"] == "SwitchStmt" and "type" in cf.show(b.term["cond"]):
                for s2, lab in C.edges(cf, b):
                    if lab[0] == "case":
                        accepted.add(lab[2])
        for b, cond in C.cond_blocks(cf):
            l, op, r = C.cond_atom(cf, cond, True)
            if not isinstance(r, tuple) and cf.fields_of(l)[-1:] == ("type",) and cf.sn(r).get("name") in enum:
                accepted.add(cf.sn(r)["name"])
        if stored and stored <= accepted and accepted <= allowed:
            r4.ok("%s accepts %s" % (cf.name, sorted(accepted)), "agreement with the server's handler")
        else:
            r4.violation("%s:reply-types" % cf.name, "%s sends %s and accepts %s, but the server answers %s" % (cf.name, rq, sorted(accepted), sorted(stored)), loc=cf.file)
    r4.floor(2, "request types")

    # ------------------------------------------------------------------ R5
    r5 = ctx.rule("C14.R5", "the sensitive filter guards both reply paths and covers every attribute stored as sensitive")
    iss = P.fn("is_sensitive", "ctl/ctl.c")
    lits = sorted(m["v"] for m in iss.nodes.values() if m["k"] == "str")
    # attributes whose setter stores the value with sensitive=true
    Pl = P
    sens_names = set()
    for f in Pl.functions:
        for c in f.calls("item_set_value_n"):
            pass
    regs = {}
    for f in P.functions:
        for c in f.calls("attr_tree_add_value_node"):
            n = f.nodes[c]
            a = f.sn(n["args"][1])
            s_ = f.sn(n["args"][5])
            if a["k"] == "str" and s_["k"] == "ref" and s_.get("dk") == "function":
                regs.setdefault(s_["name"], set()).add(a["v"])
    # setters that pass a true `sensitive` argument down to item_set_value_n
    for f in P.functions:
        for c in f.calls():
            n = f.nodes[c]
            d = P.resolve_direct(f, n["callee"]) if n.get("callee") else None
            if d is None:
                continue
            idx = [i for i, p in enumerate(d.params) if p["name"] == "sensitive"]
            if idx and idx[0] < len(n["args"]) and C.const_of(f, n["args"][idx[0]]) == 1:
                for nm in regs.get(f.name, ()):
                    sens_names.add(nm)
    r5.instance("is_sensitive literals %s" % lits)
    if not sens_names:
        raise Broken("C14.R5: no attribute stored as sensitive found (anchor: a `sensitive` parameter given true by an attribute setter)")
    if sens_names <= set(lits):
        r5.ok("every attribute stored as sensitive (%s) is named by the filter" % sorted(sens_names), "set inclusion")
    else:
        r5.violation("is_sensitive:coverage", "attributes stored as sensitive but not filtered: %s" % sorted(sens_names - set(lits)), loc=iss.file)
    # both reply paths: functions writing into a reply's any_value / passing it to xcm_attr_get
    writers = []
    for f in srv_fns:
        for c in f.calls():
            n = f.nodes[c]
            if (n.get("callee") in ("memcpy", "xcm_attr_get", "strcpy")) and any(TP.mentions_field(f, a, "any_value") or TP.mentions_field(f, a, "str_value") for a in n["args"][:4]):
                if f.name != "clear_attr":
                    writers.append((f, c))
    for f, c in writers:
        r5.instance("%s: value copy" % f.qname)
        sens_vars = set()
        for m in f.nodes.values():
            if m["k"] == "decl":
                for v in m["vars"]:
                    if v.get("init") is not None and any(f.nodes[x]["k"] == "call" and f.nodes[x].get("callee") == "is_sensitive" for x in f.walk(v["init"])):
                        sens_vars.add(v["name"])
            elif m["k"] == "bin" and m["op"] == "=" and f.sn(m["l"])["k"] == "ref" and any(f.nodes[x]["k"] == "call" and f.nodes[x].get("callee") == "is_sensitive" for x in f.walk(m["r"])):
                sens_vars.add(f.sn(m["l"])["name"])
        sens_conds = [(b, cond) for b, cond in C.cond_blocks(f) if any((f.nodes[x]["k"] == "call" and f.nodes[x].get("callee") == "is_sensitive") or
                                                                        (f.nodes[x]["k"] == "ref" and f.nodes[x].get("name") in sens_vars) for x in f.walk(cond))]
        if not sens_conds:
            r5.violation("%s:no-filter" % f.name, "%s copies an attribute value into a reply without consulting is_sensitive()" % f.name, loc=f.loc(c))
            continue
        b, cond = sens_conds[0]
        l, op, r = C.cond_atom(f, cond, True)
        tlab = "T" if op == "!=" else "F"
        only = C.only_via_edge(f, b, tlab)
        wb = f.where()[c][0]
        # the copy lies after the test on the non-sensitive side only, or the sensitive side clears the value and rejects
        copy_after_on_sensitive = wb in C.reachable_blocks(f, [s for s, lab in C.edges(f, b) if lab == tlab][0])
        cleared = any(f.nodes[e]["k"] == "call" and f.nodes[e].get("callee") in ("clear_attr", "memset") for bb in only for e in f.blocks[bb].elems)
        rejected = any(f.nodes[e]["k"] == "bin" and f.nodes[e]["op"] == "=" and C.const_of(f, f.nodes[e]["r"]) == -1 for bb in only for e in f.blocks[bb].elems) or \
            any(f.nodes[e]["k"] == "return" for bb in only for e in f.blocks[bb].elems)
        dom = C.dominators(f)
        copy_before = wb in dom[b.id] and wb != b.id or (wb == b.id)
        if not copy_after_on_sensitive and (not copy_before or (cleared and rejected)):
            r5.ok("%s: a sensitive attribute's value never stays in the reply" % f.qname, "control dependence on is_sensitive()")
        elif copy_before and cleared and rejected and not copy_after_on_sensitive:
            r5.ok("%s: value cleared and request rejected on the sensitive edge" % f.qname, "control dependence on is_sensitive()")
        else:
            r5.violation("%s:leak" % f.name, "on the sensitive edge of is_sensitive() the value copy is %s and cleared=%s rejected=%s"
                         % ("still reachable" if copy_after_on_sensitive else "done before", cleared, rejected), loc=f.loc(c))
    if len(writers) < 2:
        raise Broken("C14.R5: only %d reply-value writers found" % len(writers))

    # ------------------------------------------------------------------ R6
    r6 = ctx.rule("C14.R6", "passive: ctl_process reaches no attribute setter, transport data/lifecycle op or connection-state store, and preserves errno")
    fp = P.fp()
    forbidden = {}
    for d in fp.field("attr_node_value", "set"):
        forbidden[d] = "attribute setter"
    for slot in ("connect", "server", "accept", "send", "receive", "finish", "close", "cleanup", "init", "set_local_addr"):
        for d in fp.field("xcm_tp_ops", slot):
            forbidden[d] = "transport op `%s`" % slot
    for name in ("xcm_attr_set", "xcm_close", "xcm_cleanup", "xcm_send", "xcm_receive", "xcm_set_blocking", "attr_tree_set_value"):
        d = P.fn_opt(name)
        if d:
            forbidden[d] = "mutating API"
    r6.instance("ctl_process: %d functions reachable" % len(reach_cp))
    hit = [d for d in reach_cp if d in forbidden]
    for d in hit:
        chain = [g.name for g in CG.path_to(reach_cp, d)]
        r6.violation("ctl_process->%s" % d.name, "the control interface can reach %s (%s): %s" % (d.name, forbidden[d], " -> ".join(chain)), loc=d.file)
    if not hit:
        r6.ok("none of %d forbidden functions is among the %d reachable from ctl_process" % (len(forbidden), len(reach_cp)), "call-graph reachability")
    if len(forbidden) < 60 or len(reach_cp) < 60:
        raise Broken("C14.R6: forbidden=%d reachable=%d: resolution lost" % (len(forbidden), len(reach_cp)))
    # no store to a connection state / condition from the reachable set
    for d in reach_cp:
        for b, i, e, lhs, rhs, op in d.stores():
            fl = d.fields_of(lhs)
            if fl[-1:] in (("state",), ("bad",), ("badness_reason",), ("condition",)) and "conn" in fl[:-1] + ("conn",) and d.file.startswith("libxcm/tp/"):
                if fl[-1] == "condition":
                    continue
                r6.violation("ctl_process->%s:state-store" % d.name, "%s, reachable from the control interface, stores %s" % (d.name, d.show(lhs)), loc=d.loc(e))
    lem = S.ErrnoLemma(P)
    r6.instance("ctl_process: errno")
    if lem.transparent(cp):
        r6.ok("ctl_process leaves errno as it found it (save/restore bracket on every path)", "derived errno transparency")
    else:
        r6.violation("ctl_process:errno", "ctl_process can change errno: the data-path call it piggybacks on would report a wrong error", loc=cp.file)
    # positive control: xcm_attr_set reaches setters
    xs = P.fn("xcm_attr_set")
    rs, _ = CG.reach(P, [xs], callbacks=CG.library_callbacks(P))
    if not any(d in forbidden for d in rs):
        raise Broken("C14.R6 self-check: attribute setters are not reachable from xcm_attr_set (function-pointer resolution lost)")
    r6.ok("self-check: the same reachability finds the setters from xcm_attr_set", "positive control")

    # ------------------------------------------------------------------ R7
    r7 = ctx.rule("C14.R7", "control files are removed with their socket; the session table stays within its array")
    cd = P.fn("ctl_destroy")
    r7.instance("ctl_destroy")
    unl = list(cd.calls("unlink"))
    okg = False
    for c in unl:
        wb = cd.where()[c][0]
        for b, cond in C.cond_blocks(cd):
            if "owner" in cd.show(cond) and wb in C.only_via_edge(cd, b, "T"):
                okg = True
    if unl and okg:
        r7.ok("ctl_destroy unlinks the control socket's file when called by the owner", "control dependence")
    else:
        r7.violation("ctl_destroy:unlink", "ctl_destroy(owner) does not unlink the control file", loc=cd.file)
    for api, want in (("xcm_tp_socket_close", 1), ("xcm_tp_socket_cleanup", 0)):
        f = P.fn(api)
        r7.instance(api)
        cs = list(f.calls("ctl_destroy"))
        if cs and all(C.const_of(f, f.nodes[c]["args"][1]) == want for c in cs):
            r7.ok("%s calls ctl_destroy(owner=%s)" % (api, bool(want)), "constant argument")
        else:
            r7.violation("%s:ctl_destroy" % api, "%s does not call ctl_destroy with owner=%s" % (api, bool(want)), loc=f.file)

    # a new session starts from a fully initialised slot: slots are recycled (remove_client copies the last
    # entry down and never clears), so every scalar field must be stored when a session is accepted
    r8 = ctx.rule("C14.R8", "a newly accepted control session starts from a fully initialised slot (slots are recycled)")
    crec = P.record("client")
    scalars = [fl["name"] for fl in crec["fields"] if not (fl.get("type") or fl.get("t") or "").startswith("struct ")]
    acc = [f for f in srv_fns if any(op in ("++", "post++") and f.fields_of(lhs)[-1:] == ("num_clients",) for b, i, e, lhs, rhs, op in f.stores())]
    if len(acc) != 1 or len(scalars) < 3:
        raise Broken("C14.R8: session-accepting function / scalar fields of struct client not found (%d, %s)" % (len(acc), scalars))
    af = acc[0]
    r8.instance(af.qname)
    stored = set()
    for b, i, e, lhs, rhs, op in af.stores():
        ln = af.sn(lhs)
        if ln["k"] == "member" and ln.get("record") == "client":
            stored.add(ln["field"])
    # ... on every path that increments the count
    missing = [x for x in scalars if x not in stored]
    if missing:
        r8.violation("%s:uninitialised:%s" % (af.name, ",".join(missing)), "%s accepts a session without initialising %s of its (recycled) slot: the new session "
                     "inherits the state of a session that was removed earlier (e.g. a reply still marked pending is sent to the wrong client)" % (af.name, missing), loc=af.file)
    else:
        class Init(C.Rule):
            def initial(self, fn):
                return frozenset()

            def elem(self, fn, st, nid, blk, idx):
                n = fn.nodes[nid]
                if n["k"] == "bin" and n["op"] == "=":
                    ln = fn.sn(n["l"])
                    if ln["k"] == "member" and ln.get("record") == "client":
                        return st | {ln["field"]}
                return None

            def at_exit(self, fn, st, blk):
                if st and not set(scalars) <= st:
                    r8.violation("%s:partly-initialised" % fn.name, "a path through %s stores only %s of the slot" % (fn.name, sorted(st)), loc=fn.file)
        C.explore(af, Init())
        r8.ok("%s stores every scalar field (%s) of the new session's slot" % (af.qname, scalars), "field coverage on all paths")

    # ------------------------------------------------------------------ R9
    r9 = ctx.rule("C14.R9", "a session that has hung up or was reset is still `readable`: the predicate that gates the session's read answers true whenever POLLIN is reported")
    check_readable_predicate(P, r9)

    # ------------------------------------------------------------------ R10
    r10 = ctx.rule("C14.R10", "the control file removed at close is the one that was bound: its name is not recomputed from the process id or the environment")
    check_unlink_name(P, r10)


def check_unlink_name(P, rule):
    """the name of a socket's control file is made of the XCM_CTL directory and the pid of the process that created the
    socket.  Both can differ when the socket is closed (the documented fork pattern: the child closes what the parent
    created and cleaned up; an application that changes its environment): a name recomputed at close is another file's
    name and the real one stays for ever.  Nothing reachable from the function that unlinks (direct calls) reads the
    process id or the environment; the name comes from the descriptor (getsockname) or from what was stored."""
    un = [f for f in P.functions if f.file.endswith("ctl/ctl.c") and any(True for _ in f.calls("unlink")) and not any(True for _ in f.calls("bind"))]
    if not un:
        raise Broken("C14.R10: no unlink() outside the creating function in ctl.c")
    SRC = {"getpid", "getppid", "getenv", "secure_getenv"}

    def root_var(fn, nid):
        for x in fn.walk(nid):
            m = fn.nodes[x]
            if m["k"] == "ref" and m.get("dk") in ("local", "param"):
                return m.get("did")
        return None

    def reads_src(g0):
        seen, work = {g0}, [g0]
        while work:
            g = work.pop()
            for c in g.calls():
                nm = g.nodes[c].get("callee") or ""
                if nm in SRC:
                    return (g, c, nm)
                d = P.resolve_direct(g, nm) if nm else None
                if d is not None and d not in seen and d.file.startswith(("libxcm/", "common/")) and not d.file.endswith("core/log.c"):
                    seen.add(d)
                    work.append(d)
        return None
    for f in un:
        for u in f.calls("unlink"):
            rule.instance("%s: %s" % (f.qname, f.show(u)[:50]))
            rv = root_var(f, f.nodes[u]["args"][0])
            hit = None
            nwr = 0
            for c in f.calls():
                if c == u or rv is None:
                    continue
                n = f.nodes[c]
                if not any(root_var(f, a) == rv and f.nodes[f._strip0(a)]["k"] != "int" for a in n["args"]):
                    continue
                nm = n.get("callee") or ""
                if nm.startswith(("__log", "log_")):
                    continue
                nwr += 1
                for a in n["args"]:
                    for x in f.walk(a):
                        if f.nodes[x]["k"] == "call" and (f.nodes[x].get("callee") or "") in SRC:
                            hit = hit or (f, x, f.nodes[x]["callee"])
                d = P.resolve_direct(f, nm) if nm else None
                if d is not None:
                    hit = hit or reads_src(d)
            if hit:
                g, c, nm = hit
                rule.violation("%s:name-recomputed:%s" % (f.name, nm), "%s removes a control file whose name it builds anew with %s() (in %s): after a fork, or with XCM_CTL "
                               "changed, that is not the file the socket is bound to, which is then never removed" % (f.name, nm, g.name), loc=g.loc(c))
            else:
                rule.ok("%s: what fills the name given to unlink() (%d call(s)) reads neither the process id nor the environment" % (f.qname, nwr), "origin of the buffer over direct calls")


def check_readable_predicate(P, rule):
    """the control server reads a session only when ut_is_readable() says so, and a failing read is the only way a dead
    session is ever removed.  poll() reports a reset or hung-up peer as POLLIN together with POLLERR/POLLHUP; the
    predicate, folded exactly over poll()'s result and every combination of those bits, must be true iff exactly one
    descriptor is ready and POLLIN is among its events."""
    from .. import interp as I
    f = P.fn("ut_is_readable")
    POLLIN, POLLERR, POLLHUP, POLLNVAL = 1, 8, 16, 32
    rule.instance(f.qname)
    bad = []
    n = 0
    for rc in (-1, 0, 1):
        for rev in range(64):
            if rev & ~(POLLIN | POLLERR | POLLHUP | POLLNVAL | 2 | 4):
                continue
            it = I.Interp(P, stubs={"__errno_location": lambda a: 1})
            it.record_calls = True
            it.opaque_decls = True
            it.mem = {}

            def poll(a, it=it, rc=rc, rev=rev):
                for k in [p for p in ("pfd.revents",)]:
                    it.mem[k] = rev
                return rc
            it.stubs["poll"] = poll
            # the local pollfd may have any name: find the path text of the `revents` read
            rp = [f.show(x) for x, m in f.nodes.items() if m["k"] == "member" and m.get("field") == "revents"]
            if len(set(rp)) != 1:
                raise Broken("readable-predicate: revents is read through %s" % sorted(set(rp)))

            def poll2(a, it=it, rc=rc, rev=rev, path=rp[0]):
                it.mem[path] = rev
                return rc
            it.stubs["poll"] = poll2
            try:
                got = bool(it.call(f, [5]))
            except I.Unsupported as e:
                raise Broken("readable-predicate: %s cannot be folded (%s)" % (f.name, e))
            n += 1
            want = rc == 1 and bool(rev & POLLIN)
            if got != want:
                bad.append((rc, rev, got))
    if n < 48:
        raise Broken("readable-predicate: only %d combinations folded" % n)
    if bad:
        rc, rev, got = bad[0]
        rule.violation("ut_is_readable:predicate", "ut_is_readable answers %s for poll()=%d with revents=0x%x (POLLIN=1, POLLERR=8, POLLHUP=16): a session whose peer has gone is "
                       "never read again, so it is never removed - its slot, its descriptor and its epoll registration stay, and the owner's xcm_fd() stays readable" % (got, rc, rev), loc=f.file)
    else:
        rule.ok("%s is true iff one descriptor is ready with POLLIN, for all %d combinations of result and event bits" % (f.qname, n), "exact folding")
